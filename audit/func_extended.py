from audit.common import *
"""Extended shapes for the standard C12 correspondence (check_fcase on CFuncQ terms):
m = 0 (Circuit / PyFunction only; TruthTable([]) raises), m = 3, 4, n = 6.
Every line printed: shape, number of cases, number of cases on which check_fcase = false."""
import random
from harness import funccorr as fc

REQ = ['Cirbo.Model.Gate', 'Cirbo.Model.Circuit', 'Cirbo.Model.Eval', 'Cirbo.Model.History',
       'Cirbo.Model.FuncProto', 'Cirbo.Model.FuncProtoCases']


def run(tag, cases):
    terms = []
    for c in cases:
        impl = fc.run_impl(c)
        terms.append('check_fcase ' + fc.case_term(c, impl))
    out = coq_eval('func_ext_' + tag, REQ, terms)
    bad = [c for c, o in zip(cases, out) if not o.startswith('true')]
    print(f'{tag}: {len(cases)} cases, {len(bad)} disagree')
    for c in bad[:5]:
        print('   DISAGREE', c)
    return bad


if __name__ == '__main__':
    rng = random.Random(12)
    rnd = lambda n, m: [[rng.random() < 0.5 for _ in range(2 ** n)] for _ in range(m)]
    # zero outputs: TruthTable([]) -> IndexError, Circuit without outputs, PyFunction returning []
    run('m0', [fc.func_case(n, 0, []) for n in range(0, 4)])
    run('m3', [fc.func_case(n, 3, rnd(n, 3)) for n in (0, 1, 2, 3) for _ in range(12)])
    run('m4', [fc.func_case(n, 4, rnd(n, 4)) for n in (1, 2) for _ in range(8)])
    # structured functions with 4..6 inputs: symmetric ones, negation-symmetric ones, monotone rows
    cases = []
    for n in (4, 5, 6):
        vs = fc.vectors(n)
        maj = [sum(x) * 2 > n for x in vs]
        par = [sum(x) % 2 == 1 for x in vs]
        neg = [(sum(x) - 2 * x[0] + 1) >= 2 for x in vs]          # symmetric after negating input 0
        thr = [i >= 2 ** n - 3 for i in range(2 ** n)]             # sorted row (monotone, documented sense)
        thr_inv = [i < 5 for i in range(2 ** n)]
        last = [x[-1] for x in vs]
        nfirst = [not x[0] for x in vs]
        for rows in ([maj], [par, neg], [thr, thr_inv], [last, nfirst], [neg]):
            cases.append(fc.func_case(n, len(rows), rows))
    run('n456', cases)
