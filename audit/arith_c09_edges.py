from audit.common import *
"""Edge inputs for the C09 generators (ArithSub / ArithDiv / ArithSqrt / ArithMisc / ArithGen) that the
generators of harness/arithcorr.py do not produce: zero-size generate_* wrappers, the same label list
passed for both operands, the empty string as operand / result label, result labels that clash with
operands or with each other, very large constants, widths 0/1 and unequal widths."""
from audit.arith_lib import check_arith, check_arith_gen, report, ac


def host(labels, extra=()):
    gates = [(l, 'INPUT', []) for l in labels] + list(extra)
    users = {}
    for l, t, ops in gates:
        for o in ops:
            users.setdefault(o, []).append(l)
    return {'inputs': list(labels), 'outputs': [], 'gates': gates, 'users': list(users.items()), 'blocks': []}


H = host(['a', 'b', 'c', ''], [('g', 'AND', ['a', 'b']), ('k', 'ALWAYS_TRUE', [])])
N1 = ac.impl_label(1)
N2 = ac.impl_label(2)
N5 = ac.impl_label(5)
calls = [
    # same label list / repeated labels / non-input operands / empty-string label
    ['sub', ['a', 'a'], ['a', 'a'], False], ['sub', ['g', ''], ['', 'k', 'a'], True], ['sub', ['a'], ['b', 'c', 'g'], False],
    ['subcmp', ['a'], ['b', 'c', 'g'], True], ['subcmp', ['a', 'b', 'c'], ['g'], True], ['subcmp', [''], [''], False],
    ['sum2', ['a'], ['b', 'c', 'g'], True], ['sum2', ['', ''], [''], False],
    ['divmod', ['a'], ['a'], False], ['divmod', ['g', 'g'], ['g', 'g'], True], ['divmod', ['a', 'b'], ['c'], False],
    ['divmod', ['a'], [], False], ['divmod', [], ['a'], True], ['divmod', ['a', 'nope'], ['b'], False],
    ['sqrt', ['a'], False], ['sqrt', ['a'], True], ['sqrt', ['g', 'g'], True], ['sqrt', ['', 'k', 'a'], True],
    ['sqrt', ['nope'], False],
    ['equal', ['a', 'a', 'a'], 7], ['equal', ['a', 'b'], 2 ** 200], ['equal', ['a', 'b'], -2 ** 200], ['equal', [''], 0],
    ['equal', ['k'], 1], ['equal', ['a', 'b', 'c', 'g', 'k', ''], 0], ['equal', ['a', 'b', 'c', 'g', 'k', ''], 63],
    ['equal', ['a', 'nope'], 3], ['equal', ['a', 'nope'], 1], ['equal', ['a', 'nope'], 4],
    # add_plus_one: result labels
    ['plusone', ['a'], ['r'], True, False], ['plusone', ['a', 'b', 'c'], ['r'], True, True],
    ['plusone', ['a'], ['r0', 'r1', 'r2', 'r3'], True, True], ['plusone', ['a', 'b'], ['r', 'r'], True, False],
    ['plusone', ['a', 'b'], ['r0', 'r1', 'r0'], False, True], ['plusone', ['a', 'b'], ['a', 'r1'], False, False],
    ['plusone', ['a', 'b'], ['r0', 'a'], False, False], ['plusone', ['a', 'b'], ['r0', 'b', 'r2'], False, True],
    ['plusone', ['a', 'a', 'a'], None, True, True], ['plusone', ['', 'g'], None, False, False],
    ['plusone', ['a', 'b'], [N1, N2, N5], True, False], ['plusone', ['a', 'b'], [N5, N2, N1], True, True],
    ['plusone', ['a', 'b'], ['', 'x'], True, False], ['plusone', ['nope'], ['r'], True, False],
    ['plusone', ['a', 'nope'], ['r0', 'r1'], True, False], ['plusone', ['a', 'nope'], ['r0'], True, False],
    ['plusone', [], [], True, False], ['plusone', [], ['r'], True, False], ['plusone', [], None, True, True],
    # if-then-else
    ['ite', 'a', 'a', 'a', None, True], ['ite', 'a', 'b', 'c', 'a', True], ['ite', 'a', 'b', 'c', '', True],
    ['ite', 'a', 'b', 'c', N1, False], ['ite', 'a', 'b', 'c', N2, True], ['ite', 'nope', 'b', 'c', 'r', True],
    ['ite', 'a', 'nope', 'c', 'r', True], ['ite', 'a', 'b', 'nope', 'r', True],
    ['pite', ['a', 'b'], ['b', 'c'], ['c', 'a'], ['r', 'r'], True],
    ['pite', ['a', 'b'], ['b', 'c'], ['c', 'a'], [N5, 'r'], True],
    ['pite', ['a', 'b'], ['b', 'c'], ['c', 'a'], ['r', N5], True],
    ['pite', ['a', 'b'], ['b'], ['c', 'a'], None, True], ['pite', ['a'], ['b'], ['c', 'a'], ['r'], True],
    ['pite', ['a', 'b'], ['b', 'nope'], ['c', 'a'], None, True], ['pite', ['a'], ['b'], ['c'], [], True],
    ['pite', [], [], [], ['r'], True], ['pite', [], [], [], [], True],
    ['pxor', ['a', 'b'], ['b', 'c'], ['r', 'r'], True], ['pxor', ['a', 'b'], ['b', 'c'], ['b', 'r'], True],
    ['pxor', ['a', 'b'], ['b', 'nope'], ['r0', 'r1'], True], ['pxor', ['a'], [], None, True],
    ['pxor', [], [], ['r'], True], ['pxor', ['a', 'a'], ['a', 'a'], None, False], ['pxor', ['a'], ['b'], [''], True],
]
cases = [{'host': H, 'k0': 1, 'call': c} for c in calls]
report(check_arith('arith_c09_edges', cases))

gens = [['gsub', 0, 0, True], ['gsub', 0, 3, False], ['gsub', 3, 0, False], ['gsub', 1, 5, True], ['gsub', 5, 1, True],
        ['gdivmod', 0, False], ['gdivmod', 0, True], ['gdivmod', 1, True], ['gsqrt', 0, True], ['gsqrt', 1, True],
        ['gequal', 0, 0], ['gequal', 0, 1], ['gequal', 0, -1], ['gequal', 1, 0], ['gequal', 1, 1], ['gequal', 1, 2],
        ['gequal', 3, 2 ** 100], ['gplusone', 0, 0, False], ['gplusone', 0, 2, True], ['gplusone', 2, 0, True],
        ['gplusone', 1, 1, True], ['gplusone', 1, 6, True], ['gplusone', 5, 1, False], ['gpite', 0], ['gpxor', 0], ['gite']]
report(check_arith_gen('arith_c09_edges_gen', [{'gen': g, 'k0': 1} for g in gens]))
