from audit.common import *
"""TruthTableModel.define / PyFunctionModel.define with definitions the generator never produces:
output index one past the table, input tuples that are too short / too long / empty, and PyFunctionModel
with an explicit output_size smaller / larger than what the callable returns."""
from audit.func_util import *

T, F = True, False

if __name__ == '__main__':
    tbl2 = [[T, '*', '*', F], ['*', '*', T, T]]
    defs = [
        [[[F, T], 0, T], [[T, F], 0, F], [[F, F], 1, T], [[F, T], 1, F], [[F, F], 2, T]],     # j = m
        [[[F, T], 0, T], [[T, F], 0, F], [[F, F], 1, T], [[F, T], 1, F], [[T, F, F], 0, T]],  # x too long
        [[[T], 0, T], [[T, F], 0, F], [[F, F], 1, T], [[F, T], 1, F]],                         # x short: index 1
        [[[], 1, T], [[F, T], 0, T], [[T, F], 0, F], [[F, T], 1, F]],                          # x empty: index 0
        [[[F, F, F, T], 0, T], [[T, F], 0, F], [[F, F], 1, T], [[F, T], 1, F]],                # leading zeros
    ]
    cases = [{'kind': 'tmodel', 'table': tbl2, 'defs': defs},
             {'kind': 'pmodel', 'table': tbl2, 'n': 2, 'out': None, 'defs': defs},
             {'kind': 'pmodel', 'table': tbl2, 'n': 2, 'out': 3, 'defs': defs[:1]},            # output_size > len
             {'kind': 'pmodel', 'table': [[T, '*'], [F, T]], 'n': 1, 'out': 1,                 # output_size < len, no
              'defs': [[[[T], 0, F]]]},                                                       # DontCare beyond
             {'kind': 'tmodel', 'table': [['*']], 'defs': [[[[], 0, T]], []]},
             {'kind': 'pmodel', 'table': [['*']], 'n': 0, 'out': None, 'defs': [[[[], 0, T]], []]},
             ]
    terms, impls = [], []
    for c in cases:
        impl = fc.run_impl(c)
        impls.append(impl)
        terms.append('check_fcase ' + fc.case_term(c, impl))
    out = coq_eval('func_define_odd', REQ, terms)
    for c, i, o in zip(cases, impls, out):
        print(c['kind'], 'table', c['table'], 'out', c.get('out'), '->', 'SAME' if o.startswith('true') else 'DIFFERENT')
        for d, r in i.get('defs', []):
            print('     def', d, '->', r[0], (r[1] if r[0] == 'err' else r[1][0]))

    # known approximation: a DontCare left beyond output_size is returned as is by the implementation,
    # the model reports GateStateError
    c = {'kind': 'pmodel', 'table': [[T, '*'], ['*', '*']], 'n': 1, 'out': 1, 'defs': [[[[T], 0, F]]]}
    impl = fc.run_impl(c)
    print('DontCare beyond output_size: impl defs ->', impl['defs'])
    m = coq_eval('func_define_odd2', REQ,
                 ['py_func (pm_define (mkPM 1 1 (table_callable [[Def true; DontCare]; [DontCare; DontCare]])) '
                  '[(([true], 0), false)]) [true]'])
    print('   model evaluate([True]):', strip_type(m[0]))
