from audit.common import *
"""PyFunction with (a) an explicit output_size that differs from what the callable returns,
(b) a callable whose results have different lengths on different inputs, (c) tuples as results,
(d) tuples on some inputs and lists on others (not expressible in the model: results are `bvec`)."""
from audit.func_util import *
from cirbo.core.python_function import PyFunction

T, F = True, False


def per_input_callable(rows, as_tuple=lambda i: False):
    def f(args):
        r = rows[fc.index_of(args)]
        return tuple(r) if as_tuple(fc.index_of(args)) else list(r)
    return f


CASES = [
    # (name, n, rows per input (canonical order), output_size argument, tuple selector)
    ('size_smaller', 1, [[T, F], [T, T]], 1, lambda i: False),
    ('size_larger', 1, [[T, F], [T, T]], 3, lambda i: False),
    ('size_zero', 2, [[T], [F], [F], [T]], 0, lambda i: False),
    ('varlen_first_short', 1, [[T], [T, F]], None, lambda i: False),
    ('varlen_first_long', 1, [[T, F], [T]], None, lambda i: False),
    ('varlen_empty', 2, [[T, F], [], [T, F], [F, F]], None, lambda i: False),
    ('tuples', 2, [[T, F], [F, F], [T, T], [F, T]], None, lambda i: True),
]

if __name__ == '__main__':
    total = 0
    for name, n, rows, osz, tup in CASES:
        try:
            obj = PyFunction(per_input_callable(rows, tup), n, output_size=osz)
            m = obj.output_size
        except Exception as e:  # noqa
            obj, m = ('err', fc.err_name(e)), 0
        func = f'(fun x : list bool => nth_res {fc.tbl(rows)} (index_of x))'
        make = f'(py_make {func} {n} {ct.opt(osz, str)})'
        print(name, 'n =', n, 'rows =', rows, 'output_size arg =', osz, '-> m =', m)
        total += compare_queries('func_pyodd_' + name, make, 'py_query', obj, fc.queries(n, max(m, 2)))
    print('TOTAL differing queries (a-c):', total)

    # (d) mixed tuple / list results: Python list != tuple, the model has one type of result
    obj = PyFunction(per_input_callable([[T], [T]], lambda i: i == 0), 1)
    impl = run_impl(obj.is_constant)
    impl_sym = run_impl(lambda: obj.find_negations_to_make_symmetric([0]))
    mdl = coq_eval('func_pyodd_mixed', REQ,
                   ['match py_make (fun x : list bool => nth_res [[true];[true]] (index_of x)) 1 None with '
                    'Ok p => py_query p QConstant | Err e => Err e end'])
    show('(d) is_constant of f = const True returning (True,) at x=0 and [True] at x=1', impl, strip_type(mdl[0]))
