"""Inputs the 8-bit / list-based model cannot express (python side only; the Coq term printer refuses them).
Run:  cd /root/wt/audit && /venv/bin/python -m audit.bench_outside_model"""
from audit.bench_lib import *  # noqa: F401,F403
from cirbo.core.circuit import Circuit, gate

print('== 1. operator / keyword spellings whose str.upper() is ASCII although the text is not (model: upper on a-z only)')
for text in ['ınput(a)\noutput(a)', 'INPUT(a)\nx = ıff(a)', 'INPUT(a)\nx = buﬀ(a)', 'INPUT(a)\nx = alwayſ_true()',
             'INPUT(a)\nx = lıﬀ(a, a)', 'x = ınput(a)']:
    r = bc.run_parse(text)
    try:
        term = bc.text_term(text)
    except ValueError as e:
        term = f'<text_term raises ValueError: {e}>'
    print(repr(text), '->', r, '| model input:', term)

print('== 2. operands handed in as a list (annotation says tuple): format -> parse is not == the original')
c = Circuit()
c.add_inputs(['a', 'b'])
c.emplace_gate('x', gate.AND, ['a', 'b'])
c.set_outputs(['x'])
d = Circuit.from_bench_string(c.format_circuit())
print('list operands : parsed == original ->', d == c, '| operands', c.get_gate('x').operands, 'vs', d.get_gate('x').operands)
c2 = Circuit()
c2.add_inputs(['a', 'b'])
c2.emplace_gate('x', gate.AND, ('a', 'b'))
c2.set_outputs(['x'])
print('tuple operands: parsed == original ->', Circuit.from_bench_string(c2.format_circuit()) == c2)
print('model: gops is a list in both cases, circuit_eq_py answers true (dump_circuit does list(g.operands))')

print('== 3. from_bench_file on bytes that are not text in the locale encoding / carry a BOM (decoding is not modelled)')
import pathlib
with bc.TempDir() as tmp:
    p = pathlib.Path(tmp) / 'latin1.bench'
    p.write_bytes(b'INPUT(\xe9)\nOUTPUT(\xe9)\n')
    r = run_impl(lambda: ct.dump_circuit(Circuit.from_bench_file(p)))
    print('latin-1 bytes  impl :', r)
    q = pathlib.Path(tmp) / 'bom.bench'
    q.write_bytes(b'\xef\xbb\xbfINPUT(a)\nOUTPUT(a)\n')
    print('utf-8 BOM      impl :', run_impl(lambda: ct.dump_circuit(Circuit.from_bench_file(q))))
out = coq_eval('bench_bytes', REQ, ['from_bench_file_content (cat ["INPUT("; chr 233; ")"; NL; "OUTPUT("; chr 233; ")"; NL])',
                                    'from_bench_file_content (cat [chr 239; chr 187; chr 191; "INPUT(a)"; NL; "OUTPUT(a)"; NL])'])
print('latin-1 bytes  model (content = the bytes):', strip_type(out[0]))
print('utf-8 BOM      model (content = the bytes):', strip_type(out[1]))
