from audit.common import *
"""translator/t4_arith.py is meant to be fail-closed.  Three shapes of source change that alter what
Python executes but are ACCEPTED silently (the translation is unchanged):
  1. a decorator on a cell,
  2. a module-level rebinding of a cell name after its def (add_sum2 = add_sum2_aig),
  3. a mutation of binary_tt_to_type after the dict literal (subscript assignment / .update).
(The netlist correspondence still catches 1-3 for the cells it exercises; this is about the translator
alone.)  Nothing here touches /repo: the sources are parsed from strings."""
import ast
from translator import t4_arith as T
from translator.common import top_level_assigns, top_level_functions

CELL = '''
def add_sum2(circuit, input_labels):
    input_labels = list(input_labels)
    validate_const_size(input_labels, 2)
    [x1, x2] = input_labels
    g1 = add_gate_from_tt(circuit, x1, x2, '0110')
    g2 = add_gate_from_tt(circuit, x1, x2, '0001')
    return list([g1, g2])
'''
plain = T.translate_cell(ast.parse(CELL).body[0])
decorated = T.translate_cell(ast.parse('@swap_outputs' + CELL).body[0])
print('1. decorator accepted, same translation:', plain == decorated)

mod = ast.parse(CELL + '\ndef add_sum2_aig(circuit, input_labels):\n    pass\n\nadd_sum2 = add_sum2_aig\n')
f = top_level_functions(mod)['add_sum2']
print('2. rebinding after the def ignored, cell still translated from the def:', T.translate_cell(f) == plain,
      '| the rebinding is visible only in top_level_assigns:', 'add_sum2' in top_level_assigns(mod))

mod = ast.parse('binary_tt_to_type = {"0110": gate.XOR}\nbinary_tt_to_type["0110"] = gate.OR\n'
                'binary_tt_to_type.update({"0001": gate.OR})\n')
d = top_level_assigns(mod)['binary_tt_to_type']
print('3. later mutation of the table not seen: translator reads', ast.unparse(d),
      '| other top-level statements:', [type(n).__name__ for n in mod.body[1:]])
