from audit.common import *
"""Fuel of the modelled loops of the bit counters (ArithSumN.v): xaig_loop / level_loop run on
S (length input_labels), block_loop on S (length labels), blocks_outer on S (length input_labels).
Sweep n beyond the bounds of the kernel-computed theorems (64 / 40) on bare circuits, netlist
equality against the implementation."""
import sys
from audit.arith_lib import check_sum, report, ac, sc

NS = list(range(0, 13)) + [15, 16, 17, 31, 32, 33, 41, 47, 63, 64, 65, 66, 70, 77, 80, 90, 96, 100, 127, 128, 129]
if len(sys.argv) > 1:
    NS = [int(x) for x in sys.argv[1:]]

cases = []
for n in NS:
    h = ac.bare_host(n)
    xs = list(h['inputs'])
    cases.append({'host': h, 'k0': 1, 'call': ['nbits', ['enum', 'XAIG'], False, xs]})
    cases.append({'host': h, 'k0': 1, 'call': ['nbits', ['enum', 'AIG'], True, xs]})
    cases.append({'host': h, 'k0': 1, 'call': ['easy', False, xs]})
    cases.append({'host': h, 'k0': 1, 'call': ['pow2', ['str', 'xaig'], False, xs]})
    cases.append({'host': h, 'k0': 1, 'call': ['pow2', ['enum', 'AIG'], True, xs]})
rows = check_sum('arith_fuel_bits', cases, summaries=False)
report(rows, what=lambda c: (c['call'][0], c['call'][1], len(c['host']['inputs'])))
