"""The linearised / reduced transformer LIST itself (not only the final circuit: RemoveRedundantGates is
idempotent, so a wrong reduction rule is invisible in the output circuit) and the structure built by `|`:
implementation vs model (linearize, linearize_reduce, pipe).

    cd /root/wt/audit && /venv/bin/python -m audit.passes_linearize [N] [SEED]
"""
from audit.common import *  # noqa: F401,F403
import random
import sys

from harness import passcorr

PRELUDE = '''
Fixpoint code (t : transformer) : list nat :=
  match t with
  | TRR false => [0] | TRR true => [1] | TMU => [2] | TMD => [3] | TME => [4]
  | TComp ts => 8 :: flat_map code ts ++ [9]
  end.
Definition codes (ts : list transformer) : list nat := flat_map code ts.
'''


def code(obj):
    from cirbo.core.circuit.transformer import TransformerComposition
    from cirbo.minimization.simplification import (MergeDuplicateGates, MergeEquivalentGates, MergeUnaryOperators,
                                                   RemoveRedundantGates)
    if isinstance(obj, TransformerComposition):
        out = [8]
        for t in obj.transformers:
            out += code(t)
        return out + [9]
    if isinstance(obj, RemoveRedundantGates):
        return [1 if obj._allow_inputs_removal else 0]
    return [{MergeUnaryOperators: 2, MergeDuplicateGates: 3, MergeEquivalentGates: 4}[type(obj)]]


def rand_t(rng, depth=0):
    r = rng.random()
    if depth >= 3 or r < 0.45:
        return rng.choice([['RR', False], ['RR', False], ['RR', True], ['RR', True], ['MU'], ['MD'], ['ME']])
    if r < 0.75:
        return ['PIPE', rand_t(rng, depth + 1), rand_t(rng, depth + 1)]
    return ['COMP', [rand_t(rng, depth + 1) for _ in range(rng.randint(0, 4))]]


def main():
    from cirbo.core.circuit.transformer import Transformer
    n = int(sys.argv[1]) if len(sys.argv) > 1 else 1500
    rng = random.Random(int(sys.argv[2]) if len(sys.argv) > 2 else 1)
    tss = [[rand_t(rng) for _ in range(rng.randint(0, 4))] for _ in range(n)]
    tss += [[], [['COMP', []]], [['RR', True], ['RR', False], ['RR', False], ['RR', True], ['RR', True]],
            [['MU'], ['RR', False]], [['MU'], ['RR', True], ['RR', False]],
            [['PIPE', ['PIPE', ['MU'], ['MD']], ['MU']]], [['PIPE', ['MU'], ['PIPE', ['MD'], ['MU']]]],
            [['PIPE', ['COMP', []], ['COMP', []]]], [['COMP', [['COMP', [['COMP', []]]]]]]]
    impl, terms = [], []
    for ts in tss:
        objs = [passcorr.build(t) for t in ts]
        lin = [c for o in Transformer.linearize_transformers(objs) for c in code(o)]
        red = [c for o in Transformer.linearize_reduce_transformers(objs) for c in code(o)]
        struct = [c for o in objs for c in code(o)]
        impl.append((lin, red, struct))
        tl = ct.lst(passcorr.term(t) for t in ts)
        terms.append(f'(codes (linearize {tl}), codes (linearize_reduce {tl}), codes {tl})')
    out = []
    B = 200
    for k in range(0, len(terms), B):
        out += coq_eval('passes_linearize', ['Cirbo.Model.Gate', 'Cirbo.Model.Circuit', 'Cirbo.Model.Passes'],
                        terms[k:k + B], PRELUDE)
    bad = 0
    for ts, im, mo in zip(tss, impl, out):
        mo = strip_type(mo)
        exp = '(' + ', '.join('[' + '; '.join(map(str, x)) + ']' for x in im) + ')'
        if mo.replace(' ', '') != exp.replace(' ', ''):
            bad += 1
            print('DIFFERENT', ts)
            print('  impl :', exp)
            print('  model:', mo)
    print('pipelines', len(tss), 'max linear length', max(len(i[0]) for i in impl), 'disagreements', bad)


if __name__ == '__main__':
    main()
