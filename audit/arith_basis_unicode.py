from audit.common import *
"""resolve_basis models str.upper() on ASCII only (ArithSumN.upper_ascii).  Python's str.upper() maps
U+0131 (dotless i) to 'I', so basis='aıg' / 'xaıg' resolve to AIG / XAIG in the implementation
while the model answers Err PyValueError (the Coq string holds the UTF-8 bytes C4 B1, which upper_ascii
leaves alone).  U+0131 is the only non-ASCII code point whose upper() is made of the letters X A I G."""
from audit.arith_lib import check_sum, report, ac, sc

_bt = sc.basis_term


def basis_term(b):
    if b[0] == 'str' and not b[1].isascii():
        return '(BStr "' + b[1] + '")'           # raw UTF-8 bytes in the Coq string literal
    return _bt(b)


sc.basis_term = basis_term
h = ac.bare_host(3)
xs = list(h['inputs'])
cases = []
for b in ('aıg', 'xaıg', 'AıG', 'aig', 'ı'):
    cases.append({'host': h, 'k0': 1, 'call': ['nbits', ['str', b], False, xs]})
    cases.append({'host': h, 'k0': 1, 'call': ['pow2', ['str', b], False, xs]})
    cases.append({'host': h, 'k0': 1, 'call': ['weighted', ['str', b], [[0, '0'], [0, '1'], [1, '2']]]})
    cases.append({'host': h, 'k0': 1, 'call': ['naive', ['str', b], [[0, '0'], [0, '1'], [1, '2']]]})
rows = check_sum('arith_basis_unicode', cases)
report(rows, what=lambda c: (c['call'][0], c['call'][1][1]), verbose=True)
gen = [{'gen': ['gnbits', 3, ['str', 'aıg'], False], 'k0': 1}]
from audit.arith_lib import check_sum_gen
report(check_sum_gen('arith_basis_unicode_gen', gen), verbose=True)
