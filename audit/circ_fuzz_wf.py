"""For the histories of audit.circ_fuzz whose start state is WF but which reach a non-WF state (model == impl):
name the call that broke the invariant.   /venv/bin/python -m audit.circ_fuzz_wf seed n"""
import random, re, sys
from audit.common import *
from audit import circ_fuzz as F
from harness import gen, env

seed, n = int(sys.argv[1]), int(sys.argv[2])
rng = random.Random(seed)
maxsteps = int(sys.argv[3]) if len(sys.argv) > 3 else 6
hs = [F.run_history(rng, rng.randint(1, maxsteps)) for _ in range(n)]
pre = F.HEADER + ("Definition wfs (x : circuit * list op * list (res circuit)) := let '(c, os, ex) := x in "
                  "(wfb c, map wfb (history_states c os)).\n")
for i in range(0, n, 100):
    terms = ct.lst(gen.history_term(h) for h in hs[i:i + 100])
    out = coq_eval(f'circ_fuzzwf_{seed}_{i}', [], [f'failing_indices chkwf {terms}'], prelude=pre)[0]
    for j in [int(x) for x in re.findall(r'\d+', strip_type(out))]:
        h = hs[i + j]
        w = strip_type(coq_eval(f'circ_fuzzwf1', [], [f'wfs {gen.history_term(h)}'], prelude=pre)[0])
        flags = re.findall(r'true|false', w)[1:]
        k = flags.index('false')
        prev = h['start'] if k == 0 else h['results'][k - 1][1]
        print(f'history {i+j}: broken by call #{k}: {h["ops"][k][0]}')
        print('   state before:', prev)
        print('   op          :', h['ops'][k])
        print('   state after :', h['results'][k][1])
