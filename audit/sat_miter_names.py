from audit.common import *
"""build_miter(l, r, left_name=.., right_name=..): model vs implementation on block names the C13 correspondence
(default names only) never uses, and on edge shapes (zero outputs / inputs, outputs that are inputs, repeated outputs,
shared labels, labels with '@', blocks inside operands whose names clash, aliasing build_miter(c, c))."""
import copy
import random

from harness import gen

REQ = ['Cirbo.Model.Gate', 'Cirbo.Model.Circuit', 'Cirbo.Model.History', 'Cirbo.Model.Miter']


def mk(inputs, gates, outputs, blocks=()):
    gs = [(i, 'INPUT', []) for i in inputs] + [tuple(g) for g in gates]
    users = {}
    for l, t, ops in gs:
        for o in ops:
            users.setdefault(o, []).append(l)
    return {'inputs': list(inputs), 'outputs': list(outputs), 'gates': gs, 'users': list(users.items()),
            'blocks': [tuple(b) for b in blocks]}


def impl(l, r, ln, rn):
    from cirbo.sat.miter import build_miter
    cl, cr = ct.build_circuit(l), ct.build_circuit(r)
    bl, br = ct.dump_circuit(cl), ct.dump_circuit(cr)
    try:
        m = build_miter(cl, cr, left_name=ln, right_name=rn)
    except Exception as e:  # noqa: BLE001
        res = ('err', ct.err_name(e))
    else:
        for name in {ln, rn, 'pairwise_xor'}:
            gen.canonicalise_block(m, name)
        res = ('ok', ct.dump_circuit(m))
    mutated = (ct.dump_circuit(cl) != bl) or (ct.dump_circuit(cr) != br)
    return res, mutated


def impl_alias(l, ln, rn):
    from cirbo.sat.miter import build_miter
    c = ct.build_circuit(l)
    b = ct.dump_circuit(c)
    try:
        m = build_miter(c, c, left_name=ln, right_name=rn)
    except Exception as e:  # noqa: BLE001
        res = ('err', ct.err_name(e))
    else:
        for name in {ln, rn, 'pairwise_xor'}:
            gen.canonicalise_block(m, name)
        res = ('ok', ct.dump_circuit(m))
    return res, ct.dump_circuit(c) != b


A = mk(['a', 'b'], [('g', 'AND', ['a', 'b'])], ['g'])
B = mk(['b', 'a'], [('g', 'OR', ['a', 'b'])], ['g'])                     # other input order, shared labels
A0 = mk(['a', 'b'], [('g', 'AND', ['a', 'b'])], [])                       # zero outputs
B0 = mk(['p', 'q'], [], [])
Z = mk([], [('t', 'ALWAYS_TRUE', [])], ['t'])                             # zero inputs
Z2 = mk([], [('f', 'ALWAYS_FALSE', [])], ['f'])
OI = mk(['a', 'b'], [('g', 'AND', ['a', 'b'])], ['a', 'g', 'a'])          # outputs that are inputs, repeated
OI2 = mk(['x', 'y'], [('h', 'XOR', ['x', 'y'])], ['h', 'h', 'y'])
AT = mk(['c@a', 'b'], [('circuit2@g', 'AND', ['c@a', 'b'])], ['circuit2@g'])   # labels with '@'
BG = mk(['a', 'b'], [('big_or', 'AND', ['a', 'b'])], ['big_or'])
XO = mk(['a', 'b'], [('xor_0', 'AND', ['a', 'b'])], ['xor_0'])
BLK = mk(['a', 'b'], [('g', 'AND', ['a', 'b'])], ['g'], blocks=[('R', ['a', 'b'], ['g'], ['g'])])
BLK2 = mk(['a', 'b'], [('g', 'OR', ['a', 'b'])], ['g'], blocks=[('pairwise_xor', ['a', 'b'], ['g'], ['g'])])
CLASH = mk(['a', 'b'], [('R@g', 'OR', ['a', 'b'])], ['R@g'])               # 'L@R@g' style clashes

CASES = []
for ln, rn in [('circuit1', 'circuit2'), ('', 'circuit2'), ('circuit1', ''), ('', ''), ('m', 'm'),
               ('pairwise_xor', 'r'), ('l', 'pairwise_xor'), ('big_or', 'r'), ('a@b', 'c'), ('l', 'l@'),
               ('L', 'L@R'), (' ', '\t') if False else ('l ', 'l')]:
    for l, r in [(A, B), (A0, B0), (Z, Z2), (OI, OI2), (AT, A), (A, AT), (BG, A), (A, BG), (XO, A), (A, XO),
                 (BLK, A), (A, BLK), (BLK2, A), (A, BLK2), (BLK, CLASH), (A, A)]:
        CASES.append((l, r, ln, rn))

rng = random.Random(7)
for _ in range(150):
    n = rng.choice([0, 1, 2, 3])
    m = rng.choice([0, 1, 2, 3])

    def one(prefix):
        d = gen.random_circuit(rng, n_inputs=n, n_gates=rng.randint(0, 6), labels_prefix=prefix,
                               with_blocks=rng.random() < 0.4, max_outputs=0)
        ls = [g[0] for g in d['gates']]
        d['outputs'] = [rng.choice(ls) for _ in range(m)] if ls else []
        return d
    l, r = one(rng.choice(['x', None])), one(rng.choice(['x', 'y', None]))
    if len(l['outputs']) != len(r['outputs']) and rng.random() < 0.8:
        continue
    names = ['', 'circuit1', 'circuit2', 'pairwise_xor', 'B0', 'B1', 'x', 'B0@B1', 'q']
    CASES.append((l, r, rng.choice(names), rng.choice(names)))


def main():
    terms, impls = [], []
    for l, r, ln, rn in CASES:
        res, mutated = impl(l, r, ln, rn)
        impls.append((res, mutated))
        terms.append(f'res_eqb circuit_eqb (build_miter {ct.circuit(l)} {ct.circuit(r)} {ct.s(ln)} {ct.s(rn)}) '
                     f'{ct.res(res, ct.circuit)}')
    # what the model says when they differ
    outs = coq_eval('sat_miter_names', REQ, terms)
    bad = 0
    kinds = {}
    for (l, r, ln, rn), (res, mutated), o in zip(CASES, impls, outs):
        ok = strip_type(o) == 'true'
        kinds[res[0] if res[0] == 'ok' else res[1]] = kinds.get(res[0] if res[0] == 'ok' else res[1], 0) + 1
        if mutated:
            print('OPERAND MUTATED', ln, rn, l, r)
        if not ok:
            bad += 1
            mo = coq_eval('sat_miter_names_1', REQ,
                          [f'match build_miter {ct.circuit(l)} {ct.circuit(r)} {ct.s(ln)} {ct.s(rn)} with Ok m => Ok (outputs m, inputs m, map fst (blocks m)) | Err e => Err e end'])
            show(f'build_miter names=({ln!r},{rn!r}) l={l["gates"]} outs={l["outputs"]} r={r["gates"]} outs={r["outputs"]}',
                 res if res[0] == 'err' else ('ok', res[1]['outputs'], res[1]['inputs'], [b[0] for b in res[1]['blocks']]),
                 mo[0])
    print(f'{len(CASES)} cases, {bad} differ; implementation results: {kinds}')
    # aliasing: build_miter(c, c)
    terms, impls = [], []
    al = [(A, 'circuit1', 'circuit2'), (OI, 'circuit1', 'circuit2'), (BLK, 'circuit1', 'circuit2'), (Z, 'l', 'r'), (A0, 'l', 'r')]
    for l, ln, rn in al:
        res, mutated = impl_alias(l, ln, rn)
        impls.append((res, mutated))
        terms.append(f'res_eqb circuit_eqb (build_miter {ct.circuit(l)} {ct.circuit(l)} {ct.s(ln)} {ct.s(rn)}) '
                     f'{ct.res(res, ct.circuit)}')
    outs = coq_eval('sat_miter_alias', REQ, terms)
    for (l, ln, rn), (res, mutated), o in zip(al, impls, outs):
        print('alias build_miter(c, c):', 'SAME' if strip_type(o) == 'true' else 'DIFFERENT', 'impl', res[0],
              'operand mutated' if mutated else 'operand untouched')


if __name__ == '__main__':
    main()
