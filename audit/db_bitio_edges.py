"""bit_io edge cases, implementation vs Model/BitIO.v: zero widths, 2^k-1 / 2^k, big ints, reads at and past the end,
padding bits; negative numbers / widths (outside the model's types: implementation only)."""
from audit.db_util import *
from cirbo.circuits_db.bit_io import BitReader, BitWriter

CASES = [
    ('x=0,k=0 then reads of 0 bits at EOF', {'kind': 'numbers', 'writes': [[0, 0]], 'reads': [0, 0, 1]}),
    ('x=1,k=0 refused; nothing written', {'kind': 'numbers', 'writes': [[1, 0]], 'reads': [0, 1]}),
    ('2^k-1 and 2^k for k=1..9', {'kind': 'numbers',
                                  'writes': [[(1 << k) - 1, k] for k in range(1, 10)] + [[1 << k, k] for k in range(1, 10)],
                                  'reads': list(range(1, 10)) + [3, 1]}),
    ('300-bit number', {'kind': 'numbers', 'writes': [[(1 << 300) - 12345, 300], [1 << 300, 300], [5, 3]],
                        'reads': [300, 3, 5, 1]}),
    ('partial byte: 3 bits written, read 3, then 5 padding bits, then EOF', {'kind': 'numbers', 'writes': [[5, 3]],
                                                                              'reads': [3, 5, 1]}),
    ('read across EOF inside a number', {'kind': 'numbers', 'writes': [[255, 8]], 'reads': [7, 2]}),
    ('read 0 bits after exhaustion', {'kind': 'numbers', 'writes': [[255, 8]], 'reads': [8, 0, 0, 1]}),
]

if __name__ == '__main__':
    res, _ = check_cases('db_bitio_edges', 'numbers', [c for _, c in CASES], [t for t, _ in CASES])
    print('all agree' if all(res) else 'DIVERGENCES PRESENT')
    # outside the model's types (numbers are N, widths nat): recorded for the report
    for x, k in [(-1, 4), (-1, 0), (-8, 3), (5, -1)]:
        w = BitWriter()
        print(f'impl write_number({x}, {k}) ->', run_impl(lambda: (w.write_number(x, k), bytes(w))[1]))
    r = BitReader(b'\xff')
    print('impl read_number(-3) ->', run_impl(lambda: r.read_number(-3)), ' then read_number(8) ->', run_impl(lambda: r.read_number(8)))
    w = BitWriter()
    print('impl write(2) (an int that is not a bool) ->', run_impl(lambda: (w.write(2), bytes(w))[1]))
