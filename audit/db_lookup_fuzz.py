"""Seeded differential run of get_by_raw_truth_table / get_by_raw_truth_table_model against Model/Db.v on databases that do
NOT satisfy db_ok: arbitrary small circuits stored under the key the query normalises to (wrong function, wrong number of
outputs, outputs that are inputs / repeated), ragged tables, 1..4 rows of length 1..4, rows as tuples / ints, random
exclusion lists (incl. [] and repeated types).  None of this is produced by props/c17.py (entries always come from the
shipped files)."""
import random
import sys

from audit.db_util import *
from audit.db_lookup_edges import lookup_term, model_lookup_term, enc
from cirbo.core.logic import DontCare


def small_circuit(rng):
    d = cc.format_circuit(rng, n_inputs=rng.choice([1, 1, 2, 2, 3]), n_gates=rng.randint(0, 4), max_outputs=3)
    return d


def raw_table(rng):
    rows = []
    w = rng.choice([1, 2, 2, 4, 4, 3])
    for _ in range(rng.randint(1, 4)):
        ww = w if rng.random() < 0.8 else rng.randint(1, 4)
        r = rng.random()
        if rows and r < 0.25:
            row = list(rng.choice(rows))
        elif rows and r < 0.45:
            row = [1 - int(x) for x in rng.choice(rows)]
        else:
            row = [rng.randrange(2) for _ in range(ww)]
        conv = rng.choice([list, tuple, lambda x: [bool(v) for v in x]])
        rows.append(conv(row))
    return rows if rng.random() < 0.8 else tuple(rows)


def key_of_table(t):
    return cc.ref_label(cc.ref_normalize([[int(x) for x in r] for r in t]))


if __name__ == '__main__':
    seed = int(sys.argv[1]) if len(sys.argv) > 1 else 20260926
    n = int(sys.argv[2]) if len(sys.argv) > 2 else 300
    rng = random.Random(seed)
    terms, impl = [], []
    for i in range(n):
        t = raw_table(rng)
        if i % 2 == 0:
            entries = []
            if rng.random() < 0.85:
                entries.append((key_of_table(t), enc(small_circuit(rng))))
            entries.append((key_of_table(raw_table(rng)), enc(small_circuit(rng))))
            entries = list(dict(entries).items())
            rng.shuffle(entries)
            tr = lookup_term(entries, t)
        else:
            tm = [[DontCare if rng.random() < 0.3 else x for x in row] for row in t]
            cells = sum(x is DontCare for row in tm for x in row)
            if cells > 5:
                tm = [list(r) for r in t]
            # store a circuit under the key of several completions
            entries = {}
            for _ in range(rng.randint(0, 3)):
                comp = [[rng.randrange(2) if x is DontCare else x for x in row] for row in tm]
                entries[key_of_table(comp)] = enc(small_circuit(rng))
            excl = rng.choice([None, None, [], ['INPUT'], ['NOT', 'NOT', 'INPUT'], ['AND', 'OR', 'XOR', 'NAND', 'NOR', 'NXOR'],
                               ['INPUT', 'IFF', 'NOT', 'ALWAYS_TRUE', 'ALWAYS_FALSE', 'GT', 'LT']])
            tr = model_lookup_term(list(entries.items()), tm, excl)
        terms.append(tr[0])
        impl.append(tr[1])
    outs = []
    for i in range(0, n, 100):
        outs += coq_eval(f'db_lookup_fuzz_{i // 100}', REQ, terms[i:i + 100])
    bad = [i for i, o in enumerate(outs) if strip_type(o) != 'true']
    from collections import Counter
    print('impl outcomes:', dict(Counter((r[1] if r[0] == 'err' else ('none' if r[1] is None else 'circuit')) for r in impl)))
    print(f'{n} cases, {len(bad)} disagreements')
    for i in bad[:5]:
        print(terms[i][:600])
