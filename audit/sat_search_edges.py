from audit.common import *
"""CircuitFinderSat edge specs through the C06 case checkers (check_cnf_case / check_decode_case / check_cons_case):
n = 0, r = 0, m = 0, n = 4 (two-digit row numbers), 11 outputs, table given as str / ints / bools / DontCare objects,
need_normalized with an output whose row 0 is True, outputs equal to inputs / constants, constraints before and after
get_cnf(), and the 'find twice' scenario (decoding allocates g_h_<input> ids: are they ever in a later model?).
Negative / bool indices of fix_gate / forbid_wire are shown for the implementation only (the model's indices are nat)."""
import random

from harness import searchcorr as sc

PRE = ('Require Import Cirbo.Model.Gate Cirbo.Model.Circuit Cirbo.Model.History Cirbo.Model.Search '
       'Cirbo.Model.SearchCircuit Cirbo.Model.SearchCases Cirbo.Generated.SearchTables.\n')
E = {'kind': 'enum', 'name': 'FULL'}
X = {'kind': 'enum', 'name': 'XAIG'}
A = {'kind': 'str', 'name': 'aIg'}

CASES = [
    {'tt': ['1'], 'r': 0, 'basis': E, 'norm': False, 'pre': [], 'post': []},
    {'tt': ['1'], 'r': 1, 'basis': E, 'norm': False, 'pre': [], 'post': []},
    {'tt': ['*'], 'r': 2, 'basis': E, 'norm': True, 'pre': [], 'post': []},
    {'tt': [], 'r': 0, 'basis': E, 'norm': False, 'pre': [], 'post': [], 'model': 'pyfunc', 'n': 0},
    {'tt': [], 'r': 0, 'basis': X, 'norm': True, 'pre': [], 'post': [], 'model': 'pyfunc', 'n': 3},
    {'tt': [], 'r': 2, 'basis': X, 'norm': True, 'pre': [['forbid', 0, 3]], 'post': [['fix', 2, None, 1, 'AND']], 'model': 'pyfunc', 'n': 2},
    {'tt': ['0110100110010110'], 'r': 1, 'basis': X, 'norm': False, 'pre': [], 'post': []},
    {'tt': ['01*0**10011*0110', '****************'], 'r': 2, 'basis': A, 'norm': True, 'pre': [['fix', 5, 0, 4, None]], 'post': [['forbid', 3, 5]]},
    {'tt': ['0110'] * 11, 'r': 2, 'basis': X, 'norm': False, 'pre': [], 'post': []},
    # need_normalized with row 0 True: unsatisfiable, not an error
    {'tt': ['1001'], 'r': 1, 'basis': E, 'norm': True, 'pre': [], 'post': []},
    {'tt': ['1001'], 'r': 2, 'basis': E, 'norm': True, 'pre': [], 'post': []},
    # outputs equal to an input / a constant
    {'tt': ['0011'], 'r': 0, 'basis': E, 'norm': False, 'pre': [], 'post': []},
    {'tt': ['0011', '0101', '0000', '1111'], 'r': 1, 'basis': E, 'norm': False, 'pre': [], 'post': []},
    {'tt': ['0011', '0101', '0000', '1111'], 'r': 4, 'basis': E, 'norm': False, 'pre': [], 'post': []},
    {'tt': ['0011'], 'r': 2, 'basis': A, 'norm': False, 'pre': [], 'post': []},
    # the same constraint twice, contradictory constraints, custom basis with duplicates / empty
    {'tt': ['0110'], 'r': 2, 'basis': {'kind': 'list', 'ops': []}, 'norm': False, 'pre': [['fix', 2, 0, 1, 'XOR']] * 2, 'post': [['forbid', 0, 2]]},
    {'tt': ['0110'], 'r': 2, 'basis': {'kind': 'list', 'ops': ['xor_', 'xor_', 'and_']}, 'norm': False, 'pre': [['fix', 3, 2, None, 'XOR']], 'post': [['fix', 3, None, 2, 'AND']]},
]


def table_formats():
    """the same table as str / ints / bools / DontCare objects / mixed: the finder must see the same thing"""
    from cirbo.core.truth_table import TruthTableModel
    from cirbo.core.logic import DontCare
    from cirbo.synthesis import circuit_search as cs
    forms = {'str': ['01*1'], 'ints': [[0, 1, DontCare, 1]], 'bools': [[False, True, DontCare, True]],
             'chars': [['0', '1', '*', '1']], 'tuple': (('0', True, '*', 1),)}
    cnfs = {}
    for k, t in forms.items():
        f = cs.CircuitFinderSat(TruthTableModel(t), 1, basis='FULL')
        cnfs[k] = [sc.clause_term(f, c) for c in f.get_cnf()]
    print('table formats give the same CNF:', all(v == cnfs['str'] for v in cnfs.values()))


def find_twice():
    """all-don't-care table, FULL basis: init allocates no f-variables; decoding allocates f_* and then g_h_<input>;
    a later fix_gate(gate_type=...) puts f-variables in clauses.  Are g_h_<input> ids ever <= the largest id in a clause?"""
    from cirbo.core.truth_table import TruthTableModel
    from cirbo.core.circuit import gate
    from cirbo.synthesis import circuit_search as cs
    f = cs.CircuitFinderSat(TruthTableModel(['****', '****']), 2, basis='FULL')
    f.find_circuit()
    f.fix_gate(3, first_predecessor=0, second_predecessor=2, gate_type=gate.NAND)
    f.fix_gate(2, second_predecessor=1, gate_type=gate.XOR)
    nv = max(abs(l) for c in f.get_cnf() for l in c)
    ginp = [i for n, i in f._vpool.obj2id.items() if n.startswith('g_') and int(n.split('_')[2]) < 2]
    c = f.find_circuit()
    print(f'find twice: largest id in a clause {nv}, ids of g_h_<input> {sorted(ginp)} -> never part of a solver model: {min(ginp) > nv};'
          f' second answer {[(g.label, g.gate_type.name, g.operands) for g in c.gates.values()][2:]} outputs {c.outputs}')


def negative_indices():
    from cirbo.core.truth_table import TruthTableModel
    from cirbo.synthesis import circuit_search as cs
    f = cs.CircuitFinderSat(TruthTableModel(['0110']), 2)
    calls = {'fix_gate(-1, first=0)': lambda: f.fix_gate(-1, first_predecessor=0),
             'fix_gate(3, first=-1)': lambda: f.fix_gate(3, first_predecessor=-1),
             'fix_gate(3, first=0, second=-1)': lambda: f.fix_gate(3, first_predecessor=0, second_predecessor=-1),
             'forbid_wire(-1, 3)': lambda: f.forbid_wire(-1, 3),
             'forbid_wire(0, -1)': lambda: f.forbid_wire(0, -1),
             'fix_gate(True+2 as bool? no: fix_gate(3, first=True))': lambda: f.fix_gate(3, first_predecessor=True)}
    for k, fn in calls.items():
        before = len(f._cnf.clauses)
        r = run_impl(fn)
        names = sorted(n for n in f._vpool.obj2id if 'True' in n)
        print(f'  impl {k}: {r[0]} {r[1] if r[0] == "err" else ""} clauses +{len(f._cnf.clauses) - before} {names}')


def main():
    from cirbo.synthesis import circuit_search as cs
    rng = random.Random(3)
    cnf_terms, dec_terms, cons_terms = [], [], []
    for case in CASES:
        t, n = sc.cnf_case_term(case)
        cnf_terms.append(f'check_cnf_case {t}')
        f = sc.make_finder(case)
        clauses = f.get_cnf()
        models = []
        if [] not in clauses:
            m = cs._solve_cnf('cadical195', clauses)
            if m is not None:
                models.append(('solver', m))
        models += sc.model_lists(rng, f, 3)
        shape = sc.shape_of(case)
        for kind, m in models:
            f2 = sc.make_finder(case)
            t, res = sc.decode_case_term(case, f2, m, lambda c: shape.check(c) is None)
            dec_terms.append(f'check_decode_case {t}')
        for _ in range(4):
            k = sc.random_bad_constraint(rng, shape.n, shape.r)
            t, err, note = sc.cons_case_term(case, k)
            cons_terms.append(f'check_cons_case {t}')
    outs = coq_eval('sat_search_edges', [], cnf_terms + dec_terms + cons_terms, prelude=PRE, timeout=900)
    res = [strip_type(o) == 'true' for o in outs]
    a, b = len(cnf_terms), len(cnf_terms) + len(dec_terms)
    print(f'get_cnf vs encode: {sum(res[:a])}/{a} agree; decode: {sum(res[a:b])}/{b - a} agree; argument checks: {sum(res[b:])}/{len(res) - b} agree')
    for i, ok in enumerate(res[:a]):
        if not ok:
            print('  CNF DIFFERS:', CASES[i])
    table_formats()
    find_twice()
    print('negative / bool indices (implementation only; the model indexes gates by nat):')
    negative_indices()


if __name__ == '__main__':
    main()
