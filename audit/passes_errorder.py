"""Class (B) divergences: WHICH exception is raised on ill-formed (cyclic / dangling / stale users index)
circuits.  Python runs the hooks (emplace_gate, _get_gate_new_name, operand getters, operators) INTERLEAVED
with the traversal generators (dfs / top_sort); the model finishes the traversal (dfs_emission, top_sort)
first and folds over the emitted order afterwards, so a later traversal error wins over an earlier hook error.

    cd /root/wt/audit && /venv/bin/python -m audit.passes_errorder
"""
from audit.common import *  # noqa: F401,F403
from harness import passcorr

CASES = [
    # 1. MergeDuplicateGates on a circuit without any operand-free gate: the exit hook looks the operand up in
    #    the NEW circuit (GateDoesntExistError) long before top_sort (unvisited part) would raise
    ('MD, self loop g = ALWAYS_TRUE(g), outputs [g]', ['MD'],
     {'inputs': [], 'outputs': ['g'], 'gates': [['g', 'ALWAYS_TRUE', ['g']]], 'users': [['g', ['g']]], 'blocks': []}),
    ('MD, 2-cycle a = NOT(b), b = NOT(a), outputs [a]', ['MD'],
     {'inputs': [], 'outputs': ['a'], 'gates': [['a', 'NOT', ['b']], ['b', 'NOT', ['a']]],
      'users': [['b', ['a']], ['a', ['b']]], 'blocks': []}),
    # 2. RemoveRedundantGates: outputs [ghost, a] with a = AND(a): the exit hook of a fails (emplace_gate:
    #    CircuitValidationError) before the dangling start label ghost is popped
    ('RR, outputs [ghost, a], a = AND(a)', ['RR', False],
     {'inputs': [], 'outputs': ['ghost', 'a'], 'gates': [['a', 'AND', ['a']]], 'users': [['a', ['a']]], 'blocks': []}),
    # 3. MergeUnaryOperators: n = NOT() is yielded by top_sort (and fails in the operand getter) before top_sort
    #    trips over the stale users entry of x
    ('MU, n = NOT() first in top_sort, users[x] mentions ghost', ['MU'],
     {'inputs': ['x'], 'outputs': ['y'], 'gates': [['x', 'INPUT', []], ['y', 'AND', ['x', 'x']], ['n', 'NOT', []]],
      'users': [['x', ['y', 'y', 'ghost']]], 'blocks': []}),
    # 4. MergeEquivalentGates (evaluate_full_circuit): k = AND() evaluated (TypeError) before top_sort's KeyError
    ('ME, k = AND() first in top_sort, users[x] mentions ghost', ['ME'],
     {'inputs': ['x'], 'outputs': ['y'], 'gates': [['x', 'INPUT', []], ['y', 'AND', ['x', 'x']], ['k', 'AND', []]],
      'users': [['x', ['y', 'y', 'ghost']]], 'blocks': []}),
]


def main():
    terms, impl = [], []
    for title, leaf, d in CASES:
        t = passcorr.build(leaf)

        def f(t=t, d=d):
            return ct.dump_circuit(t._transform(ct.build_circuit(d)))
        impl.append(run_impl(f))
        terms.append(f'transform_leaf {passcorr.term(leaf)} {ct.circuit(d)}')
    out = coq_eval('passes_errorder', ['Cirbo.Model.Gate', 'Cirbo.Model.Circuit', 'Cirbo.Model.Passes'], terms)
    for (title, leaf, d), i, m in zip(CASES, impl, out):
        show(title, i[1] if i[0] == 'err' else i, strip_type(m))


if __name__ == '__main__':
    main()
