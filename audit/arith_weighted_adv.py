from audit.common import *
"""Adversarial inputs for add_sum_n_weighted_bits(_naive) (ArithSumW.v): fuel S (length inp) of
naive_loop / eff_loop, the sentinel branch, SortedList ties on (level, label): label string order
(x10 < x9), caller labels sorting before / after / between the generated 'new_...' labels, the
label 'inf_label', repeated (weight, label) pairs, one label under several weights, huge / sparse /
unsorted weights."""
import random
from audit.arith_lib import check_sum, report, ac, sc

_ren = sc.ren


def ren(l):
    # keep caller labels that start with new_ but are not of the uuid shape (order against the
    # renamed new_%04x labels is the same as against new_%032x for the labels used below)
    if l.startswith('new_') and not sc.NEW_RE.match(l):
        return l
    return _ren(l)


sc.ren = ren


def host(labels):
    labels = list(dict.fromkeys(labels))
    return {'inputs': labels, 'outputs': [], 'gates': [(l, 'INPUT', []) for l in labels], 'users': [], 'blocks': []}


def both(ws, labels, tag, shuffle=None):
    inp = [[w, l] for w, l in zip(ws, labels)]
    if shuffle is not None:
        random.Random(shuffle).shuffle(inp)
    out = []
    for kind in ('weighted', 'naive'):
        for b in (['enum', 'XAIG'], ['str', 'aig']):
            out.append({'host': host(labels), 'k0': 1, 'call': [kind, b, inp], 'tag': tag})
    return out


cases = []
L = lambda n, p='x': [f'{p}{i}' for i in range(n)]   # noqa: E731   x0 x1 ... x10 (x10 < x9 as strings)
# fuel: every level emits one bit; long ripple chains use exactly n iterations
for n in (30, 42, 60, 81):
    cases += both([0, 0] + list(range(1, n - 1)), L(n), f'ripple chain n={n}')
    cases += both([0] * n, L(n), f'all weight 0 n={n}')
    cases += both([i // 3 for i in range(n)], L(n), f'three per level n={n}', shuffle=n)
cases += both([5] * 64 + [0] * 3, L(67), 'many equal + few low')
# huge gaps / huge weights / unsorted
cases += both([0, 10 ** 6, 10 ** 12, 10 ** 12, 3, 3, 3], L(7), 'huge gaps')
cases += both([2 ** 70, 2 ** 70, 2 ** 70 + 1, 0], L(4), 'huge weights')
cases += both([9, 1, 7, 1, 9, 0, 7, 7, 1, 0, 0, 9, 9], L(13), 'unsorted')
cases += both([4], ['a'], 'single')
# label order: before / after / between generated labels, ties at one level
for labs, tag in ((['z3', 'a1', 'o', 'm', 'new`', 'new', 'nf', 'N', '~', '!'], 'around new_'),
                  (['new_', 'new_zz', 'new_g', 'new_000', 'new_ffffz', 'newa', 'new^', 'n', 'o', 'ne'], 'new_ prefixed caller labels'),
                  (['inf_label', 'inf_labek', 'inf_labem', 'inf', 'inf_label0', 'i', 'j', 'inf_labe'], 'inf_label neighbours'),
                  (['x10', 'x9', 'x1', 'x100', 'x11', 'x2', 'x09', 'x'], 'numeric suffixes'),
                  (['', ' ', 'A', 'a', 'B', 'b', '0', '00'], 'empty string and case')):
    n = len(labs)
    cases += both([0] * n, labs, tag + ' all on one level')
    cases += both([i % 2 for i in range(n)], labs, tag + ' two levels')
    cases += both([0, 0, 0, 1, 1, 2, 2, 3, 3, 3][:n], labs, tag + ' staircase')
# repeated pairs and one label under several weights
cases += both([0, 0, 0, 0, 1, 1], ['a', 'a', 'a', 'b', 'a', 'a'], 'repeated (w, label)')
cases += both([0, 1, 2, 3, 0, 1, 2, 3], ['a', 'a', 'a', 'a', 'b', 'b', 'b', 'b'], 'same label every weight')
cases += both([3, 3, 3, 3, 3, 3, 3], ['q'] * 7, 'seven copies of one pair')
rows = check_sum('arith_weighted_adv', cases, summaries=False)
report(rows, what=lambda c: (c['tag'], c['call'][0], c['call'][1][1]))
