"""Differential fuzz of History.step against the implementation with UNUSUAL but legal arguments that
harness/gen.py never produces: the empty string as gate label / block name, labels containing '@' that
collide with `name + '@' + label`, labels that are prefixes of each other, block names equal to gate labels,
zero-operand n-ary gates, repeated labels in every list argument, outputs listed among slice inputs,
connector lists that repeat, `other` circuits over the same label pool (so collisions are frequent).

    cd /root/wt/audit && /venv/bin/python -m audit.circ_fuzz [seed] [n_histories] [max_steps]
"""
import random
import sys

from audit.common import *
from harness import gen, env

POOL = ['', 'a', 'b', 'c', 'a@', '@', 'N', 'N@a', 'N@', 'A', 'a0', 'N@N@a', 'N@b', 'B0', 'x']
BNAMES = ['', 'N', 'a', 'N@', 'B0', 'N@B0', 'M']
TYPES = gen.NARY + gen.UNARY + gen.BINARY + gen.CONST

HEADER = ('Require Import Cirbo.Model.Gate Cirbo.Model.Circuit Cirbo.Model.Connect Cirbo.Model.History Cirbo.Model.WF.\n'
          "Definition chk (x : circuit * list op * list (res circuit)) := let '(c, os, ex) := x in "
          'run_history c os ex.\n'
          "Definition chkwf (x : circuit * list op * list (res circuit)) := let '(c, os, ex) := x in "
          '(negb (wfb c) || forallb wfb (history_states c os)).\n')


def nasty_circuit(rng, max_in=3, max_g=5, blocks=True, pool=POOL):
    labels = rng.sample(pool, min(len(pool), rng.randint(0, max_in + max_g)))
    n_in = min(len(labels), rng.randint(0, max_in))
    order, avail = [], []
    for l in labels[:n_in]:
        order.append((l, 'INPUT', []))
        avail.append(l)
    for l in labels[n_in:]:
        t = rng.choice(TYPES)
        if t in gen.NARY:
            k = rng.choice([0, 1, 2, 2, 3])
        elif t in gen.UNARY:
            k = 1
        elif t in gen.BINARY:
            k = 2
        else:
            k = rng.choice([0, 0, 2])
        if k and not avail:
            t, k = 'ALWAYS_TRUE', 0
        order.append((l, t, [rng.choice(avail) for _ in range(k)]))
        avail.append(l)
    users = {}
    for l, t, ops in order:
        for o in ops:
            users.setdefault(o, []).append(l)
    gates = list(order)
    if rng.random() < 0.5:
        rng.shuffle(gates)
    outs = [rng.choice(avail) for _ in range(rng.randint(0, 3))] if avail else []
    blks = []
    if blocks and avail and rng.random() < 0.4:
        for name in rng.sample(BNAMES, rng.randint(1, 2)):
            gs = [rng.choice(avail) for _ in range(rng.randint(0, 3))]
            blks.append((name, [rng.choice(avail) for _ in range(rng.randint(0, 2))], gs,
                         [rng.choice(avail) for _ in range(rng.randint(0, 2))]))
    ins = [l for l, t, _ in order if t == 'INPUT']
    rng.shuffle(ins)
    return {'inputs': ins, 'outputs': outs, 'gates': gates, 'users': list(users.items()), 'blocks': blks}


def choose(rng, c, uuid_counter):
    labels = list(c._gates)
    P = lambda: rng.choice(POOL)
    L = lambda: rng.choice(labels) if labels and rng.random() < 0.85 else P()
    some = lambda lo, hi: [L() for _ in range(rng.randint(lo, hi))]
    k = rng.choice(['emplace', 'emplace', 'rename', 'make_block', 'slice', 'slice', 'connect', 'connect', 'connect',
                    'connect_left', 'connect_right', 'connect_inputs', 'extend', 'add_circuit', 'replace', 'replace',
                    'copy', 'block_into', 'remove_block', 'remove_gate', 'set_outputs', 'set_inputs', 'order_outputs',
                    'order_inputs', 'replace_inputs', 'delete_block', 'into_bench', 'add_inputs', 'mark'])
    if k == 'emplace':
        t = rng.choice(TYPES + ['INPUT'])
        ops = [] if t == 'INPUT' else some(0, 3)
        return ('emplace', P(), t, ops)
    if k == 'add_inputs':
        return ('add_inputs', [P() for _ in range(rng.randint(0, 3))])
    if k == 'mark':
        return ('mark_output', L())
    if k == 'rename':
        return ('rename', L(), P())
    if k == 'make_block':
        return ('make_block', rng.choice(BNAMES), some(0, 3), some(0, 2), None if rng.random() < 0.5 else some(0, 2))
    if k == 'slice':
        outs = some(0, 3)
        ins = gen.slice_inputs(rng, c, outs, rng.random() < 0.2)
        if rng.random() < 0.3:
            ins = ins + some(1, 2)
        return ('make_block_from_slice', rng.choice(BNAMES), ins, outs)
    if k in ('remove_block', 'delete_block', 'block_into'):
        bl = list(c._blocks)
        name = rng.choice(bl) if bl and rng.random() < 0.9 else rng.choice(BNAMES)
        return ({'remove_block': 'remove_block', 'delete_block': 'delete_block', 'block_into': 'block_into_circuit'}[k], name)
    if k == 'remove_gate':
        return ('remove_gate', L())
    if k == 'set_outputs':
        return ('set_outputs', some(0, 4))
    if k == 'set_inputs':
        ins = list(c._inputs)
        rng.shuffle(ins)
        if rng.random() < 0.2:
            ins = ins + some(1, 1)
        return ('set_inputs', ins)
    if k == 'order_outputs':
        o = list(c._outputs)
        rng.shuffle(o)
        return ('order_outputs', o[:rng.randint(0, len(o))] + (some(1, 1) if rng.random() < 0.15 else []))
    if k == 'order_inputs':
        o = list(c._inputs)
        rng.shuffle(o)
        return ('order_inputs', o[:rng.randint(0, len(o))] + (some(1, 1) if rng.random() < 0.15 else []))
    if k == 'replace_inputs':
        ins = list(c._inputs)
        pick = lambda: [rng.choice(ins) for _ in range(rng.randint(0, 2))] if ins else []
        return ('replace_inputs', pick(), pick())
    if k == 'into_bench':
        n = sum(1 for g in c._gates.values()
                if g.gate_type.name in ('LT', 'LEQ', 'GT', 'GEQ', 'ALWAYS_TRUE', 'ALWAYS_FALSE'))
        return ('into_bench', uuid_counter.peek(n))
    if k == 'copy':
        return ('copy',)
    if k == 'replace':
        return replace_op(rng, c, uuid_counter)
    # connections
    other = nasty_circuit(rng, max_in=2, max_g=3)
    ol = [g[0] for g in other['gates']]
    OL = lambda: rng.choice(ol) if ol and rng.random() < 0.9 else P()
    name = rng.choice(BNAMES)
    ap = rng.random() < 0.7
    if k == 'add_circuit':
        return ('add_circuit', other, name, ap)
    if k == 'connect_inputs':
        return ('connect_inputs', other, name, ap)
    if k == 'connect_left':
        return ('connect_left', other, [L() for _ in other['inputs']][:rng.choice([None, None, None, 1])], name, ap)
    if k == 'connect_right':
        return ('connect_right', other, [OL() for _ in c._inputs], name, ap)
    right = rng.random() < 0.5
    if k == 'extend':
        return ('extend', other, rng.choice([None, None, [], some(0, 2)]), rng.choice([None, None, [], [OL() for _ in range(rng.randint(0, 2))]]),
                right, name, ap)
    n = rng.randint(0, 3)
    if right:
        ins = list(c._inputs)
        tc = [rng.choice(ins) if ins and rng.random() < 0.9 else L() for _ in range(n)]
        if rng.random() < 0.7:
            tc = list(dict.fromkeys(tc))
        oc = [OL() for _ in tc]
    else:
        oi = other['inputs']
        oc = [rng.choice(oi) if oi and rng.random() < 0.9 else OL() for _ in range(n)]
        if rng.random() < 0.7:
            oc = list(dict.fromkeys(oc))
        tc = [L() for _ in oc]
    if rng.random() < 0.1 and tc:
        tc = tc[:-1]
    return ('connect', other, tc, oc, right, name, ap)


def replace_op(rng, c, uuid_counter):
    fresh = uuid_counter.peek(1)[0]
    labels = list(c._gates)
    non_inputs = [l for l, g in c._gates.items() if g.gate_type.name != 'INPUT']
    if not non_inputs or rng.random() < 0.1:
        sub = nasty_circuit(rng, 1, 2, blocks=False)
        return ('replace_subcircuit', sub, [], [], fresh)
    outs = list(dict.fromkeys(rng.choice(non_inputs if rng.random() < 0.9 else labels) for _ in range(rng.randint(1, 2))))
    ins = gen.slice_inputs(rng, c, outs, rng.random() < 0.15)
    if rng.random() < 0.85:
        ins = [i for i in ins if i not in outs]
    # replacement circuit over the SAME nasty pool: labels clash with the host, keys may equal values
    pool = POOL if rng.random() < 0.6 else ['r0', 'r1', 'r2', 'r3', 'r4', 'r5', 'r6', '']
    for _ in range(20):
        sub = nasty_circuit(rng, 0, 0, blocks=rng.random() < 0.2, pool=pool)
        labs = rng.sample(pool, min(len(pool), len(ins) + rng.randint(1, 3)))
        sub_in = labs[:len(ins)]
        order = [(l, 'INPUT', []) for l in sub_in]
        avail = list(sub_in)
        for l in labs[len(ins):]:
            t = rng.choice(TYPES)
            kk = {True: rng.choice([0, 1, 2, 3])}.get(t in gen.NARY, 1 if t in gen.UNARY else 2 if t in gen.BINARY else 0)
            if kk and not avail:
                t, kk = 'ALWAYS_FALSE', 0
            order.append((l, t, [rng.choice(avail) for _ in range(kk)]))
            avail.append(l)
        users = {}
        for l, t, ops in order:
            for o in ops:
                users.setdefault(o, []).append(l)
        non_in = [l for l, t, _ in order if t != 'INPUT']
        if non_in:
            break
    else:
        return ('replace_subcircuit', nasty_circuit(rng, 1, 2, blocks=False), [], [], fresh)
    imap = list(zip(ins, sub_in))
    omap = [(o, rng.choice(non_in if rng.random() < 0.9 else avail)) for o in outs]
    r = rng.random()
    if r < 0.08 and imap:
        imap = imap[:-1]
    elif r < 0.16 and imap:
        omap = omap + [(imap[0][0], omap[0][1])]
    elif r < 0.24 and len(imap) > 1:
        imap[1] = (imap[1][0], imap[0][1])          # repeated VALUE in inputs_mapping
    # python dicts: keys unique
    imap = list(dict(imap).items())
    omap = list(dict(omap).items())
    sub = {'inputs': sub_in, 'outputs': [b for _, b in omap] if rng.random() < 0.7 else [],
           'gates': order, 'users': list(users.items()), 'blocks': []}
    return ('replace_subcircuit', sub, imap, omap, fresh)


def run_history(rng, steps):
    start = nasty_circuit(rng)
    c = ct.build_circuit(start)
    ops, results = [], []
    for _ in range(steps):
        op = choose(rng, c, env.uuid_counter)
        ops.append(op)
        try:
            c = gen.apply_op(c, op, env.uuid_counter)
            # blocks made from a set: canonicalise also the unnamed/'' case the harness skips
        except gen.AliasingViolation:
            raise
        except Exception as e:  # noqa
            results.append(('err', ct.err_name(e)))
            break
        results.append(('ok', ct.dump_circuit(c)))
    return {'start': start, 'ops': ops, 'results': results}


def main():
    seed = int(sys.argv[1]) if len(sys.argv) > 1 else 1
    n = int(sys.argv[2]) if len(sys.argv) > 2 else 300
    rng = random.Random(seed)
    maxsteps = int(sys.argv[3]) if len(sys.argv) > 3 else 6
    hs = [run_history(rng, rng.randint(1, maxsteps)) for _ in range(n)]
    stats = {}
    for h in hs:
        for o, r in zip(h['ops'], h['results']):
            key = (o[0], 'ok' if r[0] == 'ok' else r[1])
            stats[key] = stats.get(key, 0) + 1
    shard = 100
    bad, badwf = [], []
    for i in range(0, len(hs), shard):
        terms = ct.lst(gen.history_term(h) for h in hs[i:i + shard])
        out = coq_eval(f'circ_fuzz_{seed}_{i}', [], [f'failing_indices chk {terms}', f'failing_indices chkwf {terms}'], prelude=HEADER)
        idx = [int(x) for x in re.findall(r'\d+', strip_type(out[0]))]
        bad += [i + j for j in idx]
        badwf += [i + int(x) for x in re.findall(r'\d+', strip_type(out[1]))]
    print('histories', n, 'model/impl disagreements', bad, '| WF start but non-WF state reached (model agrees with impl)', badwf)
    for k in sorted(stats):
        print('  ', k, stats[k])
    for b in bad[:15]:
        h = hs[b]
        print('--- failing history', b)
        print('start =', h['start'])
        for o, r in zip(h['ops'], h['results']):
            print('   op', o)
            print('   ->', r)
    return bad, hs


if __name__ == '__main__':
    import re
    main()
