"""Shared helpers of the `db` audit reproducers (BitIO / DictIO / Codec / Db)."""
from audit.common import *  # noqa: F401,F403  (harness.env first)
from harness import codeccorr as cc

REQ = ['Cirbo.Model.Gate', 'Cirbo.Model.Circuit', 'Cirbo.Model.Eval', 'Cirbo.Model.History', 'Cirbo.Model.BitIO',
       'Cirbo.Model.DictIO', 'Cirbo.Model.Codec', 'Cirbo.Model.Db', 'Cirbo.Model.CodecCases',
       'Cirbo.Generated.CodecTables']


def users_of(gates):
    users = {}
    for l, _, ops in gates:
        for o in ops:
            users.setdefault(o, []).append(l)
    return [(k, v) for k, v in users.items()]


def dump(inputs, outputs, gates, users=None):
    gates = [(l, t, list(ops)) for l, t, ops in gates]
    return {'inputs': list(inputs), 'outputs': list(outputs), 'gates': gates,
            'users': users_of(gates) if users is None else users, 'blocks': []}


def run_circuit_free(case):
    """harness.codeccorr.run_circuit without the `word size <= 8` guard (the caller picks byte strings with small counts)"""
    from cirbo.circuits_db.circuits_encoding import decode_circuit, encode_circuit
    c = ct.build_circuit(case['circuit'])
    enc = cc.call(lambda: encode_circuit(c))
    streams = [bytes.fromhex(v) for v in case['variants']]
    if enc[0] == 'ok':
        streams = [enc[1]] + streams
    results = [cc.call(lambda: decode_circuit(s), ct.dump_circuit) for s in streams]
    decs = ct.lst(f'({cc.bl_(s)}, {cc.res(r, ct.circuit)})' for s, r in zip(streams, results))
    return f'({ct.circuit(case["circuit"])}, {cc.res(enc, cc.bl_)}, {decs})', []


def run_db_free(case):
    """harness.codeccorr.run_db without the `word size <= 8` guard"""
    import io
    from cirbo.circuits_db.db import CircuitsDatabase
    db = CircuitsDatabase()
    db.open()
    adds = []
    for lab, d in case['adds']:
        c = ct.build_circuit(d)
        r = cc.call(lambda: db.add_circuit(c, lab), lambda _: None)
        adds.append(f'({cc.nl(lab.encode("utf-8"))}, {ct.circuit(d)}, {cc.dbres(r, lambda _: "tt")})')
    stream = io.BytesIO()
    saved = cc.call(lambda: (db.save(stream), stream.getvalue())[1])
    opened, gets = ('err', 'UNMODELLED_not_saved'), []
    if saved[0] == 'ok':
        db2 = CircuitsDatabase(io.BytesIO(saved[1]))
        opened = cc.call(lambda: (db2.open(), dict(db2._dict))[1], cc.dict_entries)
        if opened[0] == 'ok':
            for lab in case['gets']:
                g = cc.call(lambda: db2.get_by_label(lab), lambda c: None if c is None else ct.dump_circuit(c))
                gets.append(f'({cc.nl(lab.encode("utf-8"))}, {cc.res(g, lambda v: ct.opt(v, ct.circuit))})')
    print('   impl: save ->', saved[1] if saved[0] == 'err' else f'{len(saved[1])} bytes', '| partial stream bytes:',
          len(stream.getvalue()))
    return f'({ct.lst(adds)}, {cc.res(saved, cc.bl_)}, {cc.res(opened, cc.entries_term)}, {ct.lst(gets)})', []


def check_cases(name, kind, cases, titles=None):
    """run the implementation on every case (harness runner), evaluate the model's checker; returns list of bools"""
    runner, checker, ctype = cc.RUNNERS[kind]
    if kind == 'circuit':
        runner = run_circuit_free
    if kind == 'db':
        runner = run_db_free
    terms = []
    for c in cases:
        term, _ = runner(c)
        terms.append(term)
    outs = coq_eval(name, REQ, [f'{checker} ({t} : {ctype})' for t in terms])
    res = [strip_type(o) == 'true' for o in outs]
    for i, ok in enumerate(res):
        t = titles[i] if titles else str(i)
        print(('SAME      ' if ok else 'DIFFERENT ') + t)
    return res, terms
