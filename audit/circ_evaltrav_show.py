"""show per-component disagreements of audit.circ_evaltrav_fuzz failures: seed n [max_shown]"""
import sys, re, random
from audit.common import *
from audit import circ_evaltrav_fuzz as F
from harness import evalcorr
sys.argv = [sys.argv[0]] + sys.argv[1:]
ecases, tcases, kinds, bad_e, bad_t = F.main()
shown = {}
for i in bad_e:
    k = kinds[i]
    if shown.get(k, 0) >= (int(sys.argv[3]) if len(sys.argv) > 3 else 2):
        continue
    shown[k] = shown.get(k, 0) + 1
    e = ecases[i]
    C = ct.circuit(e['circuit'])
    print('=== case', i, 'kind', k)
    print('circuit', e['circuit'])
    terms, tags = [], []
    for x in e['acs']:
        a = evalcorr.asg_term(x['a']); o = ct.opt(x['outs'], ct.labels)
        terms += [f'evaluate_full_circuit {C} {a}', f'evaluate_circuit {C} {a} {o}', f'evaluate_circuit_outputs {C} {a}']
        tags += [('full', x['a'], None, x['full']), ('circ', x['a'], x['outs'], x['circ']), ('co', x['a'], None, x['co'])]
    for x in e['vcs']:
        terms.append(f'evaluate {C} {ct.lst(x["vals"])}'); tags.append(('evaluate', x['vals'], None, x['ev']))
    terms.append(f'get_truth_table {C}'); tags.append(('tt', None, None, e['tt']))
    terms.append(f'get_gates_truth_table {C}'); tags.append(('gtt', None, None, e['gtt']))
    outs = coq_eval('circ_evaltrav_show', [], terms, prelude=F.EH)
    seen = set()
    for t, o in zip(tags, outs):
        impl = t[3]
        m = strip_type(o)
        mk = 'ok' if m.startswith('Ok') else m
        ik = 'ok' if impl and impl[0] == 'ok' else (impl and 'Err ' + impl[1])
        if mk != ik and (t[0], mk, ik) not in seen:
            seen.add((t[0], mk, ik))
            print('   ', t[0], 'a=', t[1], 'outs=', t[2], '| impl:', ik, '| model:', mk)
