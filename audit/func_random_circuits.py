from audit.common import *
"""Circuit-class protocol queries on RANDOM circuits (all gate types, repeated outputs, outputs that are
inputs, zero outputs, dead logic, shuffled gate map) instead of the minterm circuits of funccorr.build_circuit."""
import random
from audit.func_util import *
from harness import gen

if __name__ == '__main__':
    rng = random.Random(2024)
    total, done = 0, 0
    while done < 40:
        d = gen.random_circuit(rng, n_inputs=rng.choice([0, 1, 2, 3, 4]), n_gates=rng.randint(0, 9),
                               with_blocks=False, max_outputs=3)
        c = ct.build_circuit(d)
        n, m = len(d['inputs']), len(d['outputs'])
        done += 1
        total += compare_queries(f'func_rc_{done}', f'(Ok {ct.circuit(d)})',
                                 '(fun c => run_query ClsCircuit (circ_rep_memo c))', c, fc.queries(n, m))
    print('TOTAL differing queries over', done, 'random circuits:', total)
