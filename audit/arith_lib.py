"""Shared helper of the `arith` audit reproducers (not a reproducer itself).

check_sum(name, cases)   : sumcorr cases  -> list of (case, impl_result, agrees?, model summary)
check_arith(name, cases) : arithcorr cases (same)
Both run the implementation through the harness' own run_impl / case_term, write ONE Coq file
coq/Corr/audit/<name>.v with, per case, `check_*_case` (netlist equality) and a short summary of
the model's own result, and run coqc.
"""
from audit.common import *  # noqa: F401,F403  (harness.env first)
import re
import subprocess

from harness import arithcorr as ac
from harness import sumcorr as sc

SUM_REQ = ['Cirbo.Model.Gate', 'Cirbo.Model.Circuit', 'Cirbo.Model.History', 'Cirbo.Model.Builder',
           'Cirbo.Generated.ArithTables', 'Cirbo.Model.ArithSumN', 'Cirbo.Model.ArithSumW', 'Cirbo.Model.SumCases']
AR_REQ = ['Cirbo.Model.Gate', 'Cirbo.Model.Circuit', 'Cirbo.Model.History', 'Cirbo.Model.Builder',
          'Cirbo.Generated.ArithTables', 'Cirbo.Model.ArithCases']

SUM_PRELUDE = '''
Definition summ (x : sum_case) :=
  let '(host, k0, call, expected) := x in
  match run_sum_case host k0 call with
  | Ok (l, v, c, k) => Ok (l, v, (length (gates c) - length (gates host))%nat, k)
  | Err e => Err e
  end.
Definition gsumm (x : sgen_case) :=
  let '(k0, g, expected) := x in
  match run_sgcall k0 g with
  | Ok c => Ok (length (gates c), outputs c)
  | Err e => Err e
  end.
'''
AR_PRELUDE = '''
Definition summ (x : arith_case) :=
  let '(host, k0, call, expected) := x in
  match run_on short_label (run_call call) host k0 with
  | Ok (l, c, k) => Ok (l, (length (gates c) - length (gates host))%nat, outputs c, k)
  | Err e => Err e
  end.
Definition gsumm (x : gen_case) :=
  let '(k0, g, expected) := x in
  match run_gcall k0 g with
  | Ok c => Ok (length (gates c), outputs c)
  | Err e => Err e
  end.
'''


def _run(name, requires, prelude, defs, evals, timeout=900):
    OUT.mkdir(parents=True, exist_ok=True)
    src = 'Require Import Cirbo.Model.Base.\n' + ''.join(f'Require Import {r}.\n' for r in requires)
    src += 'Open Scope string_scope.\n' + prelude + '\n' + '\n'.join(defs) + '\n'
    for t in evals:
        src += f'Eval vm_compute in ({t}).\n'
    path = OUT / f'{name}.v'
    path.write_text(src)
    p = subprocess.run(['timeout', str(timeout), 'coqc', '-Q', '.', 'Cirbo', str(path.relative_to(COQ))],
                       cwd=COQ, capture_output=True, text=True)
    if p.returncode != 0:
        raise RuntimeError(f'coqc failed on {path}:\n{p.stdout[-3000:]}\n{p.stderr[-3000:]}')
    chunks = re.split(r'^\s*= ', p.stdout, flags=re.M)[1:]
    return [strip_type(' '.join(c.split())) for c in chunks]


def _impl_summary(res, n_host, with_levels):
    if res[0] == 'err':
        return 'Err ' + res[1]
    v = res[1]
    if with_levels:
        lists, levels, dump, k = v
        return f'Ok lists={lists} levels={levels} added={len(dump["gates"]) - n_host} k={k}'
    lists, dump, k = v
    return f'Ok lists={lists} added={len(dump["gates"]) - n_host} outs={dump["outputs"]} k={k}'


def _check(name, cases, mod, requires, prelude, ctype, chk, with_levels, term_of=None, summaries=True):
    defs, evals, impl = [], [], []
    for i, c in enumerate(cases):
        res, _ = mod.run_impl(c)
        impl.append(res)
        term = (term_of or mod.case_term)(c, res)
        defs.append(f'Definition c{i} : {ctype} := {term}.')
        evals.append(f'{chk} c{i}')
        if summaries:
            evals.append(f'summ c{i}')
    out = _run(name, requires, prelude, defs, evals)
    rows = []
    step = 2 if summaries else 1
    for i, c in enumerate(cases):
        agree = out[step * i] == 'true'
        model = out[step * i + 1] if summaries else ''
        rows.append((c, _impl_summary(impl[i], len(c['host']['gates']), with_levels), agree, model))
    return rows


def check_sum(name, cases, term_of=None, summaries=True):
    return _check(name, cases, sc, SUM_REQ, SUM_PRELUDE, 'sum_case', 'check_sum_case', True, term_of, summaries)


def check_arith(name, cases, term_of=None, summaries=True):
    return _check(name, cases, ac, AR_REQ, AR_PRELUDE, 'arith_case', 'check_arith_case', False, term_of, summaries)


def _check_gen(name, cases, mod, requires, prelude, ctype, chk):
    defs, evals, impl = [], [], []
    for i, c in enumerate(cases):
        res, _ = mod.run_gen(c)
        impl.append(res)
        defs.append(f'Definition c{i} : {ctype} := {mod.gen_case_term(c, res)}.')
        evals += [f'{chk} c{i}', f'gsumm c{i}']
    out = _run(name, requires, prelude, defs, evals)
    rows = []
    for i, c in enumerate(cases):
        r = impl[i]
        s = 'Err ' + r[1] if r[0] == 'err' else f'Ok gates={len(r[1]["gates"])} outs={r[1]["outputs"]}'
        rows.append((c, s, out[2 * i] == 'true', out[2 * i + 1]))
    return rows


def check_sum_gen(name, cases):
    return _check_gen(name, cases, sc, SUM_REQ, SUM_PRELUDE, 'sgen_case', 'check_sgen_case')


def check_arith_gen(name, cases):
    return _check_gen(name, cases, ac, AR_REQ, AR_PRELUDE, 'gen_case', 'check_gen_case')


def report(rows, what=lambda c: c.get('call') or c.get('gen'), verbose=False, maxlen=300):
    bad = 0
    for c, impl, agree, model in rows:
        if not agree:
            bad += 1
        if verbose or not agree:
            print(('SAME     ' if agree else 'DIFFERENT'), str(what(c))[:maxlen])
            print('    impl :', impl[:maxlen])
            print('    model:', model[:maxlen])
    print(f'== {len(rows)} cases, {bad} disagreements')
    return bad
