from audit.common import *
"""random differential run of tseytin_transformation with malformation kinds harness.tseytincorr.malform lacks:
phantom input labels, non-INPUT gates listed as inputs, INPUT gates carrying operands (listed / hidden), an INPUT gate
re-typed in place, several malformations at once, labels '' / with quotes, selections with many repeats."""
import random

from harness import gen, tseytincorr as tc

PRE = 'Require Import Cirbo.Model.Gate Cirbo.Model.Circuit Cirbo.Model.History Cirbo.Model.Cnf Cirbo.Model.TseytinAlg Cirbo.Model.TseytinCases.\nLocal Open Scope Z_scope.\n'


def mal(rng, d):
    d = {k: list(v) for k, v in d.items()}
    gates = [list(g) for g in d['gates']]
    labels = [g[0] for g in gates]
    for _ in range(rng.choice([1, 1, 2, 3])):
        k = rng.choice(['phantom', 'noninput_in_inputs', 'input_ops', 'input_ops_hidden', 'retype_input', 'empty_label', 'tc'])
        if k == 'phantom':
            d['inputs'].insert(rng.randrange(len(d['inputs']) + 1), rng.choice(['ghost', 'no_such_gate']))
            if rng.random() < 0.5:
                d['outputs'].append('ghost')
        elif k == 'noninput_in_inputs' and labels:
            d['inputs'].insert(rng.randrange(len(d['inputs']) + 1), rng.choice(labels))
        elif k in ('input_ops', 'input_ops_hidden') and labels:
            ins = [g for g in gates if g[1] == 'INPUT']
            if ins:
                g = rng.choice(ins)
                g[2] = [rng.choice(labels) for _ in range(rng.randint(1, 2))]
                if k == 'input_ops_hidden' and g[0] in d['inputs']:
                    d['inputs'] = [x for x in d['inputs'] if x != g[0]]
                d['outputs'].append(g[0])
        elif k == 'retype_input':
            ins = [g for g in gates if g[1] == 'INPUT']
            if ins:
                g = rng.choice(ins)
                g[1] = rng.choice(['NOT', 'AND', 'ALWAYS_TRUE', 'XOR'])
                d['outputs'].append(g[0])
        elif k == 'empty_label' and labels:
            old = rng.choice(labels)
            new = rng.choice(['', '"', 'a"b'])
            if new not in labels:
                for g in gates:
                    if g[0] == old:
                        g[0] = new
                    g[2] = [new if o == old else o for o in g[2]]
                d['inputs'] = [new if o == old else o for o in d['inputs']]
                d['outputs'] = [new if o == old else o for o in d['outputs']]
                labels = [g[0] for g in gates]
        else:
            d = tc.malform(rng, {**d, 'gates': [tuple(g) for g in gates]})
            d = {k2: list(v) for k2, v in d.items()}
            gates = [list(g) for g in d['gates']]
            labels = [g[0] for g in gates]
    d['gates'] = [tuple(g) for g in gates]
    d['users'] = []
    return d


def main():
    rng = random.Random(11)
    cases = []
    for i in range(400):
        d = gen.random_circuit(rng, with_blocks=False, n_gates=rng.randint(0, 10))
        d = mal(rng, d)
        n = len(d['outputs'])
        outs = tc.random_selection(rng, n, p_invalid=0.15)
        if outs is not None and n and rng.random() < 0.2:
            outs = outs + [rng.randrange(-n, n) for _ in range(6)]
        cases.append(tc.make_case(rng, d, outs))
    terms = [f'check_tseytin_case {tc.case_term(c)}' for c in cases]
    outs = coq_eval('sat_tseytin_random', [], terms, prelude=PRE)
    kinds, bad = {}, 0
    for c, o in zip(cases, outs):
        k = 'ok' if c['raw'][0] == 'ok' else c['raw'][1]
        kinds[k] = kinds.get(k, 0) + 1
        if strip_type(o) != 'true':
            bad += 1
            print('DIFFERENT', c['circuit'], c['outs'], c['raw'])
    print(f'{len(cases)} cases, {bad} differ; implementation results: {kinds}')


if __name__ == '__main__':
    main()
