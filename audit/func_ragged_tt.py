from audit.common import *
"""TruthTable built from RAGGED tables (resolve_input_size only looks at table[0]) x every protocol query.
The standard generator only checks the constructor on two ragged shapes ('ttmake'), never a query."""
from audit.func_util import *
from cirbo.core.truth_table import TruthTable

T, F = True, False
TABLES = [
    [[T, F], [T]],
    [[T, F], []],
    [[T], [T, F, T]],
    [[T, F, T, F], [T, F]],
    [[T, F], [T, F, T, F]],
    [[F, T], [F, T, T, F], [T]],
    [[T, T], [F, F, T]],
]

if __name__ == '__main__':
    total = 0
    for k, table in enumerate(TABLES):
        try:
            obj = TruthTable([list(r) for r in table])
            n, m = obj.input_size, obj.output_size
        except Exception as e:  # noqa
            obj, n, m = ('err', fc.err_name(e)), 0, len(table)
        print('table', table, 'n,m =', n, m)
        total += compare_queries(f'func_ragged_{k}', f'(tt_make {fc.tbl(table)})', 'tt_query', obj, fc.queries(n, m))
    print('TOTAL differing queries:', total)
