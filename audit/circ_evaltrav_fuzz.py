"""Differential fuzz of Eval.v / Traverse.v against the implementation on inputs the C01/C15/C20 generators do not
produce: assignments on internal gates and on labels that are not gates, `outputs=` lists with inputs / repeats,
nasty labels ('' and '@'), zero-operand n-ary gates, and ILL-FORMED states whose users index is NOT the inverse of
the operand relation (extra / missing / repeated users, users of non-gates), self loops and 2-cycles.

    cd /root/wt/audit && /venv/bin/python -m audit.circ_evaltrav_fuzz [seed] [n]
"""
import random
import re
import signal
import sys

from audit.common import *
from audit.circ_fuzz import nasty_circuit, POOL
from harness import evalcorr, travcorr, gen

EH = ('Require Import Cirbo.Model.Gate Cirbo.Model.Circuit Cirbo.Model.Eval Cirbo.Model.Traverse '
      'Cirbo.Model.History Cirbo.Model.EvalCases Cirbo.Model.TravCases.\n')


class Timeout(Exception):
    pass


def _alarm(*_):
    raise Timeout()


signal.signal(signal.SIGALRM, _alarm)


def guarded(f):
    signal.setitimer(signal.ITIMER_REAL, 1.0)
    try:
        return f()
    finally:
        signal.setitimer(signal.ITIMER_REAL, 0)


def wild(rng, d):
    """break the state in ways harness.gen.malformed_variant does not"""
    d = {'inputs': list(d['inputs']), 'outputs': list(d['outputs']), 'gates': [(k, t, list(o)) for k, t, o in d['gates']],
         'users': [(k, list(v)) for k, v in d['users']], 'blocks': []}
    labels = [g[0] for g in d['gates']]
    kind = rng.choice(['users_extra', 'users_dup', 'users_missing', 'users_ghostkey', 'users_ghostuser', 'selfloop',
                       'cycle2', 'none', 'none', 'input_dup'])
    if not labels:
        return d, 'none'
    if kind == 'users_extra':
        k = rng.choice(labels)
        us = dict(d['users'])
        us.setdefault(k, [])
        us[k] = us[k] + [rng.choice(labels) for _ in range(rng.randint(1, 8))]
        d['users'] = list(us.items())
    elif kind == 'users_dup' and d['users']:
        i = rng.randrange(len(d['users']))
        k, v = d['users'][i]
        d['users'][i] = (k, v * rng.randint(2, 5))
    elif kind == 'users_missing' and d['users']:
        i = rng.randrange(len(d['users']))
        k, v = d['users'][i]
        d['users'][i] = (k, v[:-1])
        if rng.random() < 0.5:
            d['users'].pop(i)
    elif kind == 'users_ghostkey':
        d['users'].append(('ghost', [rng.choice(labels)]))
    elif kind == 'users_ghostuser':
        k = rng.choice(labels)
        us = dict(d['users'])
        us[k] = us.get(k, []) + ['ghost']
        d['users'] = list(us.items())
    elif kind in ('selfloop', 'cycle2'):
        non_in = [i for i, g in enumerate(d['gates']) if g[1] != 'INPUT' and g[2]]
        if non_in:
            i = rng.choice(non_in)
            k, t, o = d['gates'][i]
            tgt = k if kind == 'selfloop' else rng.choice(labels)
            o[rng.randrange(len(o))] = tgt
            users = {}
            for l, t, ops in d['gates']:
                for x in ops:
                    users.setdefault(x, []).append(l)
            d['users'] = list(users.items())
    elif kind == 'input_dup' and d['inputs']:
        d['inputs'].append(rng.choice(d['inputs']))
    return d, kind


def eval_case(rng, dump):
    c = ct.build_circuit(dump)
    labels = list(c._gates)
    acs = []
    for _ in range(6):
        keys = [l for l in labels if rng.random() < 0.4] + (['ghost'] if rng.random() < 0.2 else [])
        rng.shuffle(keys)
        a = [(k, rng.choice('TFU')) for k in dict.fromkeys(keys)]
        outs = None
        if rng.random() < 0.6:
            outs = [rng.choice(labels + ['ghost']) if labels else 'ghost' for _ in range(rng.randint(0, 3))]
        ia = evalcorr.to_impl_assignment(a)
        full = guarded(lambda: evalcorr.dict_result(lambda: c.evaluate_full_circuit(dict(ia))))
        circ = guarded(lambda: evalcorr.dict_result(lambda: c.evaluate_circuit(dict(ia), outputs=outs)))
        co = guarded(lambda: evalcorr.dict_result(lambda: c.evaluate_circuit_outputs(dict(ia))))
        acs.append({'a': a, 'outs': outs, 'full': full, 'circ': circ, 'co': co})
    n = len(c._inputs)
    vcs = []
    for _ in range(3):
        v = [rng.random() < 0.5 for _ in range(n + rng.choice([0, 0, 0, 1, -1]) if n else 0)]
        ev = guarded(lambda: evalcorr.call(lambda: c.evaluate(v), lambda r: [evalcorr.st_name(x) for x in r]))
        ats = [guarded(lambda i=i: evalcorr.call(lambda: c.evaluate_at(v, i), evalcorr.st_name))
               for i in range(len(c._outputs) + 1)]
        vcs.append({'vals': ['T' if x else 'F' for x in v], 'ev': ev, 'ats': ats})
    tt = gtt = None
    if n <= 3:
        tt = guarded(lambda: evalcorr.call(c.get_truth_table, lambda r: [[evalcorr.st_name(x) for x in row] for row in r]))
        gtt = guarded(lambda: evalcorr.call(c.get_gates_truth_table,
                                            lambda r: [(k, [evalcorr.st_name(x) for x in v]) for k, v in r.items()]))
    return {'circuit': dump, 'acs': acs, 'vcs': vcs, 'tt': tt, 'gtt': gtt}


def main():
    seed = int(sys.argv[1]) if len(sys.argv) > 1 else 1
    n = int(sys.argv[2]) if len(sys.argv) > 2 else 200
    rng = random.Random(seed)
    ecases, tcases, kinds, skipped = [], [], [], 0
    while len(ecases) < n:
        base = nasty_circuit(rng, blocks=False) if rng.random() < 0.5 else gen.random_circuit(rng, with_blocks=False, n_gates=rng.randint(0, 8))
        d, kind = wild(rng, base)
        try:
            e = eval_case(rng, d)
            t = guarded(lambda: travcorr.make_case(rng, d, n_trav=5))
        except Timeout:
            skipped += 1      # the implementation does not terminate (cycle): nothing to compare
            continue
        ecases.append(e)
        tcases.append(t)
        kinds.append(kind)
    bad_e, bad_t = [], []
    for i in range(0, n, 50):
        et = ct.lst(evalcorr.case_term(x) for x in ecases[i:i + 50])
        tt = ct.lst(travcorr.case_term(x) for x in tcases[i:i + 50])
        out = coq_eval(f'circ_evaltrav_{seed}_{i}', [], [f'failing_indices check_eval_case {et}',
                                                        f'failing_indices check_trav_case {tt}'], prelude=EH)
        bad_e += [i + int(x) for x in re.findall(r'\d+', strip_type(out[0]))]
        bad_t += [i + int(x) for x in re.findall(r'\d+', strip_type(out[1]))]
    print(f'cases {n} (skipped {skipped} non-terminating) eval disagreements {bad_e} traversal disagreements {bad_t}')
    from collections import Counter
    print('  kinds of all cases       :', dict(Counter(kinds)))
    print('  kinds of eval failures   :', dict(Counter(kinds[i] for i in bad_e)))
    print('  kinds of trav failures   :', dict(Counter(kinds[i] for i in bad_t)))
    return ecases, tcases, kinds, bad_e, bad_t


if __name__ == '__main__':
    main()
