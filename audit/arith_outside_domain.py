from audit.common import *
"""What the implementation does on arguments the MODEL TYPES cannot express (weights : N, shift : nat,
inp : list (N * label), basis_arg = enum | str) and after a failing call (the model's Err carries no
state).  Python only; recorded as class (B) / notes."""
import itertools
from fractions import Fraction
from cirbo.core.circuit import Circuit
from cirbo.synthesis.generation.arithmetics import summation as SM, subtraction as SB
from cirbo.synthesis.generation import generation as G

print('-- negative weights: accepted, exact over the rationals')
for f in (SM.add_sum_n_weighted_bits, SM.add_sum_n_weighted_bits_naive):
    for basis in ('XAIG', 'aig'):
        ws = [-3, -3, -3, -2, 0, 0, -1, 5, -3]
        c = Circuit.bare_circuit(len(ws))
        r = f(c, [(w, l) for w, l in zip(ws, c.inputs)], basis=basis)
        ok = True
        for vec in itertools.product([False, True], repeat=len(ws)):
            v = c.evaluate_full_circuit(dict(zip(c.inputs, vec)))
            ok &= sum(Fraction(2) ** w for w, b in zip(ws, vec) if b) == sum(Fraction(2) ** lv for lv, l in r if v[l])
        print('  ', f.__name__, basis, 'levels', [x[0] for x in r], 'exact:', ok)
print('-- negative shift')
for sh, n, m in ((-1, 2, 1), (-2, 3, 3), (-1, 1, 1)):
    c = Circuit.bare_circuit(n + m)
    print('  ', sh, n, m, run_impl(lambda: SM.add_sum_two_numbers_with_shift(c, sh, c.inputs[:n], c.inputs[n:])))
print('-- the weighted operand list as an iterator / as a list of lists')
for f in (SM.add_sum_n_weighted_bits, SM.add_sum_n_weighted_bits_naive):
    print('  ', f.__name__, 'iterator:', run_impl(lambda: len(f(Circuit.bare_circuit(3), iter([(0, '0'), (0, '1'), (1, '2')])))))
    print('  ', f.__name__, 'list pairs:', run_impl(lambda: len(f(Circuit.bare_circuit(2), [[0, '0'], [0, '1']]))))
print('-- basis that is neither str nor GenerationBasis')
for b in (None, b'AIG', 0):
    c = Circuit.bare_circuit(3)
    print('  ', repr(b), 'add_sum_n_bits:', run_impl(lambda: SM.add_sum_n_bits(c, c.inputs, basis=b)),
          '| weighted:', run_impl(lambda: [x[0] for x in SM.add_sum_n_weighted_bits(c, [(0, '0'), (0, '1')], basis=b)]),
          '| pow2:', run_impl(lambda: len(SM.add_sum_pow2_m1(c, c.inputs, basis=b))))
print('-- state after a failing call (model: Err, no state)')
c = Circuit.bare_circuit(3)
print('  ', run_impl(lambda: SB.add_sub_two_numbers(c, ['0', 'nope'], ['1', '2'])), 'gates now', c.size)
c = Circuit.bare_circuit(3)
print('  ', run_impl(lambda: G.add_plus_one(c, ['0', '1'], result_labels=['r', 'r'], add_outputs=True)),
      'gates now', c.size, 'outputs', c.outputs)
c = Circuit.bare_circuit(3)
print('  ', run_impl(lambda: G.add_pairwise_xor(c, ['0', '1'], ['1', '2'], result_labels=['r', '0'], add_outputs=True)),
      'gates now', c.size, 'outputs', c.outputs)
