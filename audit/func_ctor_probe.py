from audit.common import *
"""Constructor corners that have NO counterpart in the model (tt_make takes `list bvec`, py_make a total
bvec -> res bvec, from_positional is not modelled): what the implementation does, and for the accepted tables
whether the resulting object equals TruthTable(bools) (model: tt_make of the bools)."""
from audit.func_util import *
from cirbo.core.truth_table import TruthTable, TruthTableModel
from cirbo.core.python_function import PyFunction, PyFunctionModel
from cirbo.core.logic import DontCare

T, F = True, False


def tt_obs(table):
    def run():
        t = TruthTable(table)
        return (t.input_size, t.output_size, t.get_truth_table(), t._table_t)
    return run_impl(run)


if __name__ == '__main__':
    print('== TruthTable(...) value parsing')
    for name, table in [
        ('ints 0/1', [[0, 1], [1, 1]]),
        ('floats 0.0/1.0', [[0.0, 1.0]]),
        ('strings', ['01', '11']),
        ('mixed str/list rows', ['01', [T, F]]),
        ('list of 1-char strings', [['0', '1']]),
        ('int 2', [[0, 2]]),
        ('None', [[None, T]]),
        ('DontCare object', [[DontCare, T]]),
        ("'*' in TruthTable", ['0*']),
        ("string with space", ['0 1 ']),
        ("multi-char strings as cells", [['01', '1']]),
        ('tuple rows', ((T, F), (F, F))),
        ('empty string row', ['']),
        ('table = empty string', ''),
        ('3 columns', [[T, F, T]]),
        ('bad value AND bad shape (order of checks)', [[2, 0, 1]]),
        ('bad value in row 1, row 0 fine', [[T, F], [2, 0]]),
    ]:
        print(f'   {name:45s} {table!r:32s} -> {tt_obs(table)}')
    m = coq_eval('func_ctor_tt', REQ, ['do t <- tt_make [[false;true];[true;true]]; Ok (tt_n t, tt_table t, tt_t t)',
                                       'do t <- tt_make [[true;false;true]]; Ok (tt_n t)'])
    print('   model tt_make [[0,1],[1,1]]:', strip_type(m[0]))
    print('   model tt_make 3 columns    :', strip_type(m[1]))

    print('== TruthTableModel(...) value parsing')
    for name, table in [("'0*1*' string", ['0*1*']), ('DontCare objects', [[DontCare, T]]), ('int 2', [[2, T]]),
                        ("'x'", ['x1'])]:
        print(f'   {name:45s} ->', run_impl(lambda: TruthTableModel(table).get_model_truth_table()))

    print('== PyFunction(...) result kinds')
    for name, f, n in [
        ('returns a single bool', lambda xs: True, 1),
        ('returns a tuple', lambda xs: (xs[0],), 1),
        ('returns a generator', lambda xs: (x for x in xs), 1),
        ('returns a str', lambda xs: '01', 1),
        ('returns ints', lambda xs: [int(xs[0])], 1),
        ('input_size negative', lambda xs: [T], -1),
    ]:
        def run(f=f, n=n):
            p = PyFunction(f, n)
            return (p.input_size, p.output_size, run_impl(p.is_constant), run_impl(p.get_truth_table))
        print(f'   {name:45s} ->', run_impl(run))

    print('== from_positional arity inference (inspect.signature)')

    def two(a, b): return [a and b]
    def dflt(a, b=True): return [a and b]
    def posonly(a, b, /): return [a or b]
    def var(*args): return [any(args)]
    def kwonly(a, *, b=False): return [a]
    def kw(a, **k): return [a]
    def zero(): return [T]

    class M:
        def meth(self, a): return [a]

    import functools
    for name, f in [('two', two), ('default arg', dflt), ('positional-only', posonly), ('*args', var),
                    ('keyword-only', kwonly), ('**kwargs', kw), ('zero parameters', zero),
                    ('bound method', M().meth), ('functools.partial(two, True)', functools.partial(two, True)),
                    ('lambda', lambda a, b, c: [a, b, c]), ('builtin all', all)]:
        def run(f=f):
            p = PyFunction.from_positional(f)
            return (p.input_size, p.output_size, p.get_truth_table())
        print(f'   {name:45s} ->', run_impl(run))
    print('   PyFunctionModel.from_positional(two, output_size=1) ->',
          run_impl(lambda: PyFunctionModel.from_positional(two, output_size=1).get_model_truth_table()))
