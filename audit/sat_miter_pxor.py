from audit.common import *
"""generate_pairwise_xor(n) (full circuit state) for n = 0, 1, 2, 10, 12, 101 (multi-digit str(i)), and a miter with
11 outputs (two-digit pairwise labels, OR with 11 operands)."""
from harness import gen

REQ = ['Cirbo.Model.Gate', 'Cirbo.Model.Circuit', 'Cirbo.Model.History', 'Cirbo.Model.Miter']


def main():
    from cirbo.synthesis.generation import generate_pairwise_xor
    from cirbo.sat.miter import build_miter
    ns = [0, 1, 2, 10, 12, 101]
    terms = []
    for n in ns:
        d = ct.dump_circuit(generate_pairwise_xor(n))
        terms.append(f'res_eqb circuit_eqb (generate_pairwise_xor {n}) (Ok {ct.circuit(d)})')
    outs = coq_eval('sat_miter_pxor', REQ, terms)
    for n, o in zip(ns, outs):
        print(f'generate_pairwise_xor({n}):', 'SAME' if strip_type(o) == 'true' else 'DIFFERENT')
    # 11 outputs
    ins = ['a', 'b']
    gs = [(i, 'INPUT', []) for i in ins] + [(f'g{i}', 'AND' if i % 2 else 'OR', ['a', 'b']) for i in range(11)]
    users = {'a': [f'g{i}' for i in range(11)], 'b': [f'g{i}' for i in range(11)]}
    l = {'inputs': ins, 'outputs': [f'g{i}' for i in range(11)], 'gates': gs, 'users': list(users.items()), 'blocks': []}
    m = build_miter(ct.build_circuit(l), ct.build_circuit(l))
    for name in ('circuit1', 'circuit2', 'pairwise_xor'):
        gen.canonicalise_block(m, name)
    o = coq_eval('sat_miter_pxor11', REQ,
                 [f'res_eqb circuit_eqb (build_miter {ct.circuit(l)} {ct.circuit(l)} "circuit1" "circuit2") (Ok {ct.circuit(ct.dump_circuit(m))})'])
    print('build_miter with 11 outputs:', 'SAME' if strip_type(o[0]) == 'true' else 'DIFFERENT')


if __name__ == '__main__':
    main()
