from audit.common import *
"""The correspondence harnesses rename the uuid labels (arithcorr: new_%032x -> 'n' + binary digits;
sumcorr: -> new_%04x).  Consequences (harness limitations, NOT model divergences):
  * arithcorr: a host label of the shape n[01]* (e.g. 'n1') clashes with a renamed uuid label: the model run
    with fresh = short_label sees it occupied and skips it -> a FALSE disagreement;
  * sumcorr.ren asserts on every caller label that starts with 'new_'.
With a naming function that reproduces the implementation's labels literally (new_ + 28 zeros + 4 hex digits
for j < 65536) no renaming is needed and model and implementation agree on the same inputs."""
from audit.arith_lib import check_arith, report, ac, AR_REQ, _run
from harness import coqterm as ct

h = {'inputs': ['a', 'n1', 'new_x'], 'outputs': [], 'gates': [('a', 'INPUT', []), ('n1', 'INPUT', []), ('new_x', 'INPUT', [])],
     'users': [], 'blocks': []}
case = {'host': h, 'k0': 1, 'call': ['sub', ['a', 'new_x'], ['n1'], False]}
print('1. through harness.arithcorr (renaming to short_label):')
report(check_arith('arith_harness_rename_a', [case]), verbose=True)

# the same call, no renaming at all: fresh k = "new_" ++ 28 zeros ++ hex4 k
res, _ = ac.run_impl(case)
lists, dump, k = res[1]
host = ct.circuit(h)
expected = f'({ct.lst(ct.labels(x) for x in lists)}, {ct.circuit(dump)}, {k}%N)'
prelude = '''
Require Import Cirbo.Model.SumCases.
Definition real_label (k : N) : label := ("new_0000000000000000000000000000" ++ hex4 k)%string.
'''
out = _run('arith_harness_rename_b', AR_REQ, prelude, [],
           [f'res_eqb arith_result_eqb (run_on real_label (run_call (CSub ["a"; "new_x"] ["n1"] false)) {host} 1%N) (Ok {expected})'])
print('2. model run with the literal naming function, compared with the un-renamed implementation state:', out[0])
