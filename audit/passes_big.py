"""Bigger circuits (40-150 gates, long unary chains of mixed NOT/LNOT/RNOT/IFF/LIFF/RIFF, many duplicates,
blocks present, shuffled gate map) through every pass / cleanup: implementation vs model (fuel, order).

    cd /root/wt/audit && /venv/bin/python -m audit.passes_big [N] [SEED]
"""
from audit.common import *  # noqa: F401,F403
import json
import random
import sys

from harness import gen
from audit import passes_fuzz as pf


def chainy(rng, n):
    used, order, avail = set(), [], []
    for _ in range(rng.randint(1, 4)):
        l = gen.fresh_label(rng, used)
        used.add(l)
        order.append([l, 'INPUT', []])
        avail.append(l)
    while len(order) < n:
        l = gen.fresh_label(rng, used, rng.choice(['x', 'X', 'g', '']))
        used.add(l)
        r = rng.random()
        if r < 0.55:
            t = rng.choice(['NOT', 'NOT', 'IFF', 'LNOT', 'RNOT', 'LIFF', 'RIFF'])
            cur = rng.choice(avail[-4:])
            other = rng.choice(avail)
            ops = [cur] if t in ('NOT', 'IFF') else ([cur, other] if t[0] == 'L' else [other, cur])
        elif r < 0.9:
            t = rng.choice(['AND', 'OR', 'XOR', 'GT', 'NAND'])
            ops = [rng.choice(avail[-5:]), rng.choice(avail[:5])]
        else:
            t, ops = rng.choice(['ALWAYS_TRUE', 'ALWAYS_FALSE']), []
        order.append([l, t, ops])
        avail.append(l)
    users = pf.users_of(order)
    gates = [list(x) for x in order]
    if rng.random() < 0.6:
        rng.shuffle(gates)
    ul = [[k, v] for k, v in users.items()]
    if rng.random() < 0.5:
        rng.shuffle(ul)
    outs = [rng.choice(avail) for _ in range(rng.randint(0, 6))]
    return {'inputs': [g[0] for g in order if g[1] == 'INPUT'], 'outputs': outs, 'gates': gates, 'users': ul,
            'blocks': [['blk', [], [avail[-1]], [avail[-1]]]] if rng.random() < 0.3 else []}


def main():
    n = int(sys.argv[1]) if len(sys.argv) > 1 else 150
    rng = random.Random(int(sys.argv[2]) if len(sys.argv) > 2 else 7)
    cases = []
    for i in range(n):
        if i % 2:
            d = chainy(rng, rng.randint(40, 150))
        else:
            d = gen.random_circuit(rng, n_inputs=rng.randint(0, 4), n_gates=rng.randint(40, 120), with_blocks=True)
        d = json.loads(json.dumps(d))
        cases.append(pf.make_case(rng, d))
    print('cases', n, 'max gates', max(len(c['circuit']['gates']) for c in cases))
    res = {}
    for c in cases:
        for r in c['runs']:
            k = r['result'][0] if r['result'][0] == 'ok' else r['result'][1]
            res[k] = res.get(k, 0) + 1
    print('impl results', res)
    bad = pf.check([pf.case_term(c) for c in cases], 'big')
    print('disagreeing cases:', bad)
    for i in bad:
        print(json.dumps(cases[i]['circuit']))


if __name__ == '__main__':
    main()
