"""Odd circuit states and layouts: format_circuit byte for byte, bench_ok mirror, Circuit.__eq__, format->parse pipeline,
layouts with repeated definitions / declarations (C11_layout does not ask for NoDup).
Run:  cd /root/wt/audit && /venv/bin/python -m audit.bench_states"""
from audit.bench_lib import *  # noqa: F401,F403


def C(gates, outputs, inputs=None, users=None):
    ins = [k for k, t, _ in gates if t == 'INPUT'] if inputs is None else inputs
    us = {}
    for k, _, ops in gates:
        for o in ops:
            us.setdefault(o, []).append(k)
    return {'inputs': ins, 'outputs': outputs, 'gates': gates, 'users': list(us.items()) if users is None else users,
            'blocks': []}


ODD = [
    C([], []),
    C([], ['zz']),                                               # output that is no gate
    C([], [], inputs=['a']),                                     # input that is no gate
    C([('a', 'INPUT', [])], ['a'], inputs=['a', 'a']),           # repeated input
    C([('a', 'INPUT', [])], ['a', 'a', 'a']),
    C([('a', 'INPUT', [])], [], inputs=[]),                      # INPUT gate missing from the input list
    C([('a', 'INPUT', []), ('x', 'NOT', ['a'])], ['x'], inputs=['a', 'x']),   # input list names a NOT gate
    C([('a', 'INPUT', ['a'])], ['a']),                           # INPUT with operands
    C([('a', 'INPUT', []), ('x', 'AND', [])], ['x']),            # zero-operand AND
    C([('a', 'INPUT', []), ('x', 'AND', ['a'])], ['x']),
    C([('a', 'INPUT', []), ('x', 'NOT', ['a', 'a'])], ['x']),
    C([('a', 'INPUT', []), ('x', 'NOT', [])], ['x']),
    C([('a', 'INPUT', []), ('x', 'IFF', [])], ['x']),
    C([('a', 'INPUT', []), ('x', 'GT', ['a'])], ['x']),
    C([('a', 'INPUT', []), ('k', 'ALWAYS_TRUE', ['a', 'a', 'a'])], ['k']),
    C([('a', 'INPUT', []), ('k', 'ALWAYS_FALSE', ['a'])], ['k']),
    C([('k', 'ALWAYS_TRUE', [])], ['k']),
    C([('', 'INPUT', []), ('x', 'NOT', [''])], ['x']),           # empty label
    C([('', 'INPUT', []), ('k', 'ALWAYS_TRUE', [''])], ['k']),   # constant whose only operand is '' : printed as ALWAYS_TRUE()
    C([('a\nb', 'INPUT', []), ('x', 'NOT', ['a\nb'])], ['x']),
    C([('a\rb', 'INPUT', []), ('x', 'NOT', ['a\rb'])], ['x']),
    C([('a\tb', 'INPUT', []), ('\tx', 'NOT', ['a\tb'])], ['\tx']),
    C([('a#b', 'INPUT', []), ('x#', 'NOT', ['a#b'])], ['x#']),
    C([('#a', 'INPUT', []), ('x', 'NOT', ['#a'])], ['x']),       # input label may start with '#'? (label_ok says no)
    C([('a', 'INPUT', []), ('#x', 'NOT', ['a'])], ['#x']),
    C([('\xe9', 'INPUT', []), ('\xdf', 'NOT', ['\xe9'])], ['\xdf']),
    C([('a\x85', 'INPUT', []), ('\xa0', 'NOT', ['a\x85'])], ['\xa0']),
    C([('a\x0b', 'INPUT', []), ('x\x0c', 'NOT', ['a\x0b'])], ['x\x0c']),
    C([('\x00', 'INPUT', []), ('\x7f', 'NOT', ['\x00'])], ['\x7f']),
    C([('vdd', 'INPUT', []), ('VDD', 'INPUT', []), ('Vdd', 'AND', ['vdd', 'VDD'])], ['Vdd']),
    C([('INPUT', 'INPUT', []), ('OUTPUT', 'NOT', ['INPUT']), ('input', 'IFF', ['OUTPUT'])], ['input', 'OUTPUT']),
    C([('a', 'INPUT', []), ('x', 'NOT', ['y']), ('y', 'NOT', ['x'])], ['x']),     # cycle
    C([('x', 'NOT', ['a']), ('a', 'INPUT', [])], ['x']),                           # use before definition in the gate map
    C([('x', 'NOT', ['zz'])], ['x']),                                              # dangling operand
    C([('a', 'INPUT', []), ('b', 'INPUT', []), ('x', 'AND', ['a', 'b'])], ['x'], inputs=['b', 'a']),
]

# every gate type with 0..5 operands (arities_ok branch of bench_okb vs the python mirror's accepted_arity)
for _t in ct.GTYPES:
    for _n in range(6):
        if _t == 'INPUT':
            ODD.append(C([('a', 'INPUT', []), ('x', 'INPUT', ['a'] * _n)], ['x']))
        else:
            ODD.append(C([('a', 'INPUT', []), ('x', _t, ['a'] * _n)], ['x']))


def run_cases(name, kind, cases):
    fn, _ty = bc.CHECK[kind]
    terms = [f'({fn} {bc.case_term(c)})' for c in cases]
    out = coq_eval(name, REQ, ['[' + '; '.join(terms) + ']'])
    flags = [f.strip() for f in strip_type(out[0]).strip('[]').split(';')]
    assert len(flags) == len(cases)
    bad = [i for i, f in enumerate(flags) if f != 'true']
    print(f'{name}: {len(cases)} {kind} cases, {len(bad)} differ')
    return bad


def main():
    from cirbo.core.circuit import Circuit
    total = 0
    fmt, okb, eqs, texts = [], [], [], []
    for d in ODD:
        c = ct.build_circuit(d)
        text = c.format_circuit()
        fmt.append({'kind': 'format', 'circuit': d, 'text': text})
        okb.append({'kind': 'okb', 'circuit': d, 'result': bc.bench_ok(d)})
        texts.append(text)
        r = bc.run_parse(text)
        if r[0] == 'ok':
            eqs.append({'kind': 'eq', 'a': d, 'b': r[1], 'result': bool(c == Circuit.from_bench_string(text))})
            eqs.append({'kind': 'eq', 'a': r[1], 'b': d, 'result': bool(Circuit.from_bench_string(text) == c)})
    # __eq__: same size, different key sets / one differing gate / users and blocks ignored
    a = C([('a', 'INPUT', []), ('x', 'NOT', ['a'])], ['x'])
    for b in [C([('a', 'INPUT', []), ('y', 'NOT', ['a'])], ['x']),
              C([('x', 'NOT', ['a']), ('a', 'INPUT', [])], ['x']),
              C([('a', 'INPUT', []), ('x', 'NOT', ['a'])], ['x'], users=[]),
              C([('a', 'INPUT', []), ('x', 'NOT', ['a'])], ['x'], inputs=[]),
              C([('a', 'INPUT', []), ('x', 'IFF', ['a'])], ['x']),
              C([('a', 'INPUT', []), ('x', 'NOT', ['a']), ('z', 'NOT', ['a'])], ['x']),
              C([('a', 'INPUT', [])], ['x'])]:
        for p, q in ((a, b), (b, a)):
            eqs.append({'kind': 'eq', 'a': p, 'b': q, 'result': bool(ct.build_circuit(p) == ct.build_circuit(q))})
    for k, cs in (('format', fmt), ('okb', okb), ('eq', eqs)):
        bad = run_cases('bench_st_' + k, k, cs)
        total += len(bad)
        for i in bad:
            print('   DIFF', cs[i])
    total += len(compare_texts('bench_st_parse_s', texts, via_file=False))
    total += len(compare_texts('bench_st_parse_f', texts, via_file=True))

    # layouts with repeated definitions / declarations, all lines well formed (text_ok holds, NoDup does not)
    G = lambda l, op, t, ops: ['gate', l, 1, 1, op, 0, t, [[0 if i == 0 else 1, o, 0] for i, o in enumerate(ops)], 0, 0]
    I = lambda l: ['in', 'INPUT', l, 0, 0, 0]
    O = lambda l: ['out', 'OUTPUT', l, 0, 0, 0]
    LAY = [
        [I('a'), I('a')],
        [I('a'), I('b'), G('x', 'NOT', 'NOT', ['a']), G('x', 'NOT', 'NOT', ['b']), O('x'), O('x')],
        [I('a'), I('b'), G('x', 'AND', 'AND', ['a', 'b']), G('x', 'buff', 'IFF', ['b'])],
        [I('a'), G('a', 'NOT', 'NOT', ['a'])],                      # an input redefined as a gate (stays in the input list)
        [G('a', 'NOT', 'NOT', ['a']), I('a')],                      # a gate redefined as an input
        [I('a'), G('x', 'NOT', 'NOT', ['a']), I('x'), I('x')],
        [['vdd', 'k', 1, 1, 'vdd', 0], G('k', 'ALWAYS_FALSE', 'ALWAYS_FALSE', []), ['vdd', 'k', 0, 0, 'VDD', 3]],
        [I('a'), G('k', 'always_true', 'ALWAYS_TRUE', ['a', 'a']), G('k', 'ALWAYS_TRUE', 'ALWAYS_TRUE', [])],
        [O('zz')],                                                  # output that no line defines
        [],
        [['blank']], [['blank'], ['blank']], [['comment', '']], [['comment', '\r']], [['comment', '\t = (']],
        [I('a'), ['blank']],
        [I('\xe9'), G('\xdf', 'nOt', 'NOT', ['\xe9']), O('\xdf')],
        [I('a\tb'), G('\tx', 'NOT', 'NOT', ['a\tb']), O('\tx')],
        [I('a\rb'), G('x', 'NOT', 'NOT', ['a\rb'])],
    ]
    lcases = []
    for its in LAY:
        for fin in (False, True):
            t = bc.print_items(its, fin)
            lcases.append({'kind': 'layout', 'items': its, 'fin': fin, 'text': t, 'result': bc.run_parse(t)})
    bad = run_cases('bench_st_layout', 'layout', lcases)
    total += len(bad)
    for i in bad:
        print('   DIFF', lcases[i])
    wf = [bc.layout_wellformed(c['items']) for c in lcases]
    print('layout cases well formed (python mirror):', sum(wf), 'of', len(wf), '; ok results:',
          sum(1 for c in lcases if c['result'][0] == 'ok'))
    print('TOTAL differing:', total)


if __name__ == '__main__':
    main()
