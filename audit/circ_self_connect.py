"""connect_circuit / add_circuit / connect_left with other IS self (aliasing).
The model takes `other` as an immutable value; Python reads `other` lazily (top_sort generator,
other.inputs / other.outputs / other.blocks) while it mutates `self`."""
from audit.common import *
from harness import gen
from cirbo.core.circuit import Circuit, gate as G

REQ = ['Cirbo.Model.Gate', 'Cirbo.Model.Circuit', 'Cirbo.Model.Traverse', 'Cirbo.Model.Connect', 'Cirbo.Model.History']


def compare(title, build, op_py, op_tuple):
    c = build()
    d0 = ct.dump_circuit(c)
    r = run_impl(lambda: (op_py(c), ct.dump_circuit(c))[1])
    impl = ct.circuit(r[1]) if r[0] == 'ok' else r[1]
    term = f'step {ct.circuit(d0)} {gen.op_term(op_tuple(d0))}'
    model = coq_eval('circ_self_' + title, REQ, [term])[0]
    print(f'=== {title}')
    print('  start:', d0)
    print('  impl :', impl if r[0] == 'err' else r[1])
    print('  model:', model[:600])
    if r[0] == 'ok':
        eq = coq_eval('circ_self_eq_' + title, REQ,
                      [f'res_eqb circuit_eqb ({term}) (Ok {ct.circuit(r[1])})'])[0]
        print('  model == impl ?', eq)


# (a) a circuit with one block, added to itself under a prefix: dict changes size during iteration
def b_a():
    c = Circuit()
    c.add_inputs(['a'])
    c.emplace_gate('g', G.NOT, ('a',))
    c.make_block('B', ['g'], ['g'])
    return c
compare('a_blocks', b_a, lambda c: c.add_circuit(c, name='n'), lambda d: ('add_circuit', d, 'n', True))

# (b) no blocks, one input: KeyError when the new block reads other.inputs (already replaced)
def b_b():
    c = Circuit()
    c.add_inputs(['a'])
    c.emplace_gate('g', G.NOT, ('a',))
    return c
compare('b_inputs', b_b, lambda c: c.add_circuit(c, name='n'), lambda d: ('add_circuit', d, 'n', True))

# (c) NORMAL RETURN with a different state: input a is also the output; connect_left(c, ['a'])
def b_c():
    c = Circuit()
    c.add_inputs(['a'])
    c.set_outputs(['a'])
    return c
compare('c_left', b_c, lambda c: c.connect_left(c, ['a'], name='n'), lambda d: ('connect_left', d, ['a'], 'n', True))

# (d) normal return, constants only, no outputs: same state expected
def b_d():
    c = Circuit()
    c.emplace_gate('t', G.ALWAYS_TRUE, ())
    return c
compare('d_const', b_d, lambda c: c.add_circuit(c, name='n'), lambda d: ('add_circuit', d, 'n', True))

# (e) left connection of c to an internal gate of itself whose users list is still to be read by the
#     lazy top_sort: z = NOT(a); y = NOT(a); connect other's input a to base gate y
def b_e():
    c = Circuit()
    c.add_inputs(['a'])
    c.emplace_gate('y', G.NOT, ('a',))
    c.emplace_gate('z', G.NOT, ('y',))
    return c
compare('e_left_internal', b_e, lambda c: c.connect_left(c, ['z'], name='n'), lambda d: ('connect_left', d, ['z'], 'n', True))

# (f) no inputs, no outputs, one block: the block loop iterates other.blocks while inserting into self._blocks
def b_f():
    c = Circuit()
    c.emplace_gate('t', G.ALWAYS_TRUE, ())
    c.make_block('B', ['t'], [])
    return c
compare('f_const_block', b_f, lambda c: c.add_circuit(c, name='n'), lambda d: ('add_circuit', d, 'n', True))
