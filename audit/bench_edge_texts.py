"""Edge texts for from_bench_string / from_bench_file: implementation vs Bench.parse_bench.
Run:  cd /root/wt/audit && /venv/bin/python -m audit.bench_edge_texts"""
from audit.bench_lib import *  # noqa: F401,F403
import itertools
import random

EDGE = [
    # whitespace other than 0x20
    'INPUT(a)\t\nOUTPUT(a)', '\tINPUT(a)', 'INPUT(a)\nx\t=\tNOT(a)', 'INPUT(a)\nx = NOT(\ta)', 'INPUT(a)\nx = NOT(a)\t',
    'INPUT(a)\nx =\tvdd', 'INPUT(a)\nx = vdd\t', 'INPUT(a)\x0b\nOUTPUT(a)', 'INPUT(a)\x0c', 'INPUT(a)\x1c\nx = NOT(a)',
    'INPUT(a\x85)\nOUTPUT(a\x85)', 'INPUT(\xa0a)', 'INPUT(a)\nx = NOT(\xa0a)',
    # CR
    'INPUT(a)\r', 'INPUT(a)\r\n', '\r', '\r\n', '\r\r', '\n\r', 'INPUT(a)\r\rOUTPUT(a)', 'INPUT(a)\n\rOUTPUT(a)',
    'INPUT(a\rb)\nOUTPUT(a\rb)', '#c\rINPUT(a)', 'INPUT(a)\r\n\r\nx = NOT(a)\r\nOUTPUT(x)\r\n', 'INPUT(a)\r\nx = NOT(a)\r',
    'x = vdd\r\n', 'x = vdd\r', 'x = ALWAYS_TRUE()\r\n',
    # several '=' / parentheses
    'INPUT(a)\nx = y = NOT(a)', 'INPUT(a)\nx = NOT(a) = NOT(a)', 'INPUT(a)\nx = NOT((a))', 'INPUT(a)\nx = NOT(a)(a)',
    'INPUT(a)\nx = NOT)a(', 'INPUT(a)\nx = )NOT(a', 'INPUT(a)\nx = NOT(a))', 'INPUT(a)\nx = (NOT(a))', 'INPUT(a)\nx = NOT()a)',
    'INPUT(a)\n(x) = NOT(a)', 'INPUT(a)\nx) = NOT(a)', '()', '(=)', '=()', ' = ()', ' = NOT()', '= vdd', ' =vdd', '==vdd', '= =vdd',
    # empty operand lists, trailing commas
    'x = AND()', 'x = OR( )', 'x = NOT()', 'INPUT()\nx = NOT()', 'INPUT()\nx = AND(,)', 'INPUT()\nx = AND(,,)', 'INPUT()\nx = NOT(,)',
    'INPUT(a)\nx = AND(a,a,)', 'INPUT(a)\nx = AND(,a,a)', 'INPUT()\nINPUT(a)\nx = AND(a,a,)', 'INPUT()\nx = ALWAYS_TRUE(,)',
    'INPUT()\nx = ALWAYS_FALSE( , )', 'x = ALWAYS_FALSE(  )', 'x = ALWAYS_FALSE(\t)', 'INPUT()\nx = BUFF()', 'INPUT()\nx = IFF( )',
    'INPUT()\nx = GT(,)', 'INPUT()\nx = GT(,,)', 'INPUT()\n = NOT()', 'INPUT()\n=NOT()\nOUTPUT()',
    # labels with separators
    'INPUT(a b)\nOUTPUT(a b)', 'INPUT(a b)\nx = NOT(a b)', 'INPUT(a(b)\nx = NOT(a(b)', 'INPUT(a#b)\nx = NOT(a#b)\nOUTPUT(x)',
    'INPUT(#a)\nx = NOT(#a)', 'INPUT(a)\n#x = NOT(a)', 'INPUT(a)\nx# = NOT(a)\nOUTPUT(x#)', 'INPUT(a)\n #x = NOT(a)',
    'INPUT(a,b)\nx = NOT(a,b)', 'INPUT(a,b)\nx = AND(a,b)', 'INPUT(a)b', 'INPUT(a)b\nOUTPUT(a)b', 'INPUT(a)b)', 'OUTPUT(a)b',
    'INPUT(a))', 'INPUT(a) )\n', 'INPUT( )', 'INPUT(  )\nOUTPUT( )', 'INPUT)a(', 'INPUT a', 'INPUT  a', 'INPUT a)', 'INPUTXa',
    'OUTPUTXa', 'OUTPUT a', 'OUTPUT  a', 'OUTPUT', 'OUTPUT\n', 'OUTPUT(', 'OUTPUT()', 'OUTPUT( )\n', 'OUTPU', 'INPU', 'INPUT\n',
    'INPUT)', 'INPUT))', 'INPUT ) ', 'input', 'output(a))',
    # keyword-prefixed things
    'INPUT(a)\nINPUTx = NOT(a)', 'INPUT(a)\ninput = NOT(a)\nOUTPUT(input)', 'INPUT(a)\noutput = BUFF(a)\nOUTPUT(output)',
    'INPUT(INPUT)\nOUTPUT(OUTPUT)', 'INPUT(INPUT)\nx = NOT(INPUT)\nOUTPUT(x)', 'INPUT(vdd)\nx = NOT(vdd)', 'INPUT(a)\nvdd = NOT(a)',
    'INPUT(a)\nx = vdda', 'INPUT(a)\nx = vDd(a, a)', 'INPUT(a)\nx =vdd', 'INPUT(a)\nx=vdd', 'INPUT(a)\nx = vd', 'INPUT(a)\nx = v',
    'INPUT(a)\nx = ', 'INPUT(a)\nx =', 'INPUT(a)\nx =\n', 'INPUT(a)\nx = gnd', 'INPUT(a)\nx = GND()', 'INPUT(a)\nx = VDD()',
    'INPUT(a)\nx =  VDD', 'INPUT(a)\nx = \tVDD', 'INPUT(a)\nx = V DD', 'INPUT(a)\nx = buff (a)', 'INPUT(a)\nx = b uff(a)',
    'INPUT(a)\nx = iff(a)', 'INPUT(a)\nx = Always_True()', 'INPUT(a)\nx = always_true(a)', 'INPUT(a)\nx = ALWAYS_TRUE', 'x = INPUT(a)',
    'INPUT(a)\nx = INPUT(a)', 'INPUT(a)\nx = INPUT()', 'INPUT(a)\nx = OUTPUT(a)', 'INPUT(a)\nOUTPUT(a) = x', 'INPUT(a) = x', 'input = vdd',
    'INPUT = vdd\nOUTPUT(INPUT)', 'OUTPUT = vdd\nOUTPUT(OUTPUT)',
    # duplicates, undefined, cycles, use before definition
    'INPUT(a)\nINPUT(a)\nINPUT(a)', 'INPUT(a)\nINPUT(b)\nINPUT(a)', 'INPUT(a)\nINPUT(b)\nx = NOT(a)\nx = NOT(b)\nOUTPUT(x)',
    'INPUT(a)\nINPUT(b)\nx = AND(a, b)\nx = NOT(b)', 'INPUT(a)\nx = NOT(a)\nINPUT(x)', 'INPUT(x)\nINPUT(a)\nx = NOT(a)',
    'INPUT(a)\na = NOT(a)\nINPUT(a)', 'OUTPUT(a)\nOUTPUT(a)\nINPUT(a)', 'OUTPUT(zz)\nINPUT(a)', 'OUTPUT(x)\nx = NOT(y)\ny = NOT(a)\nINPUT(a)',
    'x = NOT(x)', 'x = AND(y, z)\ny = NOT(z)\nz = NOT(x)', 'x = NOT(y)', 'x = AND(a, b)\nINPUT(b)', 'x = AND(a, b)\nINPUT(a)',
    'y = NOT(q)\nx = NOT(p)', 'INPUT(a)\nx = NOT(a, a)\ny = NOT(zz)', 'INPUT(a)\ny = NOT(zz)\nx = NOT(a, a)', 'INPUT(a)\ny = FOO(a)\nx = NOT(a, a)',
    'INPUT(a)\nx = NOT(a, a)\ny = FOO(a)', 'INPUT(a)\nx\ny = FOO(a)', 'INPUT(a)\ny = NOT(zz)\nx', 'x = AND(b, a)\ny = OR(a, b)\nINPUT(a)\nINPUT(b)',
    'x = AND(b, a, b)\nINPUT(a)\nINPUT(b)', 'INPUT(a)\nx = AND(a, a, a, a, a, a, a)', 'x = ALWAYS_TRUE(q)', 'x = ALWAYS_TRUE(q)\nINPUT(q)',
    # comments
    '#', '#\n#', '# a\n\n# b', ' # a', 'INPUT(a) #c\nOUTPUT(a)', 'INPUT(a)#)', 'INPUT(a)\nx = NOT(a) # = (', 'INPUT(a)\nx = NOT(a#)', '\n#\nINPUT(a)',
    'INPUT(a)\n# = vdd', '#INPUT(a)\nOUTPUT(a)',
    # no final newline / only newlines / blank
    '', '\n', '\n\n\n', ' ', ' \n', '\n ', '\n \n', 'INPUT(a)', 'INPUT(a)\n', 'INPUT(a)\n\n', 'x = vdd', 'x = vdd\n', 'x = vdd \n', 'x = vdd  ',
    'x = ALWAYS_TRUE()', 'x = ALWAYS_TRUE()\n', 'x = ALWAYS_TRUE( )\n', 'x = ALWAYS_TRUE()  \n', 'INPUT(a)\nx = NOT(a)', 'INPUT(a)\nx = NOT(a)\n',
    'INPUT(a)\nx = NOT(a) \n', 'INPUT(a)\nx = NOT(a )\n', 'INPUT(a)\nOUTPUT(a)\n ', 'INPUT(a)\nOUTPUT(a)\n\n ',
    # case of operators
    'INPUT(a)\nx = nOt(a)', 'INPUT(a)\nx = Nand(a, a)', 'INPUT(a)\nx = nxor(a, a)\ny = LiFf(a, x)\nz = rnot(x, y)', 'iNpUt(a)\noUtPuT(a)',
    'INPUT(a)\nx = \xeeFF(a)', 'INPUT(a)\nx = n\xd6t(a)', '\xeenput(a)',
    # other oddities
    '\x00', 'INPUT(\x00)\nOUTPUT(\x00)', 'INPUT(a)\nx = NOT(a)\x00', 'INPUT(a)\n\x7f = NOT(a)', 'INPUT("a")\nx = NOT("a")', "INPUT(a')",
    'INPUT(a)\nx = "NOT"(a)', 'INPUT(a)\nx = NOT[a]', 'INPUT(a)\nx = NOT{a}', 'INPUT(a)\nx : NOT(a)', 'INPUT(a)\nx := NOT(a)',
    'INPUT(a)\nx = NOT(a);', 'INPUT(a)\\\nOUTPUT(a)', 'INPUT(a)\nx = AND(a,\na)', 'INPUT(a)\nx = LT(a a)', 'INPUT(a)\nx = LT(a;a)',
    'INPUT(0)\n1 = NOT(0)\nOUTPUT(1)', 'INPUT(-1)\nOUTPUT(-1)',
]


def random_texts(rng, n):
    alphabet = ['INPUT', 'OUTPUT', 'input', 'a', 'b', 'x', 'y', '(', ')', ',', '=', ' ', '  ', '\n', '\n', '\t', '\r', '#',
                'NOT', 'AND', 'and', 'vdd', 'VDD', 'BUFF', 'ALWAYS_TRUE', 'ALWAYS_FALSE', 'always_true', 'GT', 'XOR', 'gnd', '']
    out = []
    for _ in range(n):
        k = rng.randint(1, 14)
        out.append(''.join(rng.choice(alphabet) for _ in range(k)))
    return out


def token_lines(rng, n):
    """near-grammatical lines assembled from a small set of labels, random order, random damage"""
    labels = ['a', 'b', 'x', 'y', '', 'INPUTq', 'vdd']
    ops = ['NOT', 'AND', 'OR', 'XOR', 'GT', 'BUFF', 'IFF', 'ALWAYS_TRUE', 'ALWAYS_FALSE', 'vdd', 'not', 'FOO', '']
    out = []
    for _ in range(n):
        ls = []
        for _ in range(rng.randint(1, 6)):
            r = rng.random()
            if r < 0.25:
                ls.append(f'INPUT({rng.choice(labels)})')
            elif r < 0.4:
                ls.append(f'OUTPUT({rng.choice(labels)})')
            elif r < 0.5:
                ls.append(rng.choice(['', '#c', ' ', 'x = vdd', 'y = VDD(a)']))
            else:
                k = rng.randint(0, 3)
                ls.append(f'{rng.choice(labels)} = {rng.choice(ops)}({", ".join(rng.choice(labels) for _ in range(k))})')
        sep = rng.choice(['\n', '\n', '\r\n', '\r'])
        t = sep.join(ls) + rng.choice(['', sep])
        out.append(t)
    return out


if __name__ == '__main__':
    rng = random.Random(20260926)
    total = []
    total += compare_texts('bench_edge_s', EDGE, via_file=False)
    total += compare_texts('bench_edge_f', EDGE, via_file=True)
    rt = random_texts(rng, 600)
    total += compare_texts('bench_rand_s', rt, via_file=False)
    total += compare_texts('bench_rand_f', rt, via_file=True)
    tl = token_lines(rng, 600)
    total += compare_texts('bench_tok_s', tl, via_file=False)
    total += compare_texts('bench_tok_f', tl, via_file=True)
    print('TOTAL differing:', len(total))
