from audit.common import *
"""CircuitFinderSat on function models whose truth table does not have the shape (output_size rows of 2^input_size
entries) that Model/Search.v silently assumes: ragged TruthTableModel rows (resolve_input_size looks at row 0 only) and a
PyFunctionModel whose declared output_size differs from what func returns.  The model reads a missing entry as a
don't-care (out_at / all_dc use `nth ... None`) and takes the number of outputs from the table (sp_m = length sp_outs),
the implementation indexes the table with range(output_size) x range(2^input_size)."""
from harness import searchcorr as sc

PRE = ('Require Import Cirbo.Model.Gate Cirbo.Model.Circuit Cirbo.Model.History Cirbo.Model.Search '
       'Cirbo.Model.SearchCircuit Cirbo.Model.SearchCases Cirbo.Generated.SearchTables.\n')


def run(name, model_factory, r=1):
    from cirbo.synthesis import circuit_search as cs
    f = cs.CircuitFinderSat(model_factory(), r, basis='FULL')
    case = {'pre': [], 'post': []}
    spec = sc.spec_term(f, case)
    impl = run_impl(lambda: len(f.get_cnf()))
    f2 = cs.CircuitFinderSat(model_factory(), r, basis='FULL')

    def find():
        c = f2.find_circuit()
        return ('circuit', [(g.label, g.gate_type.name, g.operands) for g in c.gates.values()], c.outputs)
    impl_find = run_impl(find)
    out = coq_eval('sat_search_shapes', [], [
        f'(spec_wfb {spec}, length (encode {spec}), has_empty_clause (encode {spec}), sp_m {spec})'], prelude=PRE)
    print(f'--- {name}: input_size={f._boolean_function.input_size} output_size={f._boolean_function.output_size} '
          f'table={[["*" if v == sc_dc() else int(v) for v in row] for row in f._output_truth_tables]}')
    print('  impl  get_cnf()      :', impl)
    print('  impl  find_circuit() :', impl_find)
    print('  model (spec_wfb, #clauses of encode, has_empty_clause, sp_m):', strip_type(out[0]))


def sc_dc():
    from cirbo.core.logic import DontCare
    return DontCare


def main():
    from cirbo.core.truth_table import TruthTableModel
    from cirbo.core.python_function import PyFunctionModel
    run('ragged TruthTableModel, short 2nd row', lambda: TruthTableModel(['0110', '01']))
    run('ragged TruthTableModel, long 2nd row (control: no divergence expected)', lambda: TruthTableModel(['01', '0110']), r=0)
    run('PyFunctionModel output_size=2, func returns 1 value', lambda: PyFunctionModel(lambda a: [a[0] != a[1]], 2, output_size=2))
    run('PyFunctionModel output_size=1, func returns 2 values', lambda: PyFunctionModel(lambda a: [a[0] != a[1], a[0] and a[1]], 2, output_size=1))
    run('PyFunctionModel output_size=0, func returns 1 value', lambda: PyFunctionModel(lambda a: [a[0] != a[1]], 2, output_size=0))


if __name__ == '__main__':
    main()
