from audit.common import *
"""tseytin_transformation(c, outs): exact clause list + saved_lits map (or exception kind), model vs implementation, on
edge inputs: zero inputs / outputs, outs None / [] / repeated / negative / out of range, outputs that are inputs, INPUT
gates with operands / hidden / phantom inputs / duplicated inputs, repeated operands, constants with (dangling) operands,
unreachable malformed gates, wrong arities of every kind, cycle vs dangling order, the empty label, a 700-deep chain."""
from harness import tseytincorr as tc


def mk(inputs, gates, outputs, extra_gates=()):
    gs = [(i, 'INPUT', []) for i in inputs] + [tuple(g) for g in gates] + [tuple(g) for g in extra_gates]
    users = {}
    for l, t, ops in gs:
        for o in ops:
            users.setdefault(o, []).append(l)
    return {'inputs': list(inputs), 'outputs': list(outputs), 'gates': gs, 'users': list(users.items()), 'blocks': []}


C = []
base = mk(['a', 'b'], [('g', 'AND', ['a', 'b']), ('h', 'NOT', ['g'])], ['h', 'g', 'a'])
for outs in (None, [], [0], [0, 0], [2, 2, 1], [-1], [-3], [-4], [3], [0, 7], [7, 0], [1, -4], [True] if False else [1]):
    C.append((base, outs))
C.append((mk([], [], []), None))
C.append((mk([], [], []), []))
C.append((mk([], [], []), [0]))
C.append((mk([], [], []), [-1]))
C.append((mk(['a'], [], []), None))
C.append((mk([], [('t', 'ALWAYS_TRUE', [])], ['t', 't']), None))
C.append((mk(['a'], [], ['a', 'a']), None))
# INPUT gates with operands (in the input list / hidden), phantom input labels, duplicated inputs
d = mk(['a'], [('g', 'NOT', ['a'])], ['i', 'g'])
d['gates'].append(('i', 'INPUT', ['g']))
C.append((d, None))
d2 = dict(d, inputs=['a', 'i'])
C.append((d2, None))
C.append((dict(mk(['a'], [('g', 'NOT', ['a'])], ['g']), inputs=['zz', 'a', 'zz', 'a']), None))
C.append((dict(mk(['a'], [('g', 'NOT', ['zz'])], ['g', 'zz']), inputs=['zz', 'a']), None))
C.append((dict(mk(['a', 'b'], [('g', 'AND', ['a', 'b'])], ['g']), inputs=['b']), None))          # hidden input a
C.append((dict(mk(['a', 'b'], [('g', 'AND', ['a', 'b'])], ['g']), inputs=[]), None))
C.append((dict(mk(['a'], [('g', 'NOT', ['a'])], ['g']), inputs=['g', 'a']), None))              # a non-INPUT gate in inputs
# repeated operands, constants with operands (incl. dangling)
for t in ('AND', 'OR', 'XOR', 'NXOR', 'NAND', 'NOR'):
    C.append((mk(['a'], [('g', t, ['a', 'a'])], ['g']), None))
    C.append((mk(['a'], [('g', t, ['a'])], ['g']), None))
    C.append((mk(['a'], [('g', t, [])], ['g']), None))
    C.append((mk(['a', 'b'], [('g', t, ['a', 'b', 'a', 'b', 'a', 'b', 'a'])], ['g']), None))
for t in ('ALWAYS_TRUE', 'ALWAYS_FALSE'):
    C.append((mk(['a'], [('g', t, ['a', 'nope'])], ['g']), None))
    C.append((mk(['a'], [('k', 'NOT', ['a']), ('g', t, ['k', 'k'])], ['g']), None))
# wrong arities
for t in ('NOT', 'IFF'):
    for ops in ([], ['a', 'b'], ['b', 'a', 'a']):
        C.append((mk(['a', 'b'], [('g', t, ops)], ['g']), None))
for t in ('GT', 'LT', 'GEQ', 'LEQ', 'LIFF', 'RIFF', 'LNOT', 'RNOT'):
    for ops in ([], ['b'], ['a', 'b', 'b'], ['b', 'nope'] if False else ['b', 'a', 'a', 'a']):
        C.append((mk(['a', 'b'], [('g', t, ops)], ['g']), None))
# unreachable malformed logic is never looked at
C.append((mk(['a'], [('g', 'NOT', ['a'])], ['g'], extra_gates=[('dead', 'NOT', []), ('dead2', 'AND', ['nope', 'dead2'])]), None))
C.append((mk(['a'], [('g', 'NOT', ['a'])], ['g', 'dead'], extra_gates=[('dead', 'NOT', [])]), [0]))
# cycle vs dangling: order of operands decides
C.append((mk(['a'], [('g', 'AND', ['nope', 'g'])], ['g']), None))
C.append((mk(['a'], [('g', 'AND', ['g', 'nope'])], ['g']), None))
C.append((mk(['a'], [('g', 'AND', ['a', 'h']), ('h', 'NOT', ['g'])], ['a', 'g']), None))
C.append((mk(['a'], [('g', 'AND', ['a', 'h']), ('h', 'NOT', [])], ['g']), None))
# labels: empty string, prefixes, quotes
C.append((mk(['', 'a'], [('aa', 'AND', ['', 'a']), ('a"', 'OR', ['aa', ''])], ['a"', '']), None))
# output missing from the gate map
C.append((mk(['a'], [], ['nope']), None))
C.append((mk(['a'], [('g', 'NOT', ['a'])], ['g', 'nope']), [0]))
C.append((mk(['a'], [('g', 'NOT', ['a'])], ['g', 'nope']), [1, 0]))
# deep chain (below CPython's recursion limit): fuel = size + 1
N = 700
chain = [('c0', 'NOT', ['a'])] + [(f'c{i}', 'NOT', [f'c{i-1}']) for i in range(1, N)]
C.append((mk(['a'], chain, [f'c{N-1}']), None))
C.append((mk(['a'], chain[:-1] + [(f'c{N-1}', 'AND', [f'c{N-2}', 'nope'])], [f'c{N-1}']), None))


def main():
    import sys
    sys.setrecursionlimit(5000)
    cases = [tc.make_case(None, d, outs) for d, outs in C]
    terms = [f'check_tseytin_case {tc.case_term(c)}' for c in cases]
    prelude = 'Require Import Cirbo.Model.Gate Cirbo.Model.Circuit Cirbo.Model.History Cirbo.Model.Cnf Cirbo.Model.TseytinAlg Cirbo.Model.TseytinCases.\nLocal Open Scope Z_scope.\n'
    outs = coq_eval('sat_tseytin_edges', [], terms, prelude=prelude)
    bad = 0
    kinds = {}
    for (d, o), c, r in zip(C, cases, outs):
        k = 'ok' if c['raw'][0] == 'ok' else c['raw'][1]
        kinds[k] = kinds.get(k, 0) + 1
        if strip_type(r) != 'true':
            bad += 1
            m = coq_eval('sat_tseytin_edges_1', [], [f'tseytin {ct.circuit(d)} {ct.opt(o, tc.zlist)}'], prelude=prelude)
            show(f'tseytin gates={d["gates"][:6]} inputs={d["inputs"]} outputs={d["outputs"]} outs={o}', (c['raw'], c['saved']), m[0][:400])
    print(f'{len(C)} cases, {bad} differ; implementation results: {kinds}')


if __name__ == '__main__':
    main()
