from audit.common import *
"""Shared helpers of the func_* reproducers: per-query comparison of one class with the model."""
from harness import funccorr as fc

REQ = ['Cirbo.Model.Gate', 'Cirbo.Model.Circuit', 'Cirbo.Model.Eval', 'Cirbo.Model.History',
       'Cirbo.Model.FuncProto', 'Cirbo.Model.FuncProtoCases']


def parse_bools(out):
    body = strip_type(out).strip()
    assert body.startswith('[') and body.endswith(']'), out
    body = body[1:-1].strip()
    return [] if not body else [x.strip() == 'true' for x in body.split(';')]


def compare_queries(name, make_term, run_term, obj, qs, show_all=False):
    """make_term : Coq term of type res R; run_term : Coq function R -> query -> res answer;
    obj : implementation object (or ('err', kind)); qs : harness query list.
    Prints the queries on which implementation and model differ; returns their number."""
    if isinstance(obj, tuple):
        out = coq_eval(name, REQ, [f'match {make_term} with Ok _ => Ok tt | Err e => Err e end'])
        m = strip_type(out[0])
        same = m == f'Err {obj[1]}'
        print(f'--- {name}: constructor impl=Err {obj[1]}  model={m}  {"SAME" if same else "DIFFERENT"}')
        return 0 if same else 1
    answers = [fc.run_query(obj, q) for q in qs]
    pairs = ct.lst(f'({fc.query_term(q)}, {fc.compact_answer(q, a)})' for q, a in zip(qs, answers))
    t_cmp = (f'match {make_term} with Ok r => map (fun qa : query * res answer => '
             f'res_eqb answer_eqb ({run_term} r (fst qa)) (snd qa)) {pairs} | Err _ => [] end')
    t_val = f'match {make_term} with Ok r => map (fun qa : query * res answer => {run_term} r (fst qa)) {pairs} | Err _ => [] end'
    out = coq_eval(name, REQ, [t_cmp])
    flags = parse_bools(out[0])
    if len(flags) != len(qs):
        print(f'--- {name}: model constructor failed or length mismatch ({len(flags)} vs {len(qs)})')
        return 1
    bad = [i for i, f in enumerate(flags) if not f]
    print(f'--- {name}: {len(qs)} queries, {len(bad)} differ')
    if bad:
        sub = ct.lst(fc.query_term(qs[i]) for i in bad)
        vals = coq_eval(name + '_vals', REQ,
                        [f'match {make_term} with Ok r => map ({run_term} r) {sub} | Err _ => [] end'])
        print('   model values for the differing queries:', strip_type(vals[0]))
        for i in bad:
            print('   DIFF', qs[i], ' impl =', answers[i])
    elif show_all:
        for q, a in zip(qs, answers):
            print('   ', q, a)
    return len(bad)
