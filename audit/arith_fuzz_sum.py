from audit.common import *
"""Differential fuzz of the C07 generators with input distributions the harness does not use: odd
label alphabets (labels that are prefixes of each other, '', 'new', 'new_', 'n0', upper/lower case,
punctuation), operands drawn WITH repetition from inputs and internal gates, weights with huge gaps and
many ties, shifts up to 3 * width, random uuid start.  Usage: python -m audit.arith_fuzz_sum [seed] [count]"""
import random
import sys
from audit.arith_lib import check_sum, report, sc

_ren = sc.ren
sc.ren = lambda l: l if (l.startswith('new_') and not sc.NEW_RE.match(l)) else _ren(l)

seed = int(sys.argv[1]) if len(sys.argv) > 1 else 1
count = int(sys.argv[2]) if len(sys.argv) > 2 else 240
rng = random.Random(seed)
ALPHA = ['', ' ', 'a', 'A', 'aa', 'a0', 'a00', 'n', 'n0', 'n1', 'ne', 'new', 'new_', 'new_z', 'new_0', 'o', 'z', 'Z',
         '~', '!', '0', '00', '1', '10', '9', 'x9', 'x10', 'inf_label', 'inf', '_PLACEHOLDER_STR_', 'new`', '_']
T2 = ['AND', 'OR', 'XOR', 'NAND', 'NOR', 'NXOR', 'GT', 'LT', 'GEQ', 'LEQ']


def mk_host():
    labs = rng.sample(ALPHA, rng.randint(1, len(ALPHA)))
    n_in = rng.randint(1, max(1, len(labs) // 2))
    gates = [(l, 'INPUT', []) for l in labs[:n_in]]
    for l in labs[n_in:]:
        prev = [g[0] for g in gates]
        r = rng.random()
        if r < 0.1:
            gates.append((l, rng.choice(['ALWAYS_TRUE', 'ALWAYS_FALSE']), []))
        elif r < 0.25:
            gates.append((l, rng.choice(['NOT', 'IFF']), [rng.choice(prev)]))
        else:
            gates.append((l, rng.choice(T2), [rng.choice(prev), rng.choice(prev)]))
    users = {}
    for l, t, ops in gates:
        for o in ops:
            users.setdefault(o, []).append(l)
    outs = [rng.choice(labs) for _ in range(rng.randint(0, 2))]
    return {'inputs': labs[:n_in], 'outputs': outs, 'gates': gates, 'users': list(users.items()), 'blocks': []}


def basis():
    w = rng.choice(['XAIG', 'AIG'])
    return sc.spell(rng, w)


def weights(n):
    mode = rng.randrange(5)
    if mode == 0:
        return [rng.choice([0, 1]) for _ in range(n)]
    if mode == 1:
        return [rng.choice([0, 7, 10 ** 9, 10 ** 9 + 1]) for _ in range(n)]
    if mode == 2:
        return sorted(rng.randint(0, n // 2) for _ in range(n))
    if mode == 3:
        return [rng.randint(0, 3) * 1000 for _ in range(n)]
    return [rng.randint(0, n) for _ in range(n)]


cases = []
for _ in range(count):
    h = mk_host()
    labs = [g[0] for g in h['gates']]
    pick = lambda k: [rng.choice(labs) for _ in range(k)]   # noqa: E731
    k0 = rng.choice([1, 2, 3, 17, 256, 4095, 60000])
    kind = rng.choice(['nbits', 'easy', 'pow2', 'weighted', 'weighted', 'naive', 'sum2', 'shift'])
    n = rng.choice([1, 2, 3, 4, 5, 6, 7, 8, 9, 13, 16, 21, 30])
    if kind == 'nbits':
        call = [kind, basis(), rng.random() < 0.5, pick(n)]
    elif kind == 'easy':
        call = [kind, rng.random() < 0.5, pick(n)]
    elif kind == 'pow2':
        call = [kind, basis(), rng.random() < 0.5, pick(n)]
    elif kind in ('weighted', 'naive'):
        call = [kind, basis(), [[w, l] for w, l in zip(weights(n), pick(n))]]
    elif kind == 'sum2':
        call = [kind, pick(rng.randint(1, 9)), pick(rng.randint(1, 9)), rng.random() < 0.5]
    else:
        a = rng.randint(1, 6)
        call = [kind, rng.randint(0, 3 * a), pick(a), pick(rng.randint(1, 6)), rng.random() < 0.5]
    cases.append({'host': h, 'k0': k0, 'call': call})
rows = check_sum(f'arith_fuzz_sum_{seed}', cases, summaries=False)
report(rows, what=lambda c: c['call'])
