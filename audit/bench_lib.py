"""Shared helper of the bench audit reproducers: run a list of texts through the implementation and
through the model (Bench.parse_bench / from_bench_file_content) and report the texts on which they differ."""
from audit.common import *  # noqa: F401,F403  (harness.env first)
from harness import benchcorr as bc

REQ = ['Cirbo.Model.Gate', 'Cirbo.Model.Circuit', 'Cirbo.Model.History', 'Cirbo.Model.Bench',
       'Cirbo.Model.BenchLayout', 'Cirbo.Generated.GateTypes', 'Cirbo.Generated.BenchDispatch']


def compare_texts(name, texts, via_file=False, verbose=True):
    """returns the list of (text, impl result, model result string) that differ"""
    results = []
    with bc.TempDir() as tmp:
        for t in texts:
            results.append(bc.run_parse(t, via_file, tmp))
    terms = [f'(check_parse_case ({bc.text_term(t)}, {ct.boolean(via_file)}, {bc.res_term(r)}))'
             for t, r in zip(texts, results)]
    out = coq_eval(name, REQ, ['[' + '; '.join(terms) + ']'])
    flags = strip_type(out[0]).strip('[]').split(';')
    flags = [f.strip() for f in flags]
    assert len(flags) == len(texts), (len(flags), len(texts))
    bad = [i for i, f in enumerate(flags) if f != 'true']
    diffs = []
    if bad:
        fn = 'from_bench_file_content' if via_file else 'parse_bench'
        outs = coq_eval(name + '_d', REQ, [f'({fn} {bc.text_term(texts[i])})' for i in bad])
        for i, o in zip(bad, outs):
            diffs.append((texts[i], results[i], strip_type(o)))
    if verbose:
        print(f'{name}: {len(texts)} texts, via_file={via_file}, {len(diffs)} differ')
        for t, r, m in diffs:
            print('  text :', repr(t))
            print('  impl :', r)
            print('  model:', m)
    return diffs
