"""Differential fuzz of the simplification passes / Transformer pipeline against coq/Model/Passes.v.

    cd /root/wt/audit && /venv/bin/python -m audit.passes_fuzz [N_CASES] [SEED] [--malformed P]

Circuits with UNUSUAL features (see weird_circuit / api_circuit); every leaf pass via _transform, via
.transform, fixed and random pipelines, the real cleanup(); the complete output state (gate-map order,
users index, inputs, outputs, blocks) or the error kind is compared with the model (check_pass_case).
Disagreements are shrunk greedily and printed with both results.
"""
from audit.common import *  # noqa: F401,F403  (harness.env first)
import json
import random
import sys

from framework import coqrun
from harness import passcorr, wforacle

LABELS = ['', 'A', 'a', 'a0', 'a@b', 'B', 'b', 'a ', ' a', '0', '1', '00', 'aa', 'Aa', '_', 'a"b', 'z', 'Z',
          'a0b', '#', 'INPUT', 'x.y', 'a1', 'a10', 'a2', 'b0', 'AND', '(', ')', ',', '=']
NARY = ['AND', 'OR', 'XOR', 'NAND', 'NOR', 'NXOR']
UNARY = ['NOT', 'IFF']
BINARY = ['GEQ', 'GT', 'LEQ', 'LT', 'LIFF', 'LNOT', 'RIFF', 'RNOT']
CONST = ['ALWAYS_TRUE', 'ALWAYS_FALSE']


def users_of(order):
    users = {}
    for l, t, ops in order:
        for o in ops:
            users.setdefault(o, []).append(l)
    return users


def weird_circuit(rng, arity_ok=True, input_ops=False, max_inputs=3):
    pool = list(LABELS)
    rng.shuffle(pool)
    n_in = rng.choice([0, 0, 1, 1, 2, 2, 3][:2 * max_inputs + 1])
    n_g = rng.choice([0, 1, 2, 3, 4, 5, 6, 7, 8, 10, 12])
    order, avail, inputs = [], [], []
    for _ in range(n_in):
        l = pool.pop()
        ops = []
        order.append([l, 'INPUT', ops])
        inputs.append(l)
        avail.append(l)
    style = rng.choice(['mixed', 'mixed', 'unary', 'dup', 'const'])
    for _ in range(n_g):
        if not pool:
            break
        if style == 'unary':
            t = rng.choice(UNARY + ['LNOT', 'RNOT', 'LIFF', 'RIFF', 'NOT', 'IFF', 'AND'])
        elif style == 'dup':
            t = rng.choice(['AND', 'AND', 'OR', 'GT', 'LNOT', 'NOT', 'ALWAYS_TRUE', 'XOR'])
        elif style == 'const':
            t = rng.choice(CONST + CONST + ['AND', 'NOT', 'IFF', 'OR'])
        else:
            t = rng.choice(NARY + UNARY + BINARY + CONST)
        if t in NARY:
            k = rng.choice([2, 2, 2, 3, 4])
        elif t in UNARY:
            k = 1
        elif t in BINARY:
            k = 2
        else:
            k = rng.choice([0, 0, 1, 2, 3])
        if not arity_ok and rng.random() < 0.25:
            k = rng.choice([0, 1, 2, 3])
        if not avail:
            if t not in CONST and arity_ok:
                t = rng.choice(CONST)
            k = 0
        src = avail if rng.random() < 0.6 else avail[-3:]
        ops = [rng.choice(src) for _ in range(k)]
        if k >= 2 and rng.random() < 0.3:
            ops[1] = ops[0]  # repeated operand
        if input_ops and avail and rng.random() < 0.15:
            t = 'INPUT'
            ops = [rng.choice(avail) for _ in range(rng.choice([1, 2]))]
        l = pool.pop()
        order.append([l, t, ops])
        if t == 'INPUT':
            inputs.append(l)
        avail.append(l)
    users = users_of(order)
    gates = [list(x) for x in order]
    r = rng.random()
    if r < 0.45:
        rng.shuffle(gates)
    elif r < 0.6:
        gates.reverse()
    ulist = [[k, list(v)] for k, v in users.items()]
    if rng.random() < 0.4:
        rng.shuffle(ulist)
    if rng.random() < 0.3:
        for kv in ulist:
            rng.shuffle(kv[1])
    if rng.random() < 0.3:  # empty users entries (as left behind by remove_gate)
        have = {k for k, _ in ulist}
        for l, _, _ in order:
            if l not in have and rng.random() < 0.5:
                ulist.insert(rng.randint(0, len(ulist)), [l, []])
    ins = list(inputs)
    if rng.random() < 0.5:
        rng.shuffle(ins)
    outs = []
    if avail:
        for _ in range(rng.choice([0, 0, 1, 1, 2, 3, 4])):
            q = rng.random()
            if q < 0.2 and inputs:
                outs.append(rng.choice(inputs))
            elif q < 0.4 and outs:
                outs.append(rng.choice(outs))
            else:
                outs.append(rng.choice(avail))
    blocks = []
    if avail and rng.random() < 0.3:
        for b in range(rng.randint(1, 2)):
            gs = [rng.choice(avail) for _ in range(rng.randint(0, 3))]
            blocks.append([rng.choice(['', 'B', 'a', 'blk%d' % b]) + str(b), [rng.choice(avail) for _ in range(rng.randint(0, 2))],
                           gs, [rng.choice(avail) for _ in range(rng.randint(0, 2))]])
    return {'inputs': ins, 'outputs': outs, 'gates': gates, 'users': ulist, 'blocks': blocks}


def api_circuit(rng):
    """a state produced by the library's own mutators (rename_gate / remove_gate make the dict order
    differ from the creation order)"""
    from cirbo.core.circuit import Circuit, gate
    d = weird_circuit(rng)
    c = Circuit()
    topo = []
    byl = {l: (t, ops) for l, t, ops in d['gates']}
    done = set()

    def visit(l):
        if l in done:
            return
        done.add(l)
        for o in byl[l][1]:
            visit(o)
        topo.append(l)
    for l in byl:
        visit(l)
    for l in topo:
        c.emplace_gate(l, getattr(gate, byl[l][0]), tuple(byl[l][1]))
    c.set_outputs(d['outputs'])
    spare = [x for x in LABELS + ['r1', 'r2', 'r3', 'r4'] if x not in byl]
    for _ in range(rng.randint(0, 4)):
        ls = list(c._gates)
        if not ls:
            break
        k = rng.random()
        if k < 0.6 and spare:
            c.rename_gate(rng.choice(ls), spare.pop())
        elif k < 0.8:
            cand = [l for l in ls if not c.get_gate_users(l)]
            if cand:
                c.remove_gate(rng.choice(cand))
        elif k < 0.9:
            c.mark_as_output(rng.choice(ls))
        else:
            try:
                c.make_block('blk%d' % rng.randint(0, 3), [rng.choice(ls)], [rng.choice(ls)])
            except Exception:  # noqa: BLE001
                pass
    if c._inputs and rng.random() < 0.5:
        ins = list(c._inputs)
        rng.shuffle(ins)
        c.set_inputs(ins)
    return ct.dump_circuit(c)


def malform(rng, d):
    d = json.loads(json.dumps(d))
    kind = rng.choice(['cycle', 'cycle', 'selfloop', 'dangling', 'dangling_output', 'input_missing', 'input_dup',
                       'input_extra', 'users_stale', 'users_extra', 'allcyclic'])
    gs = d['gates']
    non_in = [i for i, g in enumerate(gs) if g[1] != 'INPUT']
    labels = [g[0] for g in gs]
    if kind in ('cycle', 'selfloop') and non_in:
        i = rng.choice(non_in)
        tgt = gs[i][0] if kind == 'selfloop' else rng.choice(labels)
        if gs[i][2]:
            j = rng.randrange(len(gs[i][2]))
            gs[i][2][j] = tgt
        else:
            gs[i][2].append(tgt)
        if rng.random() < 0.7:
            d['users'] = [[k, v] for k, v in users_of(gs).items()]
    elif kind == 'allcyclic' and len(non_in) >= 1 and not d['inputs']:
        for i in non_in:
            if not gs[i][2]:
                gs[i][2].append(rng.choice(labels))
        d['users'] = [[k, v] for k, v in users_of(gs).items()]
    elif kind == 'dangling' and non_in:
        i = rng.choice(non_in)
        if gs[i][2]:
            gs[i][2][rng.randrange(len(gs[i][2]))] = 'ghost'
        else:
            gs[i][2].append('ghost')
    elif kind == 'dangling_output':
        d['outputs'].insert(rng.randint(0, len(d['outputs'])), 'ghost')
    elif kind == 'input_missing' and d['inputs']:
        d['inputs'].pop(rng.randrange(len(d['inputs'])))
    elif kind == 'input_dup' and d['inputs']:
        d['inputs'].append(rng.choice(d['inputs']))
    elif kind == 'input_extra' and labels:
        d['inputs'].append(rng.choice(labels + ['ghost']))
    elif kind == 'users_stale' and d['users']:
        i = rng.randrange(len(d['users']))
        if d['users'][i][1] and rng.random() < 0.5:
            d['users'][i][1].pop()
        else:
            d['users'].pop(i)
    elif kind == 'users_extra' and labels:
        d['users'].append(['ghost' if rng.random() < 0.3 else rng.choice(labels), [rng.choice(labels + ['ghost'])]])
        seen, out = set(), []
        for k, v in d['users']:
            if k not in seen:
                seen.add(k)
                out.append([k, v])
        d['users'] = out
    return d


FIXED_PIPELINES = [
    [],
    [['COMP', []]],
    [['RR', False], ['RR', False]],
    [['RR', True], ['RR', False], ['RR', True], ['RR', True]],
    [['PIPE', ['PIPE', ['MU'], ['MD']], ['MU']]],                      # a | b | a
    [['PIPE', ['MU'], ['COMP', [['MD'], ['MU']]]]],                     # a | Comp
    [['PIPE', ['COMP', [['RR', False]]], ['RR', False]]],
    [['PIPE', ['RR', False], ['MU']], ['RR', False]],
    [['MU'], ['RR', False], ['RR', False], ['MD']],
    [['COMP', [['COMP', [['MD'], ['RR', False]]], ['RR', False]]], ['RR', False]],
    [['MD'], ['MD']],
    [['MU'], ['MU']],
    [['PIPE', ['RR', True], ['RR', True]]],
]


def is_wf(dump):
    try:
        return wforacle.wf_violation(ct.build_circuit(dump)) is None
    except Exception:  # noqa: BLE001
        return False


def run_one(dump, ts, via):
    from cirbo.core.circuit.transformer import Transformer, TransformerComposition
    from cirbo.minimization.simplification import cleanup
    c = ct.build_circuit(dump)
    before = ct.dump_circuit(c)
    try:
        if via == 'leaf':
            out = passcorr.build(ts[0])._transform(c)
        elif via == 'transform':
            out = passcorr.build(ts[0]).transform(c)
        elif via == 'comp_direct':
            out = Transformer.apply_transformers(c, TransformerComposition([passcorr.build(t) for t in ts]))
        elif via == 'cleanup_light':
            out = cleanup(c)
        elif via == 'cleanup_heavy':
            out = cleanup(c, use_heavy=True)
        else:
            out = Transformer.apply_transformers(c, [passcorr.build(t) for t in ts])
    except RecursionError:
        raise
    except Exception as e:  # noqa: BLE001
        return ['err', ct.err_name(e)], ct.dump_circuit(c) == before
    return ['ok', json.loads(json.dumps(ct.dump_circuit(out)))], ct.dump_circuit(c) == before


def make_case(rng, dump, full=True):
    heavy = len(dump['inputs']) <= 4
    runs = []

    def add(ts, via):
        res, untouched = run_one(dump, ts, via)
        runs.append({'ts': ts, 'via': via, 'result': res, 'untouched': untouched})
    for leaf in passcorr.LEAVES:
        if leaf == ['ME'] and not heavy:
            continue
        add([leaf], 'leaf')
    if full:
        for leaf in passcorr.LEAVES:
            if leaf == ['ME'] and not heavy:
                continue
            add([leaf], 'transform')
        for ts in rng.sample(FIXED_PIPELINES, 4):
            add(ts, rng.choice(['list', 'comp_direct']))
        for _ in range(2):
            ts = [passcorr.random_transformer(rng, heavy=heavy) for _ in range(rng.randint(1, 3))]
            add(ts, 'list')
        add([['RR', False], ['MU'], ['MD']], 'cleanup_light')
        if heavy:
            add([['RR', False], ['MU'], ['MD'], ['ME']], 'cleanup_heavy')
    return {'circuit': dump, 'runs': runs}


def case_term(case, only=None):
    runs = [r for i, r in enumerate(case['runs']) if only is None or i == only]
    rs = ct.lst(f'({ct.lst(passcorr.term(t) for t in r["ts"])}, {ct.boolean(r["via"] == "leaf")}, '
                f'{ct.res(tuple(r["result"]), ct.circuit)})' for r in runs)
    return f'({ct.circuit(case["circuit"])}, {rs})'


def check(cases_terms, tag):
    return coqrun.run_cases('audit', 'passes_' + tag, passcorr.HEADER, cases_terms, 'check_pass_case',
                            passcorr.CASE_TYPE, jobs=8)


def model_result(dump, ts, via, tag='passes_fuzz_show'):
    tl = ct.lst(passcorr.term(t) for t in ts)
    if via == 'leaf':
        term = f'transform_leaf {passcorr.term(ts[0])} {ct.circuit(dump)}'
    else:
        term = f'apply_transformers {ct.circuit(dump)} {tl}'
    return strip_type(coq_eval(tag, ['Cirbo.Model.Gate', 'Cirbo.Model.Circuit', 'Cirbo.Model.Passes'], [term])[0])


# ------------------------------------------------------------------ shrinking
def reductions(d):
    """smaller variants of a dump (wiring kept consistent where possible)"""
    def clone():
        return json.loads(json.dumps(d))
    for i in range(len(d['outputs'])):
        x = clone()
        x['outputs'].pop(i)
        yield x
    for i in range(len(d['blocks'])):
        x = clone()
        x['blocks'].pop(i)
        yield x
    for i, (l, t, ops) in enumerate(d['gates']):
        x = clone()  # drop a gate entirely (and every mention)
        x['gates'].pop(i)
        for g in x['gates']:
            g[2] = [o for o in g[2] if o != l]
        x['outputs'] = [o for o in x['outputs'] if o != l]
        x['inputs'] = [o for o in x['inputs'] if o != l]
        x['users'] = [[k, [u for u in v if u != l]] for k, v in x['users'] if k != l]
        x['blocks'] = []
        yield x
        for j in range(len(ops)):
            x = clone()  # drop one operand
            o = x['gates'][i][2].pop(j)
            for kv in x['users']:
                if kv[0] == o and l in kv[1]:
                    kv[1].remove(l)
            yield x
    for i, (k, v) in enumerate(d['users']):
        if not v:
            x = clone()
            x['users'].pop(i)
            yield x
    x = clone()  # canonical users
    x['users'] = [[k, v] for k, v in users_of(x['gates']).items()]
    if x['users'] != d['users']:
        yield x


def shrink(dump, ts, via, keep_wf):
    cur = dump
    for _ in range(40):
        cands = []
        for x in reductions(cur):
            if keep_wf and not is_wf(x):
                continue
            res, _ = run_one(x, ts, via)
            cands.append({'circuit': x, 'runs': [{'ts': ts, 'via': via, 'result': res}]})
        if not cands:
            break
        bad = check([case_term(c) for c in cands], 'shrink')
        if not bad:
            break
        cur = cands[bad[0]]['circuit']
    return cur


def main():
    args = [a for a in sys.argv[1:] if not a.startswith('--')]
    n = int(args[0]) if args else 2000
    seed = int(args[1]) if len(args) > 1 else 1
    p_mal = 0.12
    if '--malformed' in sys.argv:
        p_mal = float(sys.argv[sys.argv.index('--malformed') + 1])
    rng = random.Random(seed)
    cases, meta = [], []
    for i in range(n):
        r = rng.random()
        if r < 0.2:
            d, kind = api_circuit(rng), 'api'
        elif r < 0.35:
            d, kind = weird_circuit(rng, arity_ok=False), 'arity'
        elif r < 0.45:
            d, kind = weird_circuit(rng, arity_ok=True, input_ops=True), 'input_ops'
        else:
            d, kind = weird_circuit(rng), 'weird'
        if rng.random() < p_mal:
            d, kind = malform(rng, d), kind + '+malformed'
        d = json.loads(json.dumps(d))
        cases.append(make_case(rng, d))
        meta.append({'kind': kind, 'wf': is_wf(d)})
    stats = {}
    for c, m in zip(cases, meta):
        for r in c['runs']:
            k = ('wf' if m['wf'] else 'nonwf', r['result'][0] if r['result'][0] == 'ok' else r['result'][1])
            stats[k] = stats.get(k, 0) + 1
            if not r['untouched']:
                print('ARGUMENT MODIFIED', json.dumps(c['circuit']), r['ts'], r['via'])
    print('cases', n, 'runs', sum(len(c['runs']) for c in cases), 'wf', sum(m['wf'] for m in meta))
    print('results:', sorted(stats.items()))
    bad = check([case_term(c) for c in cases], 'fuzz')
    print('disagreeing cases:', len(bad))
    seen = set()
    badlist = []
    for i in bad:
        c = cases[i]
        for j in check([case_term(c, only=j) for j in range(len(c['runs']))], 'runs'):
            badlist.append((i, j))
    terms = []
    for i, j in badlist:
        r = cases[i]['runs'][j]
        tl = ct.lst(passcorr.term(t) for t in r['ts'])
        if r['via'] == 'leaf':
            terms.append(f'res_kind (transform_leaf {passcorr.term(r["ts"][0])} {ct.circuit(cases[i]["circuit"])})')
        else:
            terms.append(f'res_kind (apply_transformers {ct.circuit(cases[i]["circuit"])} {tl})')
    kinds = []
    if terms:
        prelude = ('Definition res_kind (r : res circuit) : option err := '
                   'match r with Ok _ => None | Err e => Some e end.\n')
        kinds = [strip_type(x) for x in coq_eval('passes_fuzz_kinds', ['Cirbo.Model.Gate', 'Cirbo.Model.Circuit',
                                                                       'Cirbo.Model.Passes'], terms, prelude)]
    for (i, j), mk in zip(badlist, kinds):
        c, m = cases[i], meta[i]
        r = c['runs'][j]
        ik = r['result'][0] if r['result'][0] == 'ok' else r['result'][1]
        key = (m['wf'], json.dumps(r['ts']) if r['via'] == 'leaf' else 'pipeline', ik, mk)
        print('  bad run: case %d kind=%s wf=%s via=%s ts=%s impl=%s model=%s' % (i, m['kind'], m['wf'], r['via'],
                                                                                json.dumps(r['ts']), ik, mk))
        if key in seen:
            continue
        seen.add(key)
        small = shrink(c['circuit'], r['ts'], r['via'], m['wf'])
        res, _ = run_one(small, r['ts'], r['via'])
        mod = model_result(small, r['ts'], r['via'])
        print('=' * 100)
        print('DISAGREEMENT kind=%s wf=%s via=%s ts=%s' % (m['kind'], is_wf(small), r['via'], json.dumps(r['ts'])))
        print('  circuit:', json.dumps(small))
        print('  impl   :', ct.res(tuple(res), ct.circuit) if res[0] == 'ok' else res)
        print('  model  :', mod)
    print('distinct disagreement keys:', len(seen))


if __name__ == '__main__':
    main()
