"""Texts on which from_bench_string RETURNS NORMALLY with a circuit that is not well formed (model and implementation
agree; the point is the library behaviour, cf. C02 'every operand and output names an existing gate, users are exactly
the multiset of users, the input list is the INPUT gates each once, the graph is acyclic').
Run:  cd /root/wt/audit && /venv/bin/python -m audit.bench_illformed_ok"""
from audit.bench_lib import *  # noqa: F401,F403
from cirbo.core.circuit import Circuit

TEXTS = {
    'output names no gate': 'OUTPUT(zz)',
    'cycle': 'x = NOT(x)\nOUTPUT(x)',
    'cycle of two': 'INPUT(a)\nx = AND(a, y)\ny = NOT(x)\nOUTPUT(y)',
    'input declared twice': 'INPUT(a)\nINPUT(a)\nOUTPUT(a)',
    'gate defined twice (stale users entry of a)': 'INPUT(a)\nINPUT(b)\nx = NOT(a)\nx = NOT(b)\nOUTPUT(x)',
    'input redefined as gate (stays in the input list)': 'INPUT(a)\nINPUT(b)\na = NOT(b)\nOUTPUT(a)',
    'y = VDD(a): operand silently dropped': 'INPUT(a)\ny = VDD(a)\nOUTPUT(y)',
    'x = NOT(a)junk accepted': 'INPUT(a)\nx = NOT(a)junk\nOUTPUT(x)',
    'INPUT (a) read as the label "(a"': 'INPUT (a)',
}


def wf_report(c):
    d = ct.dump_circuit(c)
    gates = {k: (t, ops) for k, t, ops in d['gates']}
    msgs = []
    for o in d['outputs']:
        if o not in gates:
            msgs.append(f'output {o!r} is no gate')
    want = {}
    for k, (t, ops) in gates.items():
        for o in ops:
            want.setdefault(o, []).append(k)
    got = {k: sorted(v) for k, v in d['users'] if v}
    if got != {k: sorted(v) for k, v in want.items()}:
        msgs.append(f'users index {dict(d["users"])} but operand relation gives {want}')
    ins = [k for k, (t, _) in gates.items() if t == 'INPUT']
    if sorted(ins) != sorted(d['inputs']):
        msgs.append(f'input list {d["inputs"]} but INPUT gates {ins}')
    try:
        list(c.top_sort())
    except Exception as e:  # noqa: BLE001
        msgs.append(f'top_sort raises {type(e).__name__}')
    return msgs


if __name__ == '__main__':
    diffs = compare_texts('bench_illformed', list(TEXTS.values()))
    for name, t in TEXTS.items():
        r = run_impl(lambda: Circuit.from_bench_string(t))
        if r[0] == 'ok':
            print(f'{name}: {t!r} -> returns; defects: {wf_report(r[1]) or "none found by wf_report"}; '
                  f'dump {ct.dump_circuit(r[1])}')
        else:
            print(f'{name}: {t!r} -> {r}')
    print('model vs implementation differing:', len(diffs))
