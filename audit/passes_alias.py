"""'return a NEW circuit' (C03) for pipelines whose linearisation is empty: apply_transformers folds over
nothing and hands back the ARGUMENT OBJECT (blocks and all); mutating the 'result' mutates the argument.
The model (apply_transformers c [] = Ok c, immutable values) cannot express the aliasing and
passcorr.oracle_c03 skips exactly these pipelines (`if ts and linear_len(ts)`).

    cd /root/wt/audit && /venv/bin/python -m audit.passes_alias
"""
from audit.common import *  # noqa: F401,F403


def main():
    from cirbo.core.circuit import Circuit, gate
    from cirbo.core.circuit.transformer import Transformer, TransformerComposition
    from cirbo.minimization.simplification import RemoveRedundantGates
    c = Circuit()
    c.add_inputs(['x'])
    c.emplace_gate('n', gate.NOT, ('x',))
    c.set_outputs(['n'])
    for title, f in [('apply_transformers(c, [])', lambda: Transformer.apply_transformers(c, [])),
                     ('TransformerComposition([]).transform(c)', lambda: TransformerComposition([]).transform(c)),
                     ('(Comp([]) | Comp([])).transform(c)',
                      lambda: (TransformerComposition([]) | TransformerComposition([])).transform(c)),
                     ('RemoveRedundantGates().transform(c)', lambda: RemoveRedundantGates().transform(c))]:
        out = f()
        print(f'{title}: result is argument = {out is c}')
    out = TransformerComposition([]).transform(c)
    out.emplace_gate('extra', gate.NOT, ('n',))
    print('after adding a gate to the "result" the argument has gates', list(c.gates))
    m = coq_eval('passes_alias', ['Cirbo.Model.Gate', 'Cirbo.Model.Circuit', 'Cirbo.Model.Passes'],
                 [f'apply_transformers {ct.circuit(ct.dump_circuit(Circuit()))} [TComp []]'])
    print('model apply_transformers empty [TComp []] =', strip_type(m[0]))


if __name__ == '__main__':
    main()
