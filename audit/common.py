"""Helpers shared by the audit reproducers.

Usage (from /root/wt/audit):   /venv/bin/python audit/<name>.py

    from audit.common import *            # imports harness.env first
    out = coq_eval('circ_x', ['Cirbo.Model.Circuit'], ['(size empty_circuit)'])

coq_eval writes coq/Corr/audit/<name>.v with one `Eval vm_compute in (...)` per term, runs coqc
and returns the list of printed results (strings, whitespace-normalised, the `: type` suffix kept).
"""
import os
import pathlib
import re
import subprocess
import sys

ROOT = pathlib.Path(__file__).resolve().parent.parent
if str(ROOT) not in sys.path:
    sys.path.insert(0, str(ROOT))
os.environ.setdefault('PYTHONHASHSEED', '0')

import harness.env  # noqa: E402,F401  (must be first: shims, /repo, uuid4 counter)
from harness import coqterm as ct  # noqa: E402

COQ = ROOT / 'coq'
OUT = COQ / 'Corr' / 'audit'


def coq_eval(name, requires, terms, prelude='', timeout=600):
    OUT.mkdir(parents=True, exist_ok=True)
    src = 'Require Import Cirbo.Model.Base.\n'
    for r in requires:
        src += f'Require Import {r}.\n'
    src += 'Open Scope string_scope.\n' + prelude + '\n'
    for t in terms:
        src += f'Eval vm_compute in ({t}).\n'
    path = OUT / f'{name}.v'
    path.write_text(src)
    p = subprocess.run(['timeout', str(timeout), 'coqc', '-Q', '.', 'Cirbo', str(path.relative_to(COQ))],
                       cwd=COQ, capture_output=True, text=True)
    if p.returncode != 0:
        raise RuntimeError(f'coqc failed on {path}:\n{p.stdout}\n{p.stderr}')
    chunks = re.split(r'^\s*= ', p.stdout, flags=re.M)[1:]
    return [' '.join(c.split()) for c in chunks]


def run_impl(f):
    """run f(); return ('ok', value) or ('err', model error name)"""
    try:
        return ('ok', f())
    except BaseException as e:  # noqa
        return ('err', ct.err_name(e) + ' [' + type(e).__name__ + ': ' + str(e)[:80] + ']')


def strip_type(out: str) -> str:
    """drop the trailing ': type' of a coqc Eval answer"""
    depth = 0
    for i in range(len(out) - 1, -1, -1):
        ch = out[i]
        if ch in ')]':
            depth += 1
        elif ch in '([':
            depth -= 1
        elif ch == ':' and depth == 0 and out[i - 1] == ' ' and out[i + 1:i + 2] == ' ':
            return out[:i].strip()
    return out


def show(title, impl, model):
    same = 'SAME' if impl == model else 'DIFFERENT'
    print(f'--- {title}: {same}')
    print('  impl :', impl)
    print('  model:', model)
