"""Error-kind divergences on ILL-FORMED states (class B: outside WF).
 1. evaluate_circuit on a self loop: Python evaluates the gate as soon as the top of the stack is its own label
    (`cur_gate.label == queue_[-1]`, true again after pushing the gate itself) -> KeyError; the model keeps pushing
    -> Err OutOfFuel.
 2. evaluate_full_circuit consumes top_sort lazily: an operator TypeError on an early gate wins over a KeyError that
    top_sort would hit later; the model runs top_sort to the end first.
 3. connect_circuit consumes other.top_sort lazily in the same way: CircuitValidationError of emplace_gate on the first
    gate wins over the KeyError of other's broken users index.
"""
from audit.common import *
from harness import evalcorr, gen

REQ = ['Cirbo.Model.Gate', 'Cirbo.Model.Circuit', 'Cirbo.Model.Traverse', 'Cirbo.Model.Eval', 'Cirbo.Model.Connect',
       'Cirbo.Model.History']

# 1
d1 = {'inputs': ['a'], 'outputs': ['x'], 'gates': [('a', 'INPUT', []), ('x', 'AND', ['a', 'x'])],
      'users': [('a', ['x']), ('x', ['x'])], 'blocks': []}
c1 = ct.build_circuit(d1)
impl = evalcorr.dict_result(lambda: c1.evaluate_circuit({'a': True}))
model = coq_eval('circ_errkinds1', REQ, [f'evaluate_circuit {ct.circuit(d1)} [("a", T)] None'])[0]
show('1 evaluate_circuit, x = AND(a, x)', impl, model)

# 2
d2 = {'inputs': [], 'outputs': [], 'gates': [('t', 'ALWAYS_TRUE', []), ('n', 'NOT', ['t']), ('k', 'AND', [])],
      'users': [('t', ['n']), ('n', ['ghost'])], 'blocks': []}
c2 = ct.build_circuit(d2)
impl = evalcorr.dict_result(lambda: c2.evaluate_full_circuit({}))
model = coq_eval('circ_errkinds2', REQ, [f'evaluate_full_circuit {ct.circuit(d2)} []'])[0]
show('2 evaluate_full_circuit, AND() popped first, users[n] = [ghost]', impl, model)

# 3
base = {'inputs': ['x'], 'outputs': [], 'gates': [('x', 'INPUT', [])], 'users': [], 'blocks': []}
other = {'inputs': ['x'], 'outputs': [], 'gates': [('x', 'INPUT', []), ('y', 'NOT', ['x'])],
         'users': [('x', ['y']), ('y', ['ghost'])], 'blocks': []}
cb = ct.build_circuit(base)
op = ('add_circuit', other, '', True)
impl = run_impl(lambda: ct.dump_circuit(gen.apply_op(cb, op, None)))
model = coq_eval('circ_errkinds3', REQ, [f'step {ct.circuit(base)} {gen.op_term(op)}'])[0]
show('3 add_circuit(other with users[y] = [ghost]), label x clashes', impl, model)
