from audit.common import *
"""Index / vector arguments beyond the generator's ranges, on the three classes: wrong-length vector together
with an out-of-range output index, empty vector, far out-of-range indices, output sets with out-of-range
members in different positions, long output sets."""
import math
from audit.func_util import *

T, F = True, False


def extra(n, m):
    qs = []
    for x in ([], [T] * max(n - 1, 0), [F] * (n + 1), [T] * (n + 3), [F] + [T] * n):
        qs.append(['evaluate', x])
        for j in (0, m - 1, m, m + 7):
            if j >= 0:
                qs.append(['evaluate_at', x, j])
    for j in (m, m + 7):
        qs += [['is_constant_at', j], ['is_monotone_at', j, T], ['is_symmetric_at', j], ['get_significant_inputs_of', j]]
        for i in (0, n, n + 1, n + 9):
            qs += [['is_dependent_on_input_at', j, i], ['is_output_equal_to_input', j, i],
                   ['is_output_equal_to_input_negation', j, i]]
    for i in (n + 2, n + 9):
        qs += [['is_dependent_on_input_at', 0, i], ['is_output_equal_to_input', 0, i],
               ['is_output_equal_to_input_negation', 0, i]]
    for o in ([m, 0], [0, m + 3], [0] * 5, list(range(m)) * 2, [m - 1, m - 1, 0], [m + 1]):
        qs.append(['find_negations_to_make_symmetric', o])
    return qs


if __name__ == '__main__':
    total = 0
    tables = [(0, [[T], [F]]), (1, [[F, T]]), (2, [[F, T, T, F], [F, F, F, T]]),
              (3, [[F, T, T, F, T, F, F, T], [F, F, F, T, F, T, T, T], [T, T, F, F, T, T, F, F]])]
    for k, (n, table) in enumerate(tables):
        m = len(table)
        reps = fc.build_reps(n, table)
        qs = extra(n, m)
        dump = ct.dump_circuit(reps['Circuit'])
        total += compare_queries(f'func_xq_c{k}', f'(Ok {ct.circuit(dump)})',
                                 '(fun c => run_query ClsCircuit (circ_rep_memo c))', reps['Circuit'], qs)
        total += compare_queries(f'func_xq_t{k}', f'(tt_make {fc.tbl(table)})', 'tt_query', reps['TruthTable'], qs)
        total += compare_queries(f'func_xq_p{k}', f'(py_make (table_callable {fc.tbl(table)}) {n} None)', 'py_query',
                                 reps['PyFunction'], qs)
    print('TOTAL differing queries:', total)
    # resolve_input_size: math.log2(len).is_integer() vs exact power-of-two test
    bad = [L for L in range(1, 1 << 21) if math.log2(L).is_integer() != (L & (L - 1) == 0)]
    print('lengths < 2^21 where float log2 disagrees with the exact test:', bad[:5], len(bad))
    print('2^53+1 (not constructible in practice): log2.is_integer() =', math.log2(2 ** 53 + 1).is_integer())
