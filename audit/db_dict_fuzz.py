"""Seeded differential run of read_binary_dict on hand-assembled images: REPEATED keys (later value wins, first position
kept), count field larger / smaller than the number of records, keys that are arbitrary bytes (valid / invalid UTF-8) in
multi-record images, cut / extended at random - none of which codeccorr.gen_case('dict') produces on purpose (its images come
from a Python dict, so keys never repeat; the UTF-8 probes are single-record).  Implementation vs Model/DictIO.v, exact."""
import random
import sys

from audit.db_util import *

KEYS = [b'', b'a', b'b', b'ab', b'\xc3\xa9', b'\xe2\x82\xac', b'\xf0\x9f\x98\x80', b'\xff', b'\xc3', b'\xed\xa0\x80', b'a\x00',
        b'\xef\xbb\xbf', b'\xc3\xa9a', b'\xf4\x8f\xbf\xbf', b'\xf4\x90\x80\x80', b'\xe0\xa0\x80', b'\xe0\x9f\xbf']


def image(rng):
    recs = []
    for _ in range(rng.randint(0, 6)):
        k = rng.choice(KEYS[:7]) if rng.random() < 0.8 else rng.choice(KEYS)
        recs.append((k, bytes(rng.randrange(256) for _ in range(rng.choice([0, 0, 1, 2, 5])))))
    count = len(recs) + rng.choice([0, 0, 0, 0, 1, -1, 2, 256])
    out = max(count, 0).to_bytes(8, 'big')
    for k, v in recs:
        out += len(k).to_bytes(2, 'big') + k + len(v).to_bytes(2, 'big') + v
    r = rng.random()
    if r < 0.15 and len(out) > 8:
        out = out[:rng.randrange(8, len(out))]
    elif r < 0.25:
        out += bytes(rng.randrange(256) for _ in range(rng.randint(1, 3)))
    return out


if __name__ == '__main__':
    seed = int(sys.argv[1]) if len(sys.argv) > 1 else 20260926
    n = int(sys.argv[2]) if len(sys.argv) > 2 else 60
    rng = random.Random(seed)
    cases = [{'kind': 'dict', 'entries': [], 'streams': [image(rng).hex() for _ in range(8)]} for _ in range(n)]
    res, _ = check_cases('db_dict_fuzz', 'dict', cases, [f'batch {i}' for i in range(n)])
    from collections import Counter
    h = Counter()
    for c in cases:
        for s in c['streams']:
            r = run_impl(lambda: cc.impl_read_dict(bytes.fromhex(s)))
            h['ok' if r[0] == 'ok' else r[1].split(' ')[0]] += 1
    print('read outcomes:', dict(h))
    print(f'{8 * n} images, {sum(not x for x in res)} disagreeing batches')
