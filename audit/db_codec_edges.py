"""Codec edge cases: hand-made circuits (incl. ill-formed internal states) through encode_circuit / decode_circuit,
implementation vs Model/Codec.v (exact: bytes, decoded circuit state, error kind)."""
from audit.db_util import *

I = lambda l: (l, 'INPUT', [])
CASES = []


def add(title, d, variants=()):
    CASES.append((title, {'kind': 'circuit', 'flavour': 'audit', 'circuit': d,
                          'variants': [bytes(v).hex() for v in variants]}))


add('empty circuit', dump([], [], []))
add('inputs only, no outputs', dump(['a', 'b'], [], [I('a'), I('b')]))
add('one input, output = input x3', dump(['a'], ['a', 'a', 'a'], [I('a')]))
add('empty label as input and gate', dump([''], ['n'], [I(''), ('n', 'NOT', [''])]))
add('NOT self loop', dump([], ['n'], [('n', 'NOT', ['n'])]))
add('NOT self loop, no outputs (word size 0)', dump([], [], [('n', 'NOT', ['n'])]))
add('const 0 operands alone no outputs (ws 0)', dump([], [], [('t', 'ALWAYS_TRUE', [])]))
add('two-gate cycle', dump(['a'], ['p'], [I('a'), ('p', 'AND', ['a', 'q']), ('q', 'NOT', ['p'])]))
add('operand missing', dump(['a'], ['p'], [I('a'), ('p', 'AND', ['a', 'zz'])]))
add('output missing', dump(['a'], ['zz'], [I('a'), ('p', 'NOT', ['a'])]))
add('INPUT gate not in inputs list, unused', dump(['a'], ['p'], [I('a'), I('b'), ('p', 'NOT', ['a'])]))
add('INPUT gate not in inputs list, used', dump(['a'], ['p'], [I('a'), I('b'), ('p', 'AND', ['a', 'b'])]))
add('INPUT gate not in inputs list as output', dump(['a'], ['b'], [I('a'), I('b')]))
add('inputs list names a non-INPUT gate', dump(['a', 'p'], ['p'], [I('a'), ('p', 'NOT', ['a'])]))
add('inputs list names a missing gate', dump(['a', 'zz'], ['a'], [I('a')]))
add('inputs list repeats a label', dump(['a', 'a'], ['p'], [I('a'), ('p', 'NOT', ['a'])]))
add('INPUT with operands', dump(['a', 'b'], ['b'], [I('a'), ('b', 'INPUT', ['a'])]))
add('unsupported type first, bad arity later', dump(['a', 'b'], [], [I('a'), I('b'), ('l', 'LNOT', ['a', 'b']),
                                                                     ('m', 'AND', ['a'])]))
add('bad arity first, unsupported later', dump(['a', 'b'], [], [I('a'), I('b'), ('m', 'AND', ['a']),
                                                                 ('l', 'LNOT', ['a', 'b'])]))
add('cycle AND unsupported type (which error first)', dump(['a'], [], [I('a'), ('l', 'LNOT', ['a', 'a']),
                                                                       ('p', 'NOT', ['p'])]))
add('unreachable gates', dump(['a', 'b'], ['a'], [I('a'), I('b'), ('u', 'XOR', ['a', 'b']), ('v', 'IFF', ['u'])]))
add('reverse storage order chain', dump(['a'], ['g3'], [('g3', 'NOT', ['g2']), ('g2', 'NOT', ['g1']),
                                                         ('g1', 'NOT', ['a']), I('a')]))
add('constants with two operands', dump(['a'], ['t', 'f'], [I('a'), ('t', 'ALWAYS_TRUE', ['a', 'a']),
                                                             ('f', 'ALWAYS_FALSE', ['t', 'a'])]))
add('IFF with 2 operands', dump(['a'], ['f'], [I('a'), ('f', 'IFF', ['a', 'a'])]))
add('NOT with 0 operands', dump(['a'], ['f'], [I('a'), ('f', 'NOT', [])]))
# boundaries of the word size: chains of n gates, many outputs
for n in (1, 2, 3, 4, 5, 7, 8, 9, 15, 16, 17, 31, 32, 33):
    gs = [I('a')] + [(f'g{i}', 'NOT', ['a' if i == 0 else f'g{i - 1}']) for i in range(n - 1)]
    add(f'chain, size {n}', dump(['a'], [gs[-1][0]], gs))
for k in (1, 2, 3, 4, 7, 8, 9, 16, 17):
    add(f'one input, {k} outputs', dump(['a'], ['a'] * k, [I('a')]))
for k in (2, 3, 4, 5, 8, 9):
    ins = [f'i{j}' for j in range(k)]
    add(f'{k} inputs only', dump(ins, [], [I(x) for x in ins]))
# decode of hand-made byte strings: word sizes 0 and above 8 with tiny counts, forward/self reference, bad type
for _v in [
    [], [0], [0, 255], [1], [1, 0], [1, 0b111], [9, 0, 0, 0, 0], [16, 2, 0, 1, 0, 1, 0, 0b00100001, 0, 0, 0, 0, 0],
    [255], [255, 0], [64] + [0] * 24, [64] + [0] * 23,
    [2, 0b00010101, 0b0000_0001, 0],      # ws=2: 1 input,1 output,1 gate: AND(0, 1) forward/self reference
    [2, 0b10010101, 0b0000_0011],         # type 14 (undefined)
    [2, 0b01010101, 0b0000_0000, 0],      # NOT of gate 0, output 1
    [2, 0b01010101, 0b1100_0000, 0],      # NOT of gate 0, output id 3 (absent)
    [1, 0b0000_0010],                     # ws=1: 0 inputs 1 output 0 gates: output gate_0 absent
    [3, 0b00001000, 0b0000_0000],         # ws=3: 0 inputs, 1 output... short
]:
    add(f'decode {_v}', dump([], [], []), variants=[_v])

if __name__ == '__main__':
    res, terms = check_cases('db_codec_edges', 'circuit', [c for _, c in CASES], [t for t, _ in CASES])
    print('all agree' if all(res) else 'DIVERGENCES PRESENT')
    from cirbo.circuits_db.circuits_encoding import encode_circuit, decode_circuit
    for (t, c) in CASES:
        r = run_impl(lambda: encode_circuit(ct.build_circuit(c['circuit'])))
        print(f'{t:55s} impl encode -> {r[1].hex() if r[0] == "ok" else r[1]}')
