from audit.common import *
"""two-digit gate indices (n + r > 10: variables s_10_1_2, labels 's10', '10' vs 's10') and get_cnf() aliasing.
Case 2 has 11 inputs (input label '10' next to gate 's11') with 3 live rows out of 2048.
The C06 generators stop at n <= 3, r <= 4 (gate indices 0..6)."""
import random

from harness import searchcorr as sc

PRE = ('Require Import Cirbo.Model.Gate Cirbo.Model.Circuit Cirbo.Model.History Cirbo.Model.Search '
       'Cirbo.Model.SearchCircuit Cirbo.Model.SearchCases Cirbo.Generated.SearchTables.\n')
CASES = [
    {'tt': ['0110', '1*00'], 'r': 10, 'basis': {'kind': 'enum', 'name': 'XAIG'}, 'norm': False,
     'pre': [['fix', 11, 3, 10, 'AND'], ['forbid', 1, 10]], 'post': [['fix', 10, None, 9, None]]},
    {'tt': ['*' * 2045 + '010'], 'r': 1, 'basis': {'kind': 'enum', 'name': 'AIG'}, 'norm': True, 'pre': [['fix', 11, 0, 10, None]], 'post': []},
]


def main():
    from cirbo.synthesis import circuit_search as cs
    rng = random.Random(5)
    terms = []
    for case in CASES:
        t, n = sc.cnf_case_term(case)
        terms.append(f'check_cnf_case {t}')
        print('clauses:', n)
        f = sc.make_finder(case)
        shape = sc.shape_of(case)
        models = sc.model_lists(rng, f, 2)
        if case['r'] == 10:
            m = cs._solve_cnf('cadical195', f.get_cnf())
            if m is not None:
                models.append(('solver', m))
        for kind, m in models:
            t, res = sc.decode_case_term(case, sc.make_finder(case), m, lambda c: shape.check(c) is None)
            print('  decode', kind, res)
            terms.append(f'check_decode_case {t}')
    outs = coq_eval('sat_search_bigidx', [], terms, prelude=PRE, timeout=1500)
    print('two-digit indices, all checks agree:', [strip_type(o) for o in outs])
    # aliasing: get_cnf() hands out the finder's own clause list
    from cirbo.core.truth_table import TruthTableModel
    f = cs.CircuitFinderSat(TruthTableModel(['0110']), 1)
    f.get_cnf().append([])
    print('get_cnf().append([]) then find_circuit():', run_impl(lambda: f.find_circuit())[1][:40],
          '(the model has no such channel: encode is a pure function of the spec)')


if __name__ == '__main__':
    main()
