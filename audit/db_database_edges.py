"""CircuitsDatabase add_circuit / save / open / get_by_label edge cases vs Model/Db.v (explicit labels):
duplicate label AND unencodable circuit (which error first), label / value beyond the 2-byte length fields at save time,
empty label, non-ASCII label whose byte length crosses the limit."""
import resource
from audit.db_util import *

try:
    resource.setrlimit(resource.RLIMIT_STACK, (resource.RLIM_INFINITY, resource.RLIM_INFINITY))
except (ValueError, OSError):
    pass

I = lambda l: (l, 'INPUT', [])
OK1 = dump(['a'], ['a'], [I('a')])
BAD = dump(['a'], ['g'], [I('a'), ('g', 'AND', ['a'])])                 # arity outside the format
CYC = dump(['a'], ['p'], [I('a'), ('p', 'NOT', ['p'])])
# an encodable circuit whose image is longer than 65535 bytes: one input, 2^19 outputs -> ws = 20, > 1.3 MB ... too big
# for a Coq literal; 30000 outputs -> ws 15, 15*30000/8 = 56 KB (fits), 40000 outputs -> ws 16, 80 KB (does not fit)
FITS = dump(['a'], ['a'] * 30000, [I('a')])
TOO_BIG = dump(['a'], ['a'] * 40000, [I('a')])

CASES = [
    ('duplicate label with unencodable circuit: CircuitsDatabaseError first',
     {'kind': 'db', 'adds': [['k', OK1], ['k', BAD], ['k', CYC], ['m', BAD], ['n', CYC], ['', OK1], ['', OK1]],
      'gets': ['k', 'm', 'n', '', 'zz']}),
    ('label of 65535 bytes saves', {'kind': 'db', 'adds': [['a' * 65535, OK1]], 'gets': ['a' * 65535, 'a']}),
    ('label of 65536 bytes: save raises OverflowError', {'kind': 'db', 'adds': [['k', OK1], ['a' * 65536, OK1]], 'gets': []}),
    ('label of 32768 two-byte characters: save raises', {'kind': 'db', 'adds': [['é' * 32768, OK1]], 'gets': []}),
    ('value of 56 KB saves', {'kind': 'db', 'adds': [['big', FITS]], 'gets': []}),
    ('value of 80 KB: save raises', {'kind': 'db', 'adds': [['big', TOO_BIG]], 'gets': []}),
]

if __name__ == '__main__':
    res, _ = check_cases('db_database_edges', 'db', [c for _, c in CASES], [t for t, _ in CASES])
    print('all agree' if all(res) else 'DIVERGENCES PRESENT')
