"""Class C candidate for C02 (model and implementation AGREE; the property fails on the implementation):
emplace_gate accepts a comparison-like gate (LT LEQ GT GEQ LIFF RIFF LNOT RNOT) with three operands, into_bench then
returns normally and leaves a stale entry in the users index.  The theorems exclude it by the op_ok hypothesis
"<= 2 operands" (Proofs/WFBench.v cex_ternary_breaks), but it is neither in known_findings.json nor produced by any
generator (gen.random_gate gives BINARY types exactly 2 operands), so the C02 oracle never reports it."""
from audit.common import *
from harness import gen, wforacle
from cirbo.core.circuit import Circuit, gate as G

c = Circuit()
c.add_inputs(['a', 'b'])
c.emplace_gate('g', G.RNOT, ('a', 'b', 'a'))
d0 = ct.dump_circuit(c)
print('before   :', d0, '| WF violation:', wforacle.wf_violation(c))
c.into_bench()
d1 = ct.dump_circuit(c)
print('after    :', d1)
print('WF oracle:', wforacle.wf_violation(c))
REQ = ['Cirbo.Model.Gate', 'Cirbo.Model.Circuit', 'Cirbo.Model.Connect', 'Cirbo.Model.History', 'Cirbo.Model.WF']
out = coq_eval('circ_into_bench_ternary', REQ,
               [f'res_eqb circuit_eqb (step {ct.circuit(d0)} (OpIntoBench [])) (Ok {ct.circuit(d1)})',
                f'wfb {ct.circuit(d0)}', f'wfb {ct.circuit(d1)}'])
print('model == impl:', out[0], '| wfb before:', out[1], '| wfb after:', out[2])
