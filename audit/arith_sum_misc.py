from audit.common import *
"""Remaining edge inputs of the C07 generators: shift far beyond the width, shift 0, widths 0/1, the
same label list for both operands, the empty string as operand label (filter(None, .) of
add_sum_pow2_m1), operands that are not inputs, a large uuid start, basis error vs. other errors
(which comes first), cells with the wrong arity."""
from audit.arith_lib import check_sum, check_sum_gen, report, sc


def host(labels, extra=()):
    gates = [(l, 'INPUT', []) for l in labels] + list(extra)
    users = {}
    for l, t, ops in gates:
        for o in ops:
            users.setdefault(o, []).append(l)
    return {'inputs': list(labels), 'outputs': ['g'], 'gates': gates, 'users': list(users.items()), 'blocks': []}


H = host(['a', 'b', 'c', ''], [('g', 'AND', ['a', 'b']), ('k', 'ALWAYS_TRUE', []), ('o', 'NOT', [''])])
X, A = ['enum', 'XAIG'], ['enum', 'AIG']
BAD = ['str', 'nope']
calls = [
    ['shift', 50, ['a'], ['b', 'c'], False], ['shift', 50, ['a', 'g'], ['b'], True], ['shift', 0, ['a'], ['b', 'c', 'g'], True],
    ['shift', 0, ['a', 'b', 'c'], ['g'], True], ['shift', 2, ['a', 'b', 'c'], ['g', 'k', 'o', ''], True],
    ['shift', 1, ['a', 'a'], ['a', 'a'], False], ['shift', 3, ['', ''], [''], False], ['shift', 1, ['a'], ['b'], True],
    ['shift', 7, [], [], True], ['shift', 0, ['a'], [], True], ['shift', 1, ['a'], [], True], ['shift', 1, ['nope'], ['a'], False],
    ['shift', 2, ['nope'], ['a'], False], ['shift', 0, ['nope'], [], False],
    ['sum2', ['a', 'a', 'a'], ['a'], True], ['sum2', [''], ['', '', ''], False], ['sum2', ['nope'], [], False],
    ['sum2', [], ['nope'], False], ['sum2', ['a', 'nope'], ['b'], False],
    ['pow2', X, False, ['', 'a']], ['pow2', A, True, ['', '', '', 'a', '']], ['pow2', X, True, ['a'] * 9],
    ['pow2', A, False, ['']], ['pow2', BAD, True, ['']], ['pow2', BAD, True, []], ['pow2', BAD, True, ['nope', 'nope']],
    ['pow2', X, True, ['nope']], ['pow2', X, True, ['a', 'b', 'nope']],
    ['nbits', BAD, True, ['nope']], ['nbits', X, True, ['nope']], ['nbits', A, True, ['nope']], ['nbits', X, False, ['']],
    ['nbits', X, False, ['a'] * 11], ['nbits', A, True, ['', 'o', 'k', 'g', '']], ['easy', True, ['nope']],
    ['easy', True, ['', 'o', 'k', 'g', '', 'a', 'a']],
    ['weighted', BAD, []], ['naive', BAD, []], ['weighted', BAD, [[0, 'nope']]], ['weighted', X, [[0, 'nope']]],
    ['weighted', A, [[0, 'nope']]], ['naive', X, [[3, 'nope']]], ['weighted', X, [[0, 'nope'], [5, 'nope2']]],
    ['weighted', X, [[0, ''], [0, ''], [0, 'o'], [1, '']]], ['naive', A, [[0, ''], [0, ''], [0, 'o'], [1, '']]],
    ['cell', 'add_mdfa', ['a'] * 5], ['cell', 'add_mdfa', []], ['cell', 'add_sum3', ['nope', 'a', 'b']],
    ['cell', 'add_sum3', ['nope', 'a']], ['cell', 'add_simplified_mdfa', ['', '', '', '']],
]
cases = [{'host': H, 'k0': k0, 'call': c} for c in calls for k0 in (1, 4000)]
report(check_sum('arith_sum_misc', cases))
gens = [['gnbits', 0, BAD, True], ['gnbits', 1, BAD, True], ['gnbits', 1, A, True], ['gweighted', [], BAD], ['gnaive', [], A],
        ['gweighted', [7], X], ['gnaive', [10 ** 9, 0], ['str', 'AiG']], ['gnbits', 33, ['str', 'xAIg'], True]]
report(check_sum_gen('arith_sum_misc_gen', [{'gen': g, 'k0': 1} for g in gens]))
