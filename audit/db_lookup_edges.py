"""normalization.py / db.py edge cases, implementation vs Model/Db.v.
Tables are handed to the implementation in the RAW python shapes given here (tuples, ints, nested tuples), the model
gets the corresponding list (list bool)."""
import copy
import io

from audit.db_util import *
from cirbo.circuits_db.circuits_encoding import encode_circuit
from cirbo.circuits_db.db import CircuitsDatabase
from cirbo.circuits_db.normalization import NormalizationInfo
from cirbo.core.logic import DontCare
from cirbo.core.circuit import gate as G

I = lambda l: (l, 'INPUT', [])


def enc(d):
    return encode_circuit(ct.build_circuit(d))


# a few stored circuits (1 and 2 inputs)
ID1 = enc(dump(['a'], ['a'], [I('a')]))                                            # "01"
ZERO1 = enc(dump(['a'], ['z'], [I('a'), ('n', 'NOT', ['a']), ('z', 'AND', ['a', 'n'])]))   # "00"
ZERO1_BIG = enc(dump(['a'], ['z'], [I('a'), ('n', 'NOT', ['a']), ('z', 'AND', ['a', 'n']), ('u', 'OR', ['a', 'n'])]))
AND2 = enc(dump(['a', 'b'], ['g'], [I('a'), I('b'), ('g', 'AND', ['a', 'b'])]))   # "0001"
XOR2 = enc(dump(['a', 'b'], ['g'], [I('a'), I('b'), ('g', 'XOR', ['a', 'b'])]))   # "0110"
AND_XOR = enc(dump(['a', 'b'], ['g', 'h'], [I('a'), I('b'), ('g', 'AND', ['a', 'b']), ('h', 'XOR', ['a', 'b'])]))
TWO_OUT_SAME = enc(dump(['a', 'b'], ['g', 'g', 'a'], [I('a'), I('b'), ('g', 'AND', ['a', 'b'])]))
NO_OUT = enc(dump(['a', 'b'], [], [I('a'), I('b')]))


def make_db(entries):
    db = CircuitsDatabase()
    db.open()
    db._dict = dict(entries)
    return db


def entries_term(entries):
    return cc.entries_term([(list(k.encode()), list(v)) for k, v in entries])


def as_bool_table(raw):
    return [[bool(x) for x in row] for row in raw]


def norm_term(raw):
    def go():
        ni = NormalizationInfo(raw)
        return (ni.negations, ni.permutation, ni.mapping, ni.truth_table)
    r = cc.call(go)
    okf = lambda v: (f'({cc.bools(v[0])}, {ct.lst(str(x) + "%nat" for x in v[1])}, '
                     f'{ct.lst(str(x) + "%nat" for x in v[2])}, {cc.table_term(v[3])})')
    return f'check_norm_case (({cc.table_term(as_bool_table(raw))}, {cc.res(r, okf)}) : norm_case)', r


def lookup_term(entries, raw):
    db = make_db(entries)
    r = cc.call(lambda: db.get_by_raw_truth_table(raw), lambda c: None if c is None else ct.dump_circuit(c))
    return (f'check_lookup_case (({entries_term(entries)}, {cc.table_term(as_bool_table(raw))}, '
            f'{cc.dbres(r, lambda v: ct.opt(v, ct.circuit))}) : lookup_case)'), r


def model_lookup_term(entries, raw, excl, model_tm=None):
    """raw: python table with DontCare; model_tm: table with None for don't care (default: derived from raw by identity)"""
    db = make_db(entries)
    if model_tm is None:
        model_tm = [[None if x is DontCare else bool(x) for x in row] for row in raw]
    ex = None if excl is None else [getattr(G, n) for n in excl]
    r = cc.call(lambda: db.get_by_raw_truth_table_model(raw, ex), lambda c: None if c is None else ct.dump_circuit(c))
    return (f'check_model_lookup_case (({entries_term(entries)}, {cc.model_table_term(model_tm)}, '
            f'{ct.opt(excl, lambda e: ct.lst(e))}, {cc.dbres(r, lambda v: ct.opt(v, ct.circuit))}) : model_lookup_case)'), r


TERMS, TITLES, IMPL = [], [], []


def add(title, tr):
    TERMS.append(tr[0])
    TITLES.append(title)
    IMPL.append(tr[1])


# ---- normalisation
for raw in ([], [[]], [[], [1]], [[1], []], [[0, 1], [0]], [[0], [0, 1]], [[1, 0], [0]], [[1, 0], [1]], [[0, 1], [1, 0]],
            [[1, 1], [0, 0], [1, 1], [0, 0], [0, 1]], ((0, 1), (1, 0)), ([0, 1], (0, 1)), ((True, False), [True, False]),
            [(1, 0, 1), [0, 1, 0], (False, True, False)], [[0]], [[1]], [[1], [0]], [[0, 0, 1, 1], [0, 0, 1], [0, 0, 1, 0]],
            [[1, 1, 0, 0], [1, 1, 0], [0, 0, 1, 1, 0]]):
    add(f'normalise {raw!r}', norm_term(raw))

# ---- fully defined lookups
DB1 = [('01', ID1), ('00', ZERO1)]
DB2 = [('0001', AND2), ('0110', XOR2), ('0001_0110', AND_XOR)]
for entries, raw in [
        (DB1, [[1, 0]]), (DB1, [(1, 0), (0, 1), [1, 0]]), (DB1, [[0, 1], [1, 0], [0, 1], [1, 0]]), (DB1, [[1, 1]]),
        (DB1, [[0, 0], [1, 1], [0, 1]]), (DB1, ((0, 1),)), (DB1, []), (DB1, [[]]), (DB1, [[0, 1], []]),
        (DB2, [[1, 0, 0, 1], [1, 1, 1, 0], (0, 0, 0, 1)]), (DB2, [[0, 1, 1, 0], [0, 0, 0, 1]]),
        (DB2, [[0, 0, 0, 1], [0, 1, 1, 0], [0, 0, 0, 1], [1, 0, 0, 1]]),
        # stored circuit with the wrong number of outputs for its key (fewer / more / none)
        ([('0001_0110', AND2)], [[0, 0, 0, 1], [0, 1, 1, 0]]), ([('0001', AND_XOR)], [[1, 1, 1, 0]]),
        ([('0001', TWO_OUT_SAME)], [[1, 1, 1, 0]]), ([('0001_0110', TWO_OUT_SAME)], [[1, 0, 0, 1], [1, 1, 1, 0]]),
        ([('0001', NO_OUT)], [[0, 0, 0, 1]]), ([('0001', b'')], [[0, 0, 0, 1]]), ([('0001', b'\x02')], [[0, 0, 0, 1]]),
        # ragged tables
        ([('0001_01', AND2)], [[0, 0, 0, 1], [0, 1]]), ([('01_0001', AND_XOR)], [[0, 0, 0, 1], [1, 0]]),
        # key of the empty-row table
        ([('', ID1)], [[]]), ([('_', ID1)], [[], []]),
]:
    add(f'lookup {raw!r} in {[k for k, _ in entries]}', lookup_term(entries, raw))

# ---- lookups with don't-cares
X = DontCare
DB3 = [('01', ID1), ('00', ZERO1_BIG)]
DB4 = [('00', ZERO1), ('01', ID1)]
for entries, raw, excl in [
        (DB1, [], None), (DB1, [[]], None), (DB1, [[X]], None), (DB1, [[X, X]], None), (DB1, [[0, X]], None),
        (DB1, [[0, X]], []), (DB1, [[0, X]], ['INPUT']), (DB1, [[0, X]], ['AND', 'AND', 'NOT']), (DB3, [[0, X]], []),
        (DB4, [[X, X]], ['INPUT', 'NOT', 'AND']), (DB1, [(0, X), (X, 1)], None), (DB1, [[X, 0], [X, X]], []),
        (DB1, ((X, 1), [1, X]), None), (DB2, [[X, X, X, 1], [0, X, X, 0]], None), (DB2, [[X, X, X, X]], []),
        (DB1, [[0, X], []], None), (DB1, [[X], [0, 1]], None),
        ([('00', b'\x07')], [[0, X]], None), ([('01', b'\x07'), ('00', ZERO1)], [[0, X]], None),
]:
    add(f'model lookup {raw!r} excl={excl} in {[k for k, _ in entries]}', model_lookup_term(entries, raw, excl))

# a DontCare that is not THE DontCare object (copy.deepcopy / pickle of a table): `val in [DontCare, False]` is true
# (== by isinstance) but `value is not DontCare` too, so the cell is silently treated as a defined False.
# The model is given the table the caller means (None = don't care).
FOREIGN = copy.deepcopy(DontCare)
add('model lookup with a deep-copied DontCare [[1, X]] (model gets None)',
    model_lookup_term(DB1, [[True, FOREIGN]], None, model_tm=[[True, None]]))
add('model lookup with a deep-copied DontCare [[1, X]] in [00] only (model gets None)',
    model_lookup_term([('00', ZERO1)], [[True, FOREIGN]], None, model_tm=[[True, None]]))
add('model lookup with THE DontCare [[1, X]] in [00] only',
    model_lookup_term([('00', ZERO1)], [[True, DontCare]], None))

if __name__ == '__main__':
    outs = coq_eval('db_lookup_edges', REQ, TERMS)
    bad = 0
    for t, o, r in zip(TITLES, outs, IMPL):
        ok = strip_type(o) == 'true'
        bad += not ok
        rr = r[1] if r[0] == 'err' else ('ok' if not isinstance(r[1], dict) else f"ok outputs={r[1]['outputs']}")
        print(('SAME      ' if ok else 'DIFFERENT ') + t.replace('<cirbo.core.logic._DontCare object at ', '<X ')[:110] + '   impl: ' + str(rr)[:90])
    print('all agree' if not bad else f'{bad} DIVERGENCES')
    print('FOREIGN is DontCare:', FOREIGN is DontCare, ' FOREIGN == DontCare:', FOREIGN == DontCare)
