from audit.common import *
"""Differential fuzz of the C09 generators with odd label alphabets ('' , prefixes of each other,
'new', 'new_', case variants), operands drawn with repetition from inputs and internal gates, unequal
widths, caller-chosen result labels that clash with operands / each other / the upcoming uuid labels.
(Labels of the shape n[01]* are avoided: harness.arithcorr renames the uuid labels to that shape.)
Usage: python -m audit.arith_fuzz_c09 [seed] [count]"""
import random
import sys
from audit.arith_lib import check_arith, report, ac

seed = int(sys.argv[1]) if len(sys.argv) > 1 else 1
count = int(sys.argv[2]) if len(sys.argv) > 2 else 300
rng = random.Random(seed)
ALPHA = ['', ' ', 'a', 'A', 'aa', 'a0', 'a00', 'm', 'ne', 'new', 'new_', 'new_z', 'new_0', 'o', 'z', 'Z',
         '~', '!', '0', '00', '1', '10', '9', 'x9', 'x10', 'inf_label', '_PLACEHOLDER_STR_', 'r0', 'r1', '_']
T2 = ['AND', 'OR', 'XOR', 'NAND', 'NOR', 'NXOR', 'GT', 'LT', 'GEQ', 'LEQ']


def mk_host(k0):
    labs = rng.sample(ALPHA, rng.randint(1, len(ALPHA)))
    if rng.random() < 0.3:
        labs += [ac.impl_label(k0 + rng.randint(0, 5)) for _ in range(rng.randint(1, 3))]
        labs = list(dict.fromkeys(labs))
    n_in = rng.randint(1, max(1, len(labs) // 2))
    gates = [(l, 'INPUT', []) for l in labs[:n_in]]
    for l in labs[n_in:]:
        prev = [g[0] for g in gates]
        r = rng.random()
        if r < 0.1:
            gates.append((l, rng.choice(['ALWAYS_TRUE', 'ALWAYS_FALSE']), []))
        elif r < 0.25:
            gates.append((l, rng.choice(['NOT', 'IFF']), [rng.choice(prev)]))
        else:
            gates.append((l, rng.choice(T2), [rng.choice(prev), rng.choice(prev)]))
    users = {}
    for l, t, ops in gates:
        for o in ops:
            users.setdefault(o, []).append(l)
    outs = [rng.choice(labs) for _ in range(rng.randint(0, 2))]
    return {'inputs': labs[:n_in], 'outputs': outs, 'gates': gates, 'users': list(users.items()), 'blocks': []}


def results(labs, n, k0):
    if rng.random() < 0.3:
        return None
    pool = ['r0', 'r1', 'r2', 'r3', 'r4', 'r5', 'r6', 'q', ''] + [ac.impl_label(k0 + i) for i in range(8)]
    rl = rng.sample(pool, min(n, len(pool)))
    r = rng.random()
    if rl and r < 0.15:
        rl[rng.randrange(len(rl))] = rng.choice(labs)
    elif len(rl) > 1 and r < 0.3:
        rl[-1] = rl[0]
    elif r < 0.4:
        rl = rl[:-1] if rng.random() < 0.5 else rl + ['extra']
    return rl


cases = []
for _ in range(count):
    k0 = rng.choice([1, 2, 3, 17, 256, 4095])
    h = mk_host(k0)
    labs = [g[0] for g in h['gates']]
    pick = lambda k: [rng.choice(labs) for _ in range(k)]   # noqa: E731
    be = rng.random() < 0.5
    ao = rng.random() < 0.5
    kind = rng.choice(['sub', 'subcmp', 'divmod', 'sqrt', 'equal', 'plusone', 'plusone', 'ite', 'pite', 'pxor'])
    w = rng.choice([1, 1, 2, 3, 4, 5, 6, 7])
    if kind in ('sub', 'subcmp'):
        call = [kind, pick(w), pick(rng.randint(1, 8)), be]
    elif kind == 'divmod':
        call = [kind, pick(w), pick(w if rng.random() < 0.9 else w + 1), be]
    elif kind == 'sqrt':
        call = [kind, pick(w), be]
    elif kind == 'equal':
        call = [kind, pick(w), rng.choice([rng.randint(-3, (1 << w) + 3), rng.randint(0, (1 << w) - 1), 2 ** 80])]
    elif kind == 'plusone':
        call = [kind, pick(w), results(labs, rng.randint(0, w + 3), k0), ao, be]
    elif kind == 'ite':
        r = results(labs, 1, k0)
        call = [kind] + pick(3) + [r[0] if r else None, ao]
    elif kind == 'pite':
        call = [kind, pick(w), pick(w), pick(w if rng.random() < 0.9 else w + 1), results(labs, w, k0), ao]
    else:
        call = [kind, pick(w), pick(w if rng.random() < 0.9 else w - 1), results(labs, w, k0), ao]
    cases.append({'host': h, 'k0': k0, 'call': call})
rows = check_arith(f'arith_fuzz_c09_{seed}', cases, summaries=False)
report(rows, what=lambda c: c['call'])
