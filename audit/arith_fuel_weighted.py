from audit.common import *
"""Fuel S (length inp) of naive_loop / eff_loop at larger n: a ripple chain [0, 0, 1, 2, ..., n-2] needs
exactly n iterations (one result bit per level, levels 0 .. n-1), the maximum possible (every iteration
removes at least one pending bit).  Also n equal weights and a sparse vector with huge gaps."""
import sys
from audit.arith_lib import check_sum, report, ac

NS = [int(x) for x in sys.argv[1:]] or [100, 130]
cases = []
for n in NS:
    h = ac.bare_host(n)
    xs = list(h['inputs'])
    for ws, tag in (([0, 0] + list(range(1, n - 1)), 'ripple'), ([3] * n, 'equal'),
                    ([(i // 2) * 10 ** 6 for i in range(n)], 'gaps')):
        for kind, b in (('weighted', ['enum', 'XAIG']), ('weighted', ['enum', 'AIG']), ('naive', ['enum', 'XAIG'])):
            cases.append({'host': h, 'k0': 1, 'call': [kind, b, [[w, l] for w, l in zip(ws, xs)]], 'tag': (tag, n)})
report(check_sum('arith_fuel_weighted', cases, summaries=False), what=lambda c: (c['tag'], c['call'][0], c['call'][1][1]))
