"""Wider differential fuzz of from_bench_string / from_bench_file against Bench.parse_bench: mutations of canonical and
layout texts with an alphabet the harness mutator (benchcorr.mutate_text) does not use (control characters, 0x80-0xff,
multiple mutations per text, line-level splicing between two circuits).
Run:  cd /root/wt/audit && /venv/bin/python -m audit.bench_fuzz [seed] [n]"""
from audit.bench_lib import *  # noqa: F401,F403
import random
import sys

CH = [' ', ' ', '\t', '\r', '\n', '\n', '=', '(', ')', ',', '#', '\x0b', '\x0c', '\x1c', '\x85', '\xa0', '\xdf', '\xe9',
      '\x00', 'a', 'I', 'i', 'v', 'V', 'd', 'D', '_', '0']
FRAG = ['INPUT', 'input', 'OUTPUT', 'Output', 'vdd', 'VDD', 'gnd', 'BUFF', 'buff', 'NOT', 'ALWAYS_TRUE', 'always_false', '()',
        '( )', '(,)', ', ', ' = ', '==', '\r\n', '\n\n', 'INPUT()', 'OUTPUT()', ' # c', '#', 'x = vdd', 'q = NOT(q)']


def mutate(rng, text):
    for _ in range(rng.randint(1, 5)):
        pos = rng.randrange(len(text) + 1)
        m = rng.random()
        if m < 0.35:
            text = text[:pos] + rng.choice(CH) + text[pos:]
        elif m < 0.55:
            text = text[:pos] + rng.choice(FRAG) + text[pos:]
        elif m < 0.75:
            end = min(len(text), pos + rng.randint(1, 3))
            text = text[:pos] + text[end:]
        elif m < 0.85 and text:
            pos = rng.randrange(len(text))
            text = text[:pos] + rng.choice(CH) + text[pos + 1:]
        else:
            ls = text.split('\n')
            i, j = rng.randrange(len(ls)), rng.randrange(len(ls))
            k = rng.random()
            if k < 0.4:
                ls[i], ls[j] = ls[j], ls[i]
            elif k < 0.7:
                ls.insert(i, ls[j])
            else:
                ls[i] = ls[i] + ls[j]
            text = '\n'.join(ls)
    return text


def main():
    seed = int(sys.argv[1]) if len(sys.argv) > 1 else 7
    n = int(sys.argv[2]) if len(sys.argv) > 2 else 1500
    rng = random.Random(seed)
    texts = []
    prev = 'INPUT(a)\n\nx = NOT(a)\n\nOUTPUT(x)'
    for i in range(n):
        d = bc.random_bench_circuit(rng, bad_label_p=0.1 if i % 3 == 0 else 0.0, max_gates=rng.choice([3, 6, 12, 40]))
        t = ct.build_circuit(d).format_circuit()
        if bc.bench_ok(d) and rng.random() < 0.5:
            its, fin = bc.layout_of(rng, d)
            t = bc.print_items(its, fin)
        if rng.random() < 0.2:                      # splice lines of two circuits (duplicate / conflicting definitions)
            a, b = t.split('\n'), prev.split('\n')
            rng.shuffle(b)
            t = '\n'.join(a + b[:rng.randint(1, len(b))])
        prev = t
        texts.append(mutate(rng, t))
    total = []
    half = len(texts) // 2
    total += compare_texts(f'bench_fuzz_s{seed}', texts[:half], via_file=False, verbose=True)
    total += compare_texts(f'bench_fuzz_f{seed}', texts[half:], via_file=True, verbose=True)
    kinds = {}
    with bc.TempDir() as tmp:
        for t in texts:
            r = bc.run_parse(t, False, tmp)
            kinds[r[1] if r[0] == 'err' else 'ok'] = kinds.get(r[1] if r[0] == 'err' else 'ok', 0) + 1
    print('result kinds:', kinds)
    print('TOTAL differing:', len(total))


if __name__ == '__main__':
    main()
