"""binary_dict_io edge cases, implementation vs Model/DictIO.v (exact bytes / dictionaries / error kinds)."""
import resource
from audit.db_util import *

# 65535-element list literals overflow coqc's default stack while parsing
try:
    resource.setrlimit(resource.RLIMIT_STACK, (resource.RLIM_INFINITY, resource.RLIM_INFINITY))
except (ValueError, OSError):
    pass


def img(entries, count=None):
    out = (len(entries) if count is None else count).to_bytes(8, 'big')
    for kb, v in entries:
        out += len(kb).to_bytes(2, 'big') + kb + len(v).to_bytes(2, 'big') + v
    return out


CASES = []


def add(title, entries, streams=()):
    CASES.append((title, {'kind': 'dict', 'entries': [[k, v.hex()] for k, v in entries],
                          'streams': [s.hex() for s in streams]}))


add('empty dict', [])
add('empty key, empty value', [('', b'')])
add('key of 65535 ASCII bytes', [('a' * 65535, b'x')])
add('key of 65536 ASCII bytes (OverflowError)', [('a' * 65536, b'x')])
add('key of 32768 two-byte chars = 65536 bytes, 32768 characters', [('é' * 32768, b'x')])
add('key of 32767 two-byte chars + 1 ascii = 65535 bytes', [('é' * 32767 + 'a', b'x')])
add('value of 65535 bytes', [('k', b'\x01' * 65535)])
add('value of 65536 bytes (OverflowError) after a good entry', [('ok', b'1'), ('k', b'\x01' * 65536)])
add('key too long AND value too long', [('a' * 65536, b'\x01' * 65536)])
add('NUL / newline / BOM / U+10FFFF keys', [('\x00', b''), ('\n', b'\n'), ('﻿', b'b'), ('\U0010ffff', b'c'),
                                           ('﻿a', b''), ('é', b'nfd'), ('é', b'nfc')])
# reading
add('read: duplicate keys (later wins, first position kept), trailing garbage, truncations', [], streams=[
    img([(b'a', b'1'), (b'b', b'2'), (b'a', b'3')]),
    img([(b'a', b'1'), (b'a', b'')]),
    img([(b'', b'1'), (b'', b'2')]),
    img([(b'a', b'1')], count=2),                    # announces more entries than there are
    img([(b'a', b'1'), (b'b', b'2')], count=1),      # fewer: trailing data
    img([], count=0) + b'\x00',
    img([], count=2 ** 16 + 5),                      # big count, no data
    b'', b'\x00' * 7, b'\x00' * 8, b'\x00' * 9,
    img([(b'\xff', b'1')]),                          # invalid UTF-8
    img([(b'\xc3', b'')]),                           # truncated sequence inside the key
    img([(b'\xed\xa0\x80', b'')]),                   # surrogate
    img([(b'\xf4\x90\x80\x80', b'')]),               # > U+10FFFF
    img([(b'\xc0\x80', b'')]),                       # overlong
    img([(b'\xe0\x9f\xbf', b'')]),                   # overlong 3
    img([(b'\xf0\x8f\xbf\xbf', b'')]),               # overlong 4
    img([(b'\xef\xbb\xbfa', b'')]),                  # BOM kept
    img([(b'\xff', b'1')])[:-1],                     # invalid key AND truncated value: which error first
    img([(b'\xff', b'1')])[:11],                     # invalid key, value length field missing
    (1).to_bytes(8, 'big') + b'\x00\x05ab',          # key shorter than announced
    (1).to_bytes(8, 'big') + b'\x00\x01a\x00\x05ab',  # value shorter than announced
    (1).to_bytes(8, 'big') + b'\x00',                # key length field cut
    (1).to_bytes(8, 'big') + b'\x00\x01a\x00',       # value length field cut
])

if __name__ == '__main__':
    res, terms = check_cases('db_dict_edges', 'dict', [c for _, c in CASES], [t for t, _ in CASES])
    print('all agree' if all(res) else 'DIVERGENCES PRESENT')
    for t, c in CASES:
        d = cc.case_dict(c)
        r = run_impl(lambda: cc.impl_write_dict(d))
        print(f'{t[:60]:60s} write -> {("%d bytes" % len(r[1])) if r[0] == "ok" else r[1]}')
    for s in CASES[-1][1]['streams']:
        b = bytes.fromhex(s)
        r = run_impl(lambda: cc.impl_read_dict(b))
        print(f'  read {b[:24].hex()}{"..." if len(b) > 24 else ""} -> {r[1]}')
    # outside the model's key type (a Coq string of UTF-8 bytes): a str with a lone surrogate cannot be encoded
    import io
    from cirbo.circuits_db.binary_dict_io import write_binary_dict
    s = io.BytesIO()
    r = run_impl(lambda: write_binary_dict({'ok': b'1', '\ud800': b''}, s))
    print("impl write_binary_dict({'ok': b'1', '\\ud800': b''}) ->", r[1], '| bytes already written to the stream:',
          len(s.getvalue()), '| model: no value of type `label` corresponds to the key')
    for title, d in [('key of 65536 bytes after a good entry', {'ok': b'1', 'a' * 65536: b''}),
                     ('value of 65536 bytes first', {'k': b'\x01' * 65536})]:
        s = io.BytesIO()
        r = run_impl(lambda: write_binary_dict(d, s))
        print(f'impl {title}: {r[1][:40]} | bytes already written: {len(s.getvalue())} | model: Err PyValueError, no bytes')
