from audit.common import *
"""Non-ASCII operand labels in the weighted sums: Python orders the SortedLists by code point, the
model by the bytes of the Coq string (String.ltb).  With the UTF-8 encoding of the label as the Coq
string the two orders coincide (UTF-8 preserves code-point order); harness.coqterm.s refuses such
labels, so no generator produces them."""
from audit.arith_lib import check_sum, report, sc, ct

_s = ct.s


def s(x):
    if x.isascii():
        return _s(x)
    assert '"' not in x
    return '"' + x + '"'


ct.s = s
labs = ['é', 'z', 'ñ', '\U0001d4b3', 'ｚ', '~', 'é', 'zz', 'ÿ', 'Ā', '', '\U00010000']
h = {'inputs': labs, 'outputs': [], 'gates': [(l, 'INPUT', []) for l in labs], 'users': [], 'blocks': []}
cases = []
for ws in ([0] * len(labs), [i % 2 for i in range(len(labs))], [i // 5 for i in range(len(labs))]):
    for kind in ('weighted', 'naive'):
        for b in (['enum', 'XAIG'], ['enum', 'AIG']):
            cases.append({'host': h, 'k0': 1, 'call': [kind, b, [[w, l] for w, l in zip(ws, labs)]]})
report(check_sum('arith_weighted_unicode', cases, summaries=False), what=lambda c: (c['call'][0], c['call'][1]))
