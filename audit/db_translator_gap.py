"""Translator T8 (translator/t8_codec.py) is not fail-closed against module-level statements that change the tables AFTER the
dict literal it reads.  A scratch copy of the two source files is mutated; the translator is run on it with its writer
replaced by a capture (nothing under coq/Generated is touched); the generated text is compared with the committed one."""
import os
import pathlib
import shutil
import tempfile

ROOT = pathlib.Path(__file__).resolve().parent.parent
MUTATIONS = {
    'subscript assignment after the literal':
        "\n_gate_type_to_int[gate.LNOT] = 14\n",
    'update() after the literal (changes the code of AND, inverse table already computed)':
        "\n_gate_type_to_int.update({gate.AND: 2})\n",
    'del after the literal':
        "\ndel _gate_type_to_int[gate.XOR]\n",
    '_get_arity rebound after its definition':
        "\n_get_arity = lambda gate_type: 2\n",
    'GATE_TYPE_BIT_SIZE augmented':
        "\nGATE_TYPE_BIT_SIZE += 1\n",
}

if __name__ == '__main__':
    committed = (ROOT / 'coq' / 'Generated' / 'CodecTables.v').read_text()
    for title, extra in MUTATIONS.items():
        tmp = pathlib.Path(tempfile.mkdtemp(prefix='dbaud_t8_'))
        try:
            dst = tmp / 'cirbo' / 'circuits_db'
            dst.mkdir(parents=True)
            for f in ('circuits_encoding.py', 'binary_dict_io.py'):
                shutil.copy(f'/repo/cirbo/circuits_db/{f}', dst / f)
            with open(dst / 'circuits_encoding.py', 'a') as fh:
                fh.write(extra)
            os.environ['CIRBO_REPO'] = str(tmp)
            import importlib
            import sys
            sys.path.insert(0, str(ROOT))
            from translator import t8_codec
            importlib.reload(t8_codec)
            captured = {}
            t8_codec.write_if_changed = lambda rel, text: captured.setdefault(rel, text) and False
            try:
                t8_codec.translate()
                same = captured.get('Generated/CodecTables.v') == committed
                print(f'{title:85s} -> translator accepts; generated file '
                      f'{"IDENTICAL to the committed one (mutation invisible)" if same else "differs"}')
            except Exception as e:  # noqa: BLE001
                print(f'{title:85s} -> rejected: {type(e).__name__}: {str(e)[:80]}')
        finally:
            shutil.rmtree(tmp, ignore_errors=True)
