from audit.common import *
"""Negative output_index / input_index: legal in Python (x[-1], list.insert(-1, ..), output_at_index only
tests idx >= len), NOT expressible in the model (indices are `nat`).  Shows what the three classes do and,
for comparison, the model's answer for the wrapped index (len + idx)."""
from audit.func_util import *

T, F = True, False


def three(n, table):
    reps = fc.build_reps(n, table)
    return [(k, reps[k]) for k in fc.CLASSES]


def ask(n, table, method, *args):
    out = {}
    for name, obj in three(n, table):
        out[name] = run_impl(lambda: getattr(obj, method)(*args))
    return out


def model(n, table, qterm):
    make = f'(tt_make {fc.tbl(table)})'
    out = coq_eval('func_negidx', REQ, [f'match {make} with Ok t => tt_query t {qterm} | Err e => Err e end'])
    return strip_type(out[0])


if __name__ == '__main__':
    AND = [[F, F, F, T]]          # x0 and x1
    X1 = [[F, T, F, T]]           # = input 1 (the last)
    NX1 = [[T, F, T, F]]
    TWO = [[F, F, F, T], [F, T, T, F]]
    rows = [
        ('evaluate_at([T,T], -1) on (AND, XOR)', ask(2, TWO, 'evaluate_at', [T, T], -1), model(2, TWO, '(QEvaluateAt [true;true] 1)')),
        ('evaluate_at([T,T], -3) on (AND, XOR)', ask(2, TWO, 'evaluate_at', [T, T], -3), 'n/a (nat)'),
        ('is_constant_at(-1) on (AND, XOR)', ask(2, TWO, 'is_constant_at', -1), model(2, TWO, '(QConstantAt 1)')),
        ('is_dependent_on_input_at(0, -1) on AND', ask(2, AND, 'is_dependent_on_input_at', 0, -1), model(2, AND, '(QDependent 0 1)')),
        ('is_dependent_on_input_at(0, -2) on AND', ask(2, AND, 'is_dependent_on_input_at', 0, -2), model(2, AND, '(QDependent 0 0)')),
        ('is_output_equal_to_input(0, -1) on f = x1', ask(2, X1, 'is_output_equal_to_input', 0, -1), model(2, X1, '(QEqualInput 0 1)')),
        ('is_output_equal_to_input_negation(0, -1) on f = not x1', ask(2, NX1, 'is_output_equal_to_input_negation', 0, -1), model(2, NX1, '(QEqualInputNeg 0 1)')),
        ('is_output_equal_to_input(0, -3) on f = x1', ask(2, X1, 'is_output_equal_to_input', 0, -3), 'n/a (nat)'),
        ('find_negations_to_make_symmetric([-1]) on (AND, XOR)', ask(2, TWO, 'find_negations_to_make_symmetric', [-1]), model(2, TWO, '(QFindNegations [1])')),
        ('get_significant_inputs_of(-2) on (AND, XOR)', ask(2, TWO, 'get_significant_inputs_of', -2), model(2, TWO, '(QSignificant 0)')),
    ]
    for title, impl, mdl in rows:
        vals = {k: v for k, v in impl.items()}
        agree = len({repr(v) for v in vals.values()}) == 1
        print('---', title, '| classes agree' if agree else '| CLASSES DISAGREE')
        for k, v in vals.items():
            print(f'    {k:11s}', v)
        print('    model (wrapped index):', mdl)
