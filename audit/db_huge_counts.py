"""Byte strings whose header announces astronomically many entries / gates but that end at once.
The implementation raises immediately (the first read past the end); the model computes `N.to_nat count` first, so
`vm_compute` (the harness' evaluator) cannot be used - the harness therefore never generates such inputs
(codeccorr.decodable_in_practice, stream_variants never touches count bytes 0..5).  Under `Eval lazy` the model gives the
same answer, i.e. the divergence is one of evaluability only."""
from audit.db_util import *
from cirbo.circuits_db.circuits_encoding import decode_circuit

D1 = bytes([255] * 8)                                   # dictionary with 2^64-1 entries, no data
D2 = (2 ** 40).to_bytes(8, 'big') + b'\x00\x01a\x00\x00'   # 2^40 entries announced, one present
# ws = 64: inputs 0, outputs 0, intermediates 2^63, then nothing
C1 = bytes([64]) + (0).to_bytes(8, 'little') + (0).to_bytes(8, 'little') + (2 ** 63).to_bytes(8, 'little')
# ws = 40: inputs 0, outputs 2^39, intermediates 0, then nothing: first output read fails
C2 = bytes([40]) + (0).to_bytes(5, 'little') + (2 ** 39).to_bytes(5, 'little') + (0).to_bytes(5, 'little')

if __name__ == '__main__':
    pre = ''
    for b in (D1, D2):
        pre += f'Eval lazy in (read_binary_dict (bl {cc.bl_(b)})).\n'
    for b in (C1, C2):
        pre += f'Eval lazy in (match decode_circuit (bl {cc.bl_(b)}) with Ok _ => Ok tt | Err e => Err e end).\n'
    outs = coq_eval('db_huge_counts', REQ, ['tt'], prelude=pre, timeout=300)
    impl = [run_impl(lambda: cc.impl_read_dict(D1)), run_impl(lambda: cc.impl_read_dict(D2)),
            run_impl(lambda: decode_circuit(C1)), run_impl(lambda: decode_circuit(C2))]
    for t, i, m in zip(['dict 2^64-1 entries', 'dict 2^40 entries, one present', 'decode 2^63 gates', 'decode 2^39 outputs'],
                       impl, outs):
        print(f'{t:35s} impl: {i[1][:40]:40s} model(lazy): {strip_type(m)}')
