from audit.common import *
"""Implementation-only probes of inputs the model cannot express: mutation through returned references
(the model is value based), non-bool `inverse`, negative arguments of core/utils.py and of the iterator."""
from audit.func_util import *
from cirbo.core.truth_table import TruthTable
from cirbo.core import utils
from cirbo.core.circuit.utils import input_iterator_with_fixed_sum

T, F = True, False

if __name__ == '__main__':
    print('== aliasing: TruthTable hands out its internal lists')
    t = TruthTable([[F, T]])
    r = t.evaluate([F])
    r[0] = True                                   # caller mutates the returned list
    print('   after evaluate([F])[0] = True : evaluate([F]) =', t.evaluate([F]), ' get_truth_table =', t.get_truth_table(),
          ' is_constant =', t.is_constant(), '(computed from _table)  is_symmetric-path evaluate says constant:',
          t.evaluate([F]) == t.evaluate([T]))
    t = TruthTable([[F, T]])
    t.get_truth_table()[0][0] = True
    print('   after get_truth_table()[0][0] = True : is_constant =', t.is_constant(), ' evaluate([F]) =', t.evaluate([F]))
    src = [[F, T]]
    t = TruthTable(src)
    src[0][0] = True
    print('   constructor copies its argument: evaluate([F]) =', t.evaluate([F]))

    print('== inverse given as a non-bool (model: bool)')
    reps = fc.build_reps(1, [[F, T]])
    for inv in (0, 1, 2, None):
        print('   inverse =', inv, {k: run_impl(lambda o=o: o.is_monotone(inverse=inv)) for k, o in reps.items()},
              {k: run_impl(lambda o=o: o.is_monotone_at(0, inverse=inv)) for k, o in reps.items()})

    print('== core/utils.py with negative arguments (model: nat)')
    print('   canonical_index_to_input(-1, 3)  ->', run_impl(lambda: utils.canonical_index_to_input(-1, 3)))
    print('   canonical_index_to_input(5, -1)  ->', run_impl(lambda: utils.canonical_index_to_input(5, -1)))
    print('   get_bit_value(5, -1, 3)          ->', run_impl(lambda: utils.get_bit_value(5, -1, 3)))
    print('   get_bit_value(-1, 0, 3)          ->', run_impl(lambda: utils.get_bit_value(-1, 0, 3)))
    print('   input_to_canonical_index([2])    ->', run_impl(lambda: utils.input_to_canonical_index([2])))
    print("   input_to_canonical_index('10')   ->", run_impl(lambda: utils.input_to_canonical_index('10')))
    print('   iterator(3, -1)                  ->', run_impl(lambda: list(input_iterator_with_fixed_sum(3, -1))))
    print('   iterator(-1, 0)                  ->', run_impl(lambda: list(input_iterator_with_fixed_sum(-1, 0))))
    print('   iterator(2, 1, negations=(1,0))  ->', run_impl(lambda: list(input_iterator_with_fixed_sum(2, 1, negations=(1, 0)))))
    m = coq_eval('func_misc', REQ, ['canonical_index_to_input 5 0', 'get_bit_value 5 3 3', 'fixed_sum 2 1 (Some [true;false])'])
    print('   model canonical_index_to_input 5 0 =', strip_type(m[0]), '| get_bit_value 5 3 3 =', strip_type(m[1]),
          '| fixed_sum 2 1 [T;F] =', strip_type(m[2]))
    print('   impl  canonical_index_to_input(5,0) =', utils.canonical_index_to_input(5, 0),
          '| get_bit_value(5,3,3) =', run_impl(lambda: utils.get_bit_value(5, 3, 3)),
          '| iterator(2,1,[T,F]) =', list(input_iterator_with_fixed_sum(2, 1, negations=[T, F])))
