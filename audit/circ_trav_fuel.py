"""Traverse.traverse_fuel = 2*(len starts + sum_arity + size) + 2 bounds the pushes by the OPERAND count.  In inverse
mode the children come from the users index, so on a state whose users lists are longer than the operand relation
(not WF) the model runs out of fuel where Python terminates.  Class B (outside WF); shows that fuel adequacy is a
theorem about WF states only."""
from audit.common import *
from harness import travcorr

d = {'inputs': ['a'], 'outputs': ['b'], 'gates': [('a', 'INPUT', []), ('b', 'NOT', ['a'])],
     'users': [('a', ['b'] * 8)], 'blocks': []}
c = ct.build_circuit(d)
for mode in ('DFS', 'BFS'):
    impl = travcorr.call(lambda: travcorr.run_traversal(c, mode, True, ['a'], False, probe=False))
    model = coq_eval('circ_trav_fuel', ['Cirbo.Model.Gate', 'Cirbo.Model.Circuit', 'Cirbo.Model.Traverse'],
                     [f'traverse {mode} true {ct.circuit(d)} (Some ["a"]) false no_abort',
                      f'traverse_fuel {ct.circuit(d)} ["a"]'])
    show(f'{mode} inverse from a, users[a] = [b]*8', impl, model)
