"""Seeded differential run of encode_circuit / decode_circuit on ARBITRARY internal circuit states (cycles, missing operands,
missing outputs, input list out of step with the INPUT gates, repeated inputs, INPUT gates with operands, all 19 types with
arities 0..3) - the kinds of states harness/gen.py and codeccorr.format_circuit never produce - and on random short byte
strings with header bytes 0..12 and small counts.  Implementation vs Model/Codec.v, exact."""
import random
import sys

from audit.db_util import *

TYPES = ct.GTYPES
LABELS = ['a', 'b', 'c', 'd', 'e', 'f', 'g', 'h']


def wild(rng):
    n = rng.randint(0, 7)
    labs = rng.sample(LABELS, n)
    gates = []
    for l in labs:
        t = 'INPUT' if rng.random() < 0.35 else rng.choice(TYPES)
        k = 0 if (t == 'INPUT' and rng.random() < 0.9) else rng.choice([0, 1, 1, 2, 2, 2, 3])
        pool = labs if rng.random() < 0.85 else LABELS
        gates.append((l, t, [rng.choice(pool) for _ in range(k)] if pool else []))
    ins = [l for l, t, _ in gates if t == 'INPUT']
    r = rng.random()
    if r < 0.15 and labs:
        ins = ins + [rng.choice(labs)]
    elif r < 0.25 and ins:
        ins = ins[:-1]
    elif r < 0.3:
        ins = ins + [rng.choice(LABELS)]
    rng.shuffle(ins)
    pool = labs if rng.random() < 0.85 or not labs else LABELS
    outs = [rng.choice(pool) for _ in range(rng.randint(0, 4))] if pool else []
    return dump(ins, outs, gates)


def small_stream(rng):
    ws = rng.choice([0, 1, 2, 3, 4, 9, 10, 12])
    bits = []

    def num(x, k):
        for i in range(k):
            bits.append((x >> i) & 1)
    num(ws, 8)
    for _ in range(3):
        num(rng.randint(0, min(5, 2 ** ws - 1)) if ws else 0, ws)
    for _ in range(rng.randint(0, 60)):
        bits.append(rng.randrange(2))
    bits += [0] * (-len(bits) % 8)
    return bytes(sum(b << i for i, b in enumerate(bits[j:j + 8])) for j in range(0, len(bits), 8))


if __name__ == '__main__':
    seed = int(sys.argv[1]) if len(sys.argv) > 1 else 20260926
    n = int(sys.argv[2]) if len(sys.argv) > 2 else 400
    rng = random.Random(seed)
    cases = [{'kind': 'circuit', 'circuit': wild(rng), 'variants': [small_stream(rng).hex() for _ in range(2)]}
             for _ in range(n)]
    runner, checker, ctype = cc.RUNNERS['circuit']
    terms = [run_circuit_free(c)[0] for c in cases]
    outs = []
    for i in range(0, n, 100):
        outs += coq_eval(f'db_codec_fuzz_{i // 100}', REQ, [f'{checker} ({t} : {ctype})' for t in terms[i:i + 100]])
    bad = [i for i, o in enumerate(outs) if strip_type(o) != 'true']
    from collections import Counter
    from cirbo.circuits_db.circuits_encoding import encode_circuit
    hist = Counter()
    for c in cases:
        r = run_impl(lambda: encode_circuit(ct.build_circuit(c['circuit'])))
        hist['ok' if r[0] == 'ok' else r[1].split(' ')[0]] += 1
    print('encode outcomes:', dict(hist))
    print(f'{n} cases, {len(bad)} disagreements')
    for i in bad[:5]:
        print(cases[i])
