"""C08 Multiplier and squarer generators compute exact products."""
import json
import multiprocessing
import random
import time

from framework.checklib import CorrResult
from framework import coqrun
from harness import arithcorr as ac
from harness import mulcorr as mc
from translator import t1_operators, t4_arith, t19_mul_gen

ID = 'C08'
TRANSLATORS = [t1_operators.translate, t4_arith.translate, t19_mul_gen.translate]
PROPERTY_FILE = 'Properties/C08.v'
THEOREMS = [
    'C08_every_generator_only_extends', 'C08_extension_meaning', 'C08_result_length_formulas',
    'C08_mul_default_exact', 'C08_mul_alter_exact', 'C08_mul_dadda_exact', 'C08_mul_wallace_exact',
    'C08_mul_pow2_m1_exact', 'C08_mul_karatsuba_exact', 'C08_mul_karatsuba_pow2_exact', 'C08_last_step_exact',
    'C08_square_exact', 'C08_square_pow2_m1_exact',
    'C08_generate_mul', 'C08_generate_square',
    'C08_new_gates_carry_counter_labels',
    'C08_mul_default_total_exact', 'C08_mul_alter_total_exact', 'C08_mul_dadda_total_exact',
    'C08_mul_wallace_total_exact', 'C08_mul_pow2_m1_total_exact', 'C08_mul_karatsuba_total_exact',
    'C08_mul_karatsuba_pow2_total_exact', 'C08_last_step_total_exact',
    'C08_square_total_exact', 'C08_square_pow2_m1_total_exact',
    'C08_generators_regenerated',
]
# every statement is proved at full strength: the product / square for all widths, the exact number of result bits
# (Wallace included) and normal termination (`..._total_exact`).  Not covered by a termination theorem: the
# dispatching wrappers generate_mul / generate_square (their theorems stay conditional on the model returning Ok; the
# wrappers only add `bare_circuit` + `set_outputs` around a mode whose termination is proved).
PARTIAL = {}
LEVEL_TEXT = ('every multiplication mode (add_mul, add_mul_alter, add_mul_dadda, add_mul_wallace, add_mul_pow2_m1, '
              'add_mul_karatsuba_with_efficient_sum = MulMode.KARATSUBA, plus add_mul_karatsuba and the private '
              'last_step_sum_with_new_powers_sum) and both squaring modes (add_square incl. its split at n >= 48, '
              'add_square_pow2_m1) are proved to return bits that decode to a * b (a^2) for ALL operand widths, both '
              'endiannesses, every host circuit, every choice of operand gates (repeated labels allowed) and every '
              'operand value, by invariants over Sem.Eval of the final circuit: weighted-bag invariance modulo '
              '2^(n+m) for the column compressors, peeling of the partial-product matrix by anti-diagonals for the '
              'pow2_m1 family, strong induction on the width (through the fuel) with the exact thresholds of the '
              'code for Karatsuba and for the squarer; the number of result bits (n+m, n+m-1 with a one-bit '
              'operand; 2n / 1) is proved for all widths for the default mode (by a potential argument on the sorted '
              'work lists of the weighted sum: one level turns k pending bits into one result bit and floor(k/2) '
              'carries), alter, dadda, pow2_m1, both Karatsuba variants, both squarers and Wallace (the occupancy '
              'pattern of its cell matrix is a function of the widths only; one witness run per width pair on the '
              'all-ones operands, whose product needs n+m bits, fixes that function); '
              'NORMAL TERMINATION is proved for all widths >= 1 (C08_<mode>_total_exact: for every injective '
              'naming function of the uuid counter, every host and all non-empty lists of existing operand gates '
              'the model returns Ok - the fuel of every modelled while loop suffices: Dadda column reduction and '
              'height sequence, Wallace rounds, Karatsuba on max(n,m)+1, the squarer on n+1 with the thresholds of '
              'the code, the C07 schedulers - and no IndexError / AssertionError path is taken: the last Dadda '
              'column is filled by the carry chain of the final pass, the last level of the pow2_m1 family is '
              'non-empty because every level from 1 on sums >= 2 bits and a sum of >= 2 bits has a second column), '
              'so the value and length statements hold unconditionally; '
              '"only fresh gates, old gates keep their function" is the generic extension theorem of the builder '
              'layer; generate_mul / generate_square are proved for every MulMode / SquareMode; the model is tied to '
              '/repo by regenerating the cells (translator T4) and by netlist-equality correspondence on every run '
              '(vm_compute for widths <= 8-12 on bare and host circuits; the same Gallina code extracted to OCaml for '
              'the 10^3-10^4-gate netlists at the Karatsuba / squarer thresholds)')
LEVEL_NOTE = ('Coq kernel + vm_compute; translators T1, T4, T19 + T22 (T19, translator/t19_mul_gen.py on top of T14, with '
              'its extension T22, translator/t22_wallace.py, for the nested closures of add_mul_wallace, regenerates the '
              'generator ALGORITHMS of multiplication.py / square.py statement by statement from the current source on '
              'every run - add_mul, add_mul_alter, add_mul_pow2_m1, add_mul_dadda, add_mul_wallace, '
              'last_step_sum_with_new_powers_sum, both '
              'Karatsuba multipliers, add_square_pow2_m1, add_square, the dispatch tables _process_mul / _process_square '
              'and the wrappers generate_mul / generate_square - and C08_generators_regenerated proves each of them '
              'extensionally equal to the hand model the theorems are about (same result, same final state, same error, '
              'for all arguments; last_step_sum_with_new_powers_sum: not with one empty operand and the other of two or more '
              'bits, where the hand model says IndexError and Python ValueError; generate_mul: size_of_input_a >= 0; '
              'add_mul_wallace WITHOUT side condition: every width incl. the empty operands and the OutOfFuel of an empty '
              'second operand, every naming function incl. one that hands out the placeholder string - the closures '
              '`_last_gate` / `_zero` are local state-passing functions, the list `zero` that `_zero` mutates is passed in '
              'and handed back; the column-major label matrix of the source is the transposition of the row-major '
              'option-cell matrix of the hand model through every 3-to-2 round, the lazily created constant-false gate is '
              'the hand model\'s up-front gate exactly when has_gap holds); the '
              'summation / subtraction generators the multipliers call are the hand models of C07 / C09, of which T19 '
              'reads the signatures); correspondence harness (order-preserving label renaming '
              'new_%032x -> new_%04x); for the wide shapes the model is EXTRACTED to OCaml (Extraction Language OCaml '
              'with ExtrOcamlBasic + ExtrOcamlString only, ocamlfind ocamlopt 4.13; a 60-line driver built inside the '
              'check prints the model result - returned labels, every gate with type and operands, every users list, '
              'inputs, outputs, counter - and the harness compares it line by line with the implementation state: '
              'exact netlist equality, no hashing); the `_exact` theorems are conditional on the model run returning Ok '
              '(any naming function), the `_total_exact` theorems are unconditional for injective naming functions, '
              'non-empty operand lists of existing gates and - for Wallace / the add_sum_pow2_m1 family - a host and a '
              'naming function that do not use the label "_PLACEHOLDER_STR_" / "" (termination of the C07 summation '
              'generators is Proofs/ArithSumTotal*.v, of the two-number adder / subtractor Proofs/ArithTotalFacts.v); '
              'generate_mul / generate_square stay conditional; the model '
              'calls the C07 / C09 models of the summation / subtraction generators, which are of the repaired code '
              '(fixes/D5, D6, D7; none of the repaired branches is reachable from a multiplier); add_mul_wallace is modelled '
              'as repaired by fixes/D29.patch (empty cells between gates of the two final rows are filled with a '
              'constant-false gate instead of being skipped: the pinned code returns wrong products for n = 2, '
              'm >= 11); value clauses of the '
              'add_sum_pow2_m1-based functions ask that the empty string is not a gate label (filter(None, .) would '
              'drop it) and the Wallace clauses (value AND exact length) ask that the placeholder string '
              '"_PLACEHOLDER_STR_" is not a gate label')
TECHNIQUE = ('Coq proof: generators as programs of the deep-embedded builder monad over the Circuit model; the generator '
             'algorithms regenerated from the source by a fail-closed ast translator and proved equal to the hand model '
             '(index loops with in-place stores against structural recursion: generic fold lemmas instantiated by '
             'higher-order unification, anti-diagonals by index, fuelled while loops and recursion, closures as '
             'state-passing functions, a transposition invariant c = colsof (n + m) rows between the column-major matrix '
             'of the Wallace source and the row-major matrix of its hand model); partial '
             'products as a matrix with value sum_i 2^i row_i = a * b; default mode through the C07 weighted-sum '
             'theorem plus a gap-freeness invariant and a potential argument (number of levels) on its sorted work lists; column compressors as weighted-bag '
             'rewriting (sum_i 2^i ones(column_i) invariant modulo 2^(n+m), a * b < 2^(n+m) closes the gap); '
             'anti-diagonal peeling for add_mul_pow2_m1 / add_square_pow2_m1 with a pending-columns invariant; '
             'Karatsuba and add_square by induction on the fuel with the algebraic identities and the subtractor\'s '
             'modular result; termination by "works" lemmas over the builder monad (operands exist => Ok, results '
             'exist), fuel adequacy by measure arguments, label provenance by a syntactic predicate on programs '
             '(gates are only added under counter labels), Wallace length by shape abstraction + a semantic witness '
             'run; netlist-equality correspondence under '
             'vm_compute and through OCaml extraction; direct oracle = bit-parallel evaluation of the '
             'implementation\'s netlist (exhaustive for n + m <= 12, 2000 random operand pairs beyond) cross-checked '
             'with Circuit.evaluate_full_circuit / Circuit.evaluate')
TRUSTED = ['uuid4 is modelled as a counter with a naming function that is universally quantified in every theorem; '
           'freshness of each new label is established by the modelled has_gate retry loop, not assumed',
           'string comparison of labels in the SortedLists of the weighted sum is String.compare (code-point order on '
           'ASCII labels); the harness only uses ASCII labels',
           'OCaml extraction (ExtrOcamlBasic, ExtrOcamlString), ocamlfind ocamlopt 4.13.1 and the driver in '
           'harness/mulcorr.py, for the wide netlists only',
           'the bit-parallel reference interpreter of the direct oracle (harness/mulcorr.py eval_parallel), '
           'cross-checked against Circuit.evaluate_full_circuit on sampled assignments in every case']
ASSUMPTIONS = ['operand widths >= 1 (an empty operand list raises in most modes; add_mul_wallace does not terminate '
               'for an empty second operand and is not run on it); the termination theorems state exactly this',
               'termination theorems: the naming function of the uuid counter is injective (uuid4 does not repeat)',
               'the spelling of the input labels built by the generate_* wrappers is supplied by the harness',
               'MulMode / SquareMode are passed as enum members']


def _oracle_worker(blob):
    case = json.loads(blob)
    try:
        return mc.oracle(case, random.Random(1), limit_bits=case.get('_limit', 12), samples=case.get('_samples', 2000))
    except RecursionError:
        raise
    except Exception as e:  # noqa: BLE001
        return 'oracle crashed: ' + repr(e)


_CACHE = {}


def _key(case):
    return json.dumps(case, sort_keys=True)


def _precompute(cases, limit_bits, samples):
    blobs = []
    for c in cases:
        d = dict(c)
        d['_limit'] = limit_bits
        d['_samples'] = samples
        blobs.append(json.dumps(d, sort_keys=True))
    ctx = multiprocessing.get_context('fork')
    with ctx.Pool(16) as pool:
        msgs = pool.map(_oracle_worker, blobs, chunksize=2)
    for c, m in zip(cases, msgs):
        _CACHE[_key(c)] = m


def _shape(case):
    call = case.get('call') or case.get('gen')
    if call[0] == 'mul':
        return f'{len(call[2])}x{len(call[3])}'
    if call[0] == 'square':
        return str(len(call[2]))
    if call[0] == 'gmul':
        return f'{call[1]}x{call[2]}'
    return str(call[1])


def correspondence(ctx, model_ok):
    r = CorrResult()
    r.rule = ('NETLIST EQUALITY after the order-preserving renaming of the uuid labels (new_%032x -> new_%04x): for '
              'each call the returned labels, the full circuit state (gate map in order with types and operand '
              'order, users index, inputs, outputs, blocks) and the uuid counter of the implementation are compared '
              'with the model; error kinds are compared when the call raises. (a) inside Coq (vm_compute, '
              'Model/MulCases.v check_mul_case / check_mgen_case): all six modes + add_mul_karatsuba + the private '
              'last_step_sum_with_new_powers_sum x every width pair (n, m) <= 8 (quick) / 10 (thorough), bare '
              'circuits and random host circuits with operands drawn among arbitrary existing gates (repetitions, '
              'one label for every bit, identical operand lists, operands that are outputs of the host), both '
              'endiannesses, squares up to 12 (16) bits, empty / missing operands, generate_mul / generate_square '
              'for every mode, Wallace with n = 2 and m = 9..20 (D29: empty cells inside the final rows); (b) through the SAME Gallina functions extracted to OCaml (ExtrOcamlBasic + '
              'ExtrOcamlString; driver built inside the check; the driver prints the model result as text and the '
              'harness compares every line with the implementation state): the wide shapes on bare circuits - '
              'Karatsuba (both variants) at the recursion thresholds 17..21, 35, 37, 41 (thorough: 22..24, 34..42, 47, '
              '64 and unequal widths), add_square at 47..54 (thorough: ..60, 96), add_square_pow2_m1 at 31, 47, the '
              'matrix multipliers at 16 (thorough: 24, 32). non-trivial = the call added at least one gate; '
              'distinct = hash of the case')
    t0 = time.time()
    small = mc.small_cases(ctx.rng, max_w=ctx.n(8, 10), full_w=ctx.n(4, 5), sq_max=ctx.n(12, 16))
    gcases = mc.gen_cases(ctx.rng, max_w=ctx.n(5, 7))
    large = mc.large_cases(ctx.rng, quick=ctx.quick)
    terms, lresults = [], []
    for c in small + large:
        res, _ = mc.run_impl(c)
        call = c['call']
        ok = res[0] == 'ok'
        r.add_case(c, ok and len(res[1][1]['gates']) > len(c['host']['gates']))
        r.count('call', call[1] if call[0] == 'mul' else mc.SQ_FNS[call[1]])
        r.count('result', 'ok' if ok else res[1])
        r.count('host', 'bare' if c['host']['gates'] and c['host']['gates'][0][0] == '0' else 'host')
        r.count('big_endian', call[-1])
        r.count('max_width', max(len(x) for x in call[2:-1]))
        if ok:
            r.count('gates_added', (len(res[1][1]['gates']) - len(c['host']['gates'])) // 250 * 250)
        if len(terms) < len(small):
            terms.append(mc.case_term(c, res))
        else:
            lresults.append(res)
    gterms = []
    for c in gcases:
        res, _ = mc.run_gen(c)
        gterms.append(mc.gen_case_term(c, res))
        r.add_case(c, res[0] == 'ok')
        r.count('call', c['gen'][0] + ':' + str(c['gen'][-2]))
        r.count('result', 'ok' if res[0] == 'ok' else res[1])
    r._cases = small + gcases + large
    r.notes.append(f'implementation runs: {time.time() - t0:.1f}s')
    if model_ok:
        t0 = time.time()
        bad = coqrun.run_cases(ID, 'mul', mc.HEADER, terms, 'check_mul_case', mc.CASE_TYPE)
        for i in bad:
            r.disagreements.append({'name': f'netlist of {small[i]["call"][1]} {_shape(small[i])}: model vs '
                                            f'implementation', 'case': small[i]})
        bad = coqrun.run_cases(ID, 'mgen', mc.HEADER, gterms, 'check_mgen_case', mc.GEN_CASE_TYPE)
        for i in bad:
            r.disagreements.append({'name': f'circuit of {gcases[i]["gen"][0]} {_shape(gcases[i])}: model vs '
                                            f'implementation', 'case': gcases[i]})
        r.notes.append(f'vm_compute correspondence ({len(terms)} + {len(gterms)} cases): {time.time() - t0:.1f}s')
        t0 = time.time()
        try:
            exe = mc.build_driver(coqrun.COQ, ID)
        except RuntimeError as e:
            raise coqrun.CoqError(str(e))
        outs = mc.run_driver(exe, large)
        nlines = 0
        for c, res, out in zip(large, lresults, outs):
            exp = mc.impl_lines(res)
            nlines += len(exp)
            if exp != out:
                diff = next((f'line {k}: implementation {x[:120]!r} model {y[:120]!r}'
                             for k, (x, y) in enumerate(zip(exp, out)) if x != y),
                            f'{len(exp)} lines vs {len(out)} lines')
                r.disagreements.append({'name': f'netlist of {c["call"][1]} {_shape(c)} (extracted model): {diff}',
                                        'case': c})
        r.notes.append(f'extracted-model correspondence ({len(large)} cases, {nlines} netlist lines compared): '
                       f'{time.time() - t0:.1f}s')
    t0 = time.time()
    _precompute(r._cases, ctx.n(12, 16), ctx.n(2000, 4000))
    r.notes.append(f'direct oracle precomputed in parallel in {time.time() - t0:.1f}s')
    return r


def oracle_cases(ctx, corr):
    return list(getattr(corr, '_cases', []))


def oracle(case):
    k = _key(case)
    if k in _CACHE:
        return _CACHE[k]
    return mc.oracle(case, random.Random(1), limit_bits=12)


def classify(case, msg):
    call = case.get('call') or case.get('gen')
    kind = call[1] if call[0] == 'mul' else (mc.SQ_FNS[call[1]] if call[0] == 'square' else call[0])
    head = msg.split(' at {')[0].split(':')[0]
    if 'result bits' in msg:
        head = 'number of result bits'
    elif ' gave ' in msg or 'decodes to' in msg:
        head = 'wrong value'
    return f'{kind}: {head}'[:80]


def search(ctx, budget_s):
    t0 = time.time()
    while time.time() - t0 < budget_s:
        cases = mc.small_cases(ctx.rng, max_w=5, full_w=3, sq_max=6) + mc.gen_cases(ctx.rng, max_w=4)
        for c in cases:
            msg = mc.oracle(c, random.Random(1), limit_bits=10, samples=500)
            if msg:
                return c, msg
        for fn, n in (('add_mul_karatsuba', 20), ('add_mul_karatsuba_with_efficient_sum', 20),
                      ('add_mul_karatsuba', 18), ('add_mul_karatsuba_with_efficient_sum', 35)):
            c = mc.mk_mul(ctx.rng, fn, n, n, False, ctx.rng.random() < 0.5, k0=1)
            msg = mc.oracle(c, random.Random(1), samples=500)
            if msg:
                return c, msg
        for fn, n, m in (('add_mul_karatsuba_with_efficient_sum', 18, 1), ('add_mul_karatsuba_with_efficient_sum', 1, 20),
                         ('add_mul_karatsuba', 18, 1), ('add_mul_karatsuba', 1, 21)):
            c = mc.mk_mul(ctx.rng, fn, n, m, False, ctx.rng.random() < 0.5, k0=1)
            msg = mc.oracle(c, random.Random(1), samples=500)
            if msg:
                return c, msg
        for n in (48, 50):
            c = mc.mk_square(ctx.rng, 'DEFAULT', n, False, False, k0=1)
            msg = mc.oracle(c, random.Random(1), samples=300)
            if msg:
                return c, msg
    return None


def shrink(case, msg):
    """smallest bare-circuit call of the same function that fails with the same class"""
    if 'call' not in case:
        return case, msg
    key = classify(case, msg)
    call = case['call']
    rng = random.Random(0)
    cands = []
    if call[0] == 'mul':
        for total in range(2, 13):
            for n in range(1, total):
                for be in (False, True):
                    cands.append(mc.mk_mul(rng, call[1], n, total - n, False, be, k0=1))
    else:
        for n in range(1, 10):
            for be in (False, True):
                cands.append(mc.mk_square(rng, call[1], n, False, be, k0=1))
    size = sum(len(x) for x in call[2:-1]) * 100 + len(case['host']['gates'])
    for c in cands:
        if sum(len(x) for x in c['call'][2:-1]) * 100 + len(c['host']['gates']) >= size:
            break
        m = mc.oracle(c, random.Random(1), limit_bits=12, samples=300)
        if m and classify(c, m) == key:
            return c, m
    return case, msg
