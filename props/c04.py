"""C04 SAT-based subcircuit minimization returns an equivalent, not larger circuit."""
import json
import pathlib
import re
import time

from framework.checklib import CorrResult
from harness import gen, patcorr, subcorr
from translator import t5_patterns, t21_subcircuit_alg

ID = 'C04'
TRANSLATORS = [t5_patterns.translate, t21_subcircuit_alg.translate]
PROPERTY_FILE = 'Properties/C04.v'
THEOREMS = ['C04_max_pattern', 'C04_complement_bits', 'C04_eval_pattern_den', 'C04_eval_pattern_unsupported',
            'C04_eval_pattern_short', 'C04_generate_inputs_tt', 'C04_patterns_are_truth_tables',
            'C04_simulation_total', 'C04_rows_cover', 'C04_dont_care_table_closed_form',
            'C04_dont_care_table_is_cone_function', 'C04_equal_patterns_equal_functions',
            'C04_complementary_patterns_negated_functions', 'C04_ConeEval_functional', 'C04_cone_eval_sound',
            'C04_ConeEval_Eval', 'C04_check_step_sound', 'C04_check_step_map_sound_Eval',
            'C04_care_set_substitution', 'C04_care_set_substitution_outputs', 'C04_check_implies_equivalence',
            'C04_example_care_set_replacement', 'C04_care_set_substitution_truth_table',
            'C04_example_care_set_replacement_truth_table', 'C04_validator_substitution', 'C04_accepted_step_preserves_outputs', 'C04_merge_substitution', 'C04_care_covers_sound',
            'C04_cex_surplus_operand', 'C04_example_ternary_and', 'C04_cex_missing_node', 'C04_example_cone', 'C04_example_simulation', 'C04_example_step_accepted', 'C04_example_step_rejected',
            'C04_example_care_set_step', 'C04_example_merge',
            'C04_check_run_structure', 'C04_validated_run', 'C04_validated_run_semantics', 'C04_validated_run_closed',
            'C04_example_validated_run', 'C04_example_run_rejected',
            'C04_cone_code_regenerated', 'C04_example_regenerated_run']
PARTIAL = {
    'C04 (the property as a whole)':
        'NOT proved for the implementation as a function: the search of minimize_subcircuits (external cut enumerator, the '
        'model returned by a SAT solver, the hand-written loop: cut filtering, node states, the mixed trivial / '
        'negated-output branch, _rename_subcircuit_gates) is not modelled, so there is no theorem "for every argument the '
        'call returns an equivalent circuit". What is proved instead is a validator for whole recorded runs '
        '(C04_validated_run: if check_run accepts the argument circuit, the ordered events and the returned circuit, the '
        'result has the same inputs, number of outputs and truth table), and every run of the check that returns is '
        'validated with it; the link between a run and its record is the recorder of harness/patcorr.py (trusted, '
        'and cross-checked by the end-to-end oracle). Still NOT proved and only checked by the oracle on every run: '
        'that the search terminates without an internal error or FailedValidationError, that a step is found at '
        'all, and that the result has no more non-trivial gates than the argument (the size clause); runs above '
        '40 events / 60 gates are not validated end to end (counted as skipped). The root causes found by the oracle '
        'are repaired by fixes/D30..D39; their failing inputs are kept as a fixed corpus',
}
LEVEL_CATEGORY = 'translation_validation'
LEVEL_TEXT = ('translation validation of WHOLE RUNS with a verified validator, plus proof of the pattern simulation. End to end: '
              'for every run of minimize_subcircuits that returns, the argument circuit (dumped at the entry), the ordered '
              'list of events (every replace_subcircuit call that took effect and every trivial-branch merge, each with its '
              'state before and after, cut leaves, cone outputs, care set) and the returned circuit are printed as a Coq term '
              'and the executable check_run is evaluated on it: the states chain exactly (circuit_eqb: inputs, outputs, gates, '
              'users, blocks) from the argument through every event to the result, every event is accepted by its validator '
              '(check_subst / check_merge + care_covers), the inputs are INPUT gates and the leaves Boolean-valued in every '
              'intermediate state, argument and result pass wfb and the operand-count check; C04_validated_run proves that an '
              'accepted run returns a circuit with the same inputs, the same number of outputs, position-wise equal output '
              'values under every Boolean input vector (relational semantics), equal results of evaluate and an equal truth '
              'table (both exist). A run that check_run rejects while the oracle passes is reported as a disagreement. '
              'Besides: proved in Coq for '
              'the model (eval_pattern / max_pattern / _generate_inputs_tt regenerated from the current source by '
              'translator t5; the simulation loops, _eval_dont_cares, evaluate_truth_table_with_dont_cares, the cut '
              'filtering, _get_internal_gates and the output classification regenerated by translator t21 and proved '
              'equal to the hand-written functions, C04_cone_code_regenerated; the hand model is also compared with '
              '_get_subcircuits, _eval_dont_cares, evaluate_truth_table_with_dont_cares on generated cones): for every cut size the patterns are the truth '
              'tables of the cone nodes over the cut, the table given to the synthesiser is the cone function on the '
              'care rows, equal / complementary patterns mean equal / negated functions; the care-set substitution theorem '
              'for the function replace_subcircuit (C04_care_set_substitution: whenever replace_subcircuit c sub imap omap '
              'returns c\' and the executable cone check accepts host cone vs. replacement on all 2^k leaf vectors or on a '
              'care set that care_covers accepts, every surviving gate, in particular every circuit output, has in c\' the '
              'value it had in c under every Boolean primary-input vector, and - when the replacement has accepted arities and '
              'no primary input is removed - evaluate on every Boolean vector and get_truth_table return equal results '
              '(C04_care_set_substitution_truth_table); obtained by combining the validator facts with '
              'the semantic theorem of replace_subcircuit of C19); on recorded states check_step / check_subst are '
              'sound (an accepted step preserves the value of every surviving gate and of every circuit output under '
              'every assignment whose leaf vector was compared); check_merge is sound for the all-outputs-trivial branch. '
              'On every run each Circuit.replace_subcircuit call made by minimize_subcircuits is recorded, replayed through '
              'the model (exact state equality) and accepted by check_subst on all 2^k leaf vectors or on the care set '
              '(with care_covers); each trivial-branch merge is recorded (state before / after) and accepted by '
              'check_merge; then the whole run is accepted by check_run (first on all 2^k leaf vectors for every event, '
              'else with the recorded care sets). The search is not verified (that it terminates without error, finds a '
              'step, does not enlarge the circuit): '
              'the end-to-end clauses are checked by brute force on every generated run and on the fixed corpus '
              '(harness/corpus/C04: minimal failing inputs of the defects repaired by fixes/D30..D39)')
LEVEL_NOTE = ('Coq kernel + vm_compute; translator t5 (Python ast -> Gallina, N arithmetic; UnsupportedOperationError is '
              'modelled as Err GenerationError); translator t21 (translator/t21_*.py, fixed prelude Model/SubcircuitPrims.v) '
              'regenerates on every check, statement by statement, the per-cut simulation loop and the whole of '
              '_get_subcircuits (sorting, cut filtering, node sets, _Subcircuit records), '
              '_Subcircuit.evaluate_truth_table_with_dont_cares, _eval_dont_cares, _get_internal_gates and the '
              'classification of the outputs of a subcircuit inside minimize_subcircuits into '
              'Generated/SubcircuitAlgGen.v, and C04_cone_code_regenerated proves each equal to the hand model '
              '(PatternSim.simulate_cone / cone_size / cone_outputs / tt_with_dont_cares / reachable_vectors; '
              'Model/SubcircuitAlg.v for the parts that had no model); its trusted conventions: Python ints as N '
              '(MAX_PATTERN - p truncates at 0), a set is the list of its distinct elements and its ITERATION order an '
              'arbitrary function set_iter (the leaf order of a cut, a parameter of the hand model too), a read of a '
              'defaultdict does not insert (accepted only where the key set is unobservable or under `k in d`), '
              '`while` on fuel, objects as records; side conditions of the equalities: set_iter permutes, cuts without '
              'repeated leaf and with at most cut_size leaves, distinct circuit inputs, fuel above the number of inputs '
              'for _eval_dont_cares; hand-written model of the simulation loops and of replace_subcircuit; '
              'recorder that wraps Circuit.replace_subcircuit, Circuit.get_gate_users / remove_gate (calls made from the '
              'frame of minimize_subcircuits) and _Subcircuit.evaluate_truth_table_with_dont_cares from the harness '
              'process; the model is of the code repaired by fixes/D25.patch and fixes/D33.patch (cone outputs: circuit '
              'outputs, gates without users, gates used outside the cut\'s node set or by a leaf); pysat / mockturtle shims (the real cut enumerator and solver are absent: any valid cut '
              'family is inside the property\'s quantifier, each step is validated rather than assumed). Hypotheses of the '
              'theorems: NoDup leaves, cone_okb (supported types, operand count that eval_pattern reads completely, operands '
              'before users), operands < 2^(2^n); '
              'for the substitution theorem about replace_subcircuit: Inv (C02) of host and replacement, arity_ok of the host '
              '(needed: C19_replace_subcircuit_arity_needed), acceptance by check_step_map on the care set and care_covers; '
              'for the validator form: acceptance by check_subst and a compared leaf vector under the assignment. The '
              'harness validates recorded steps with check_subst on the states before / after (the replay shows that the '
              'model function yields exactly the state after). For whole runs (C04_validated_run): WF and arity_ok of the '
              'ARGUMENT circuit only (both are also evaluated executably by check_run_case, so the harness verdict has no '
              'hypothesis left: C04_validated_run_closed); nothing is assumed about intermediate states - what the step '
              'theorems need there (inputs are INPUT gates, the cut leaves carry a compared Boolean vector) and WF / arity_ok '
              'of the result are executable conjuncts of check_run, because check_subst / check_merge do not establish them '
              'for the next state. Trusted for the run validation: the recorder (wrapper around minimize_subcircuits that dumps '
              'the argument at the entry and the result at the return; a replace_subcircuit call that raised, or whose result '
              'minimize_subcircuits discarded, is not an event), dump_circuit, the Coq term printer')
TECHNIQUE = ('regeneration of the pure parts of subcircuit.py from the source (t5, t21) with equality proofs against the hand '
             'model; proof of the pattern simulation, of a step validator and of a whole-run validator (check_run) + translation '
             'validation of every replacement step and of every whole run end to end + end-to-end oracle')
TRUSTED = ['hypotheses of C04_eval_pattern_den / C04_patterns_are_truth_tables, each witnessed necessary by a proved '
           'counterexample: (a) pattern_arity_ok: NOT has exactly one operand, GEQ/LT/LEQ/GT exactly two, the six n-ary '
           'types two or more - eval_pattern ignores surplus operands of NOT and of the comparison types '
           '(C04_cex_surplus_operand; such gates cannot be evaluated by cirbo either: their operator raises TypeError); '
           '(b) cone_okb - every operand of a cone node is a leaf or an earlier listed node, otherwise the defaultdict '
           'supplies pattern 0 (C04_cex_missing_node; this was the defect for cut families not closed under '
           'sub-cuts, repaired by fixes/D30.patch: the node set of a cut is closed under operands down to the leaves, and '
           'the check reports a cone that violates cone_okb for every cut family); (c) operands < 2^(2^n): the model uses N, where max_pattern - x truncates at 0 while Python would '
           'go negative (the theorem shows the range is preserved)',
           'the model is of the REPAIRED eval_pattern (fixes/D25.patch: the n-ary types AND OR XOR NAND NOR NXOR are folded '
           'over all operands; the unrepaired code read only the first two and changed the circuit function, e.g. inputs '
           'a,b,c, g = NXOR(a,b,c), h = AND(g,a), output h). On the unrepaired tree the regenerated model no longer '
           'satisfies C04_eval_pattern_den (the proof breaks) and the generated circuits with 3-4 operand gates give a '
           'failing input']
ASSUMPTIONS = ['the circuits generated for the end-to-end runs use NOT with one operand, the comparison types with two, and '
               'the n-ary types with two (85%) or three to four operands, possibly repeated (harness/subcorr.py)',
               'recorded steps whose replace_subcircuit / remove_gate call raises are replayed through the model (same error '
               'kind) but there is no result state to validate',
               'whole-run validation: the events of a run are the replace_subcircuit calls that returned normally and whose '
               'result minimize_subcircuits kept, and the trivial-branch merges whose remove_gate returned, in the order they '
               'happened; a call that raised is not an event (it worked on a copy that is dropped - if it did change the '
               'circuit the chain check fails). Runs with more than 40 events, with a state above 60 gates or with a '
               'non-identity label mapping in a step are not printed as Coq terms and are counted as skipped (histogram '
               '"whole runs"); runs that raise have no returned circuit and are not validated',
               'a step rejected by the validator on a run whose end-to-end oracle passes is reported as a disagreement for '
               'every cut family (the exception for families not closed under sub-cuts ended with fixes/D30.patch)',
               'the stand-in SAT solver gives up after 5,000,000 propagations of one call (deterministic) and the harness '
               'reports this as SolverTimeOutError, the outcome of solver_time_limit_sec; minimize_subcircuits then skips '
               'that subcircuit (exact synthesis with 5 leaves and 8 gates can otherwise take picosat tens of minutes)',
               'FailedValidationError on circuits with an XOR/NXOR gate of three or more operands whose result is otherwise '
               'correct is attributed to defect D2 (Tseytin templates, property C05) and recorded as a known finding']


CORPUS_FILE = pathlib.Path(__file__).resolve().parent.parent / 'harness' / 'corpus' / 'C04' / 'regressions.json'


def corpus_cases():
    """fixed cases: the minimal failing inputs of the defects repaired by fixes/D30..D39 (the former known
    findings and the inputs found while repairing them); they fail the oracle on the unrepaired library"""
    return [dict(e['case']) for e in json.loads(CORPUS_FILE.read_text())]


def synth_namespace_labels(rng, dump):
    """relabel a circuit inside the label space of the synthesiser itself ('0', '1', ... for the inputs of a found
    subcircuit, 's<k>' for its gates; bench files with numeric labels look like this): the renaming of a found
    subcircuit onto the circuit's labels must not collide with them, whatever leaf stands for whichever input"""
    labels = [g[0] for g in dump['gates']]
    n = len(labels)
    pool = [str(k) for k in range(max(6, n))] + ['s' + str(k) for k in range(max(10, n + 4))]
    new = rng.sample(pool, n) if rng.random() < 0.5 else (
        [str(k) for k in range(n)] if rng.random() < 0.5 else ['s' + str(k) for k in rng.sample(range(n + 6), n)])
    if rng.random() < 0.5:
        rng.shuffle(new)
    return gen.rename_dump(dump, dict(zip(labels, new)))


def gen_case(rng, i):
    case = gen_case_plain(rng, i)
    if rng.random() < 0.2:
        case['circuit'] = synth_namespace_labels(rng, case['circuit'])
    return case


def gen_case_plain(rng, i):
    r_ = rng.random()
    return {'circuit': subcorr.absorption_circuit(rng) if r_ < 0.12 else subcorr.negated_twin_circuit(rng) if r_ < 0.2 else subcorr.negated_output_cone_circuit(rng) if r_ < 0.26 else subcorr.negated_output_template(rng) if r_ < 0.34
            else subcorr.random_supported_circuit(rng), 'basis': rng.choice(['AIG', 'XAIG', 'FULL', 'aig', 'xaig']),
            'cut_seed': None if rng.random() < 0.7 else rng.randrange(10 ** 6),
            'time_limit': None, 'validate': rng.random() < 0.5,
            'max_subcircuit_size': rng.choice([9, 9, 4, 6]), 'cut_size': rng.choice([5, 5, 3, 4]),
            'cut_limit': rng.choice([25, 25, 4, 8])}


def correspondence(ctx, model_ok):
    r = CorrResult()
    r.rule = ('random circuits over the supported gate set (NOT, four comparison types, six n-ary types with 2-4 operands), '
              'bases AIG/XAIG/FULL in both spellings, '
              'sampled max_subcircuit_size / cut_size / cut_limit, the full k-feasible cut family of the shim enumerator or '
              '(30%) a seeded random valid sub-family in random order, validation on/off; end-to-end run of '
              'minimize_subcircuits through the shim solver with every replace_subcircuit call and every trivial-branch merge '
              'recorded, replayed through the model and validated, and every run that returns validated end to end (argument '
              'circuit, ordered events, returned circuit) by the proved validator check_run; plus pattern operations / cone simulation / don\'t-care '
              'tables against the model on generated operands and cones; non-trivial = the call returned a circuit')
    cases = []
    runs = []
    merges = []
    records = []    # per run: argument circuit, ordered events, returned circuit (whole-run validation)
    closed = []     # per run: was the supplied cut family closed under sub-cuts
    fixed = corpus_cases()
    for i in range(len(fixed) + ctx.n(250, 3000)):
        case = fixed[i] if i < len(fixed) else gen_case(ctx.rng, i)
        run_case = dict(case)
        with patcorr.recording() as rec:
            res = subcorr.run_minimize(run_case)
        closed.append(run_case.get('_closed_family', True))
        cases.append(case)
        runs.append((case, rec.steps))
        merges.append((case, rec.merges))
        records.append(patcorr.run_record(case, rec, res))
        r.add_case({k: v for k, v in case.items()}, res[0] == 'ok')
        r.count('outcome', 'returned' if res[0] == 'ok' else f'{res[1]}@{res[2]}')
        r.count('basis', case['basis'].upper())
        r.count('cut_family', 'full' if case['cut_seed'] is None else 'random sub-family')
        r.count('source', 'fixed corpus' if i < len(fixed) else 'generated')
    r._cases = cases
    # translation validation of every recorded replace_subcircuit call (model replay + check_subst)
    # A step that the validator rejects is a wrong replacement (or one the validator cannot certify).  When
    # the run nevertheless satisfies the end-to-end oracle this is reported as a disagreement, whatever the
    # cut family was (until fixes/D30.patch a cut family that is not closed under sub-cuts gave wrong patterns
    # and hence locally wrong replacements; that exception is gone).
    def judge(kind, i, st, why, case):
        msg = oracle(dict(case))
        if msg is not None:
            r.count(kind, 'rejected step on a run that fails end to end: ' + classify(case, msg))
        else:
            r.disagreements.append({'name': 'a step is rejected by the validator on a run (cut family '
                                            + ('closed' if closed[i] else 'not closed') + ' under sub-cuts) whose '
                                            'end-to-end oracle passes', 'case': case,
                                    'detail': {'kind': kind, 'why': why, 'step': {k: st[k] for k in st
                                                                                 if k in ('imap', 'omap', 'o', 'l')}}})

    for i, st, why in patcorr.validate_steps(ID, r, runs, model_ok):
        judge('step validation', i, st, why, runs[i][0])
    # the all-outputs-trivial branch (no replace_subcircuit call): before / after states through check_merge
    for i, st, why in patcorr.validate_merges(ID, r, merges, model_ok):
        judge('trivial-branch validation', i, st, why, merges[i][0])
    # whole runs, end to end: the argument circuit, the ordered events and the returned circuit of every run that
    # returned normally through the proved validator check_run (C04_validated_run): the recorded states chain
    # from the argument to the result and every event is accepted.  Same policy as for single steps: a run that
    # check_run rejects while the end-to-end oracle passes is a disagreement.
    runs_validated, rejected_runs = patcorr.validate_runs(ID, r, records, model_ok)
    for i, why in rejected_runs:
        case = records[i]['case']
        msg = oracle(dict(case))
        if msg is not None:
            r.count('whole-run validation', 'rejected run that fails end to end: ' + classify(case, msg))
        else:
            r.disagreements.append({'name': 'a whole run is rejected by check_run (the recorded steps do not account for '
                                            'the returned circuit) while its end-to-end oracle passes', 'case': case,
                                    'detail': {'why': why, 'events': [(k, {f: st[f] for f in st if f in ('imap', 'omap', 'o', 'l')})
                                                                      for k, st in records[i]['events']]}})
    r.rule += f'; runs validated end to end by check_run: {runs_validated}'
    # pattern operations, cone simulation, don't-care tables against the model
    patcorr.run_pattern_corr(ctx, ID, r, model_ok)
    r.extra = {'programs': len(runs),
               'disagreements_checked': sum(len(s) for _, s in runs) + sum(len(m) for _, m in merges),
               'runs_validated_end_to_end': runs_validated,
               'explanation': 'programs = end-to-end minimize_subcircuits runs; disagreements_checked = recorded '
                              'replace_subcircuit calls + trivial-branch merges replayed through the model and the validator; '
                              'runs_validated_end_to_end = runs whose whole record (argument circuit, ordered events, '
                              'returned circuit) is accepted by the proved validator check_run'}
    return r


PRIMITIVE_CASES = ([{'primitive': 'inputs_tt', 'n': n} for n in range(0, 11)]
                   + [{'primitive': 'eval_pattern', 'n': n, 'seed': s} for n in (0, 1, 2, 3, 5, 6, 7, 8) for s in range(3)])


def oracle_primitive(case):
    """the pattern primitives against their definition, directly on the implementation: pattern j of
    _generate_inputs_tt(n) has bit i set iff bit j of i is set (i < 2^n, nothing above), max_pattern is
    2^(2^n) - 1, eval_pattern computes the gate's function bit by bit.  Sizes above the default cut size
    are included: minimize_subcircuits accepts any cut_size"""
    import random
    from cirbo.core.circuit import gate
    from cirbo.minimization.subcircuit import _PatternOperations, _generate_inputs_tt
    n = case['n']
    rows = 1 << n
    if case['primitive'] == 'inputs_tt':
        # whatever order the rows are in: the n patterns, read row by row, must enumerate every assignment of the n
        # leaves exactly once (then the pattern of a gate IS its truth table over the leaves), and no pattern may
        # have a bit outside the 2^n rows
        tts = _generate_inputs_tt(n)
        if len(tts) != n:
            return f'_generate_inputs_tt({n}) has {len(tts)} patterns'
        if any(p < 0 or p >> rows for p in tts):
            return f'_generate_inputs_tt({n}) has a pattern with bits outside the 2^{n} rows'
        seen = {tuple((p >> i) & 1 for p in tts) for i in range(rows)}
        if len(seen) != rows:
            return (f'_generate_inputs_tt({n}): the rows enumerate only {len(seen)} of the {rows} assignments of the '
                    f'leaves (pattern simulation no longer denotes evaluation for cuts with {n} leaves)')
        if _PatternOperations(n).max_pattern != (1 << rows) - 1:
            return f'max_pattern of size {n} is not the all-ones pattern of 2^{n} rows'
        return None
    rng = random.Random(case['seed'] * 1000 + n)
    po = _PatternOperations(n)
    for name in ['NOT', 'AND', 'NAND', 'OR', 'NOR', 'XOR', 'NXOR', 'GEQ', 'LT', 'LEQ', 'GT']:
        k = 1 if name == 'NOT' else (2 if name in ('GEQ', 'LT', 'LEQ', 'GT') else rng.choice([2, 2, 3, 4]))
        ops = [rng.getrandbits(rows) for _ in range(k)]
        if rng.random() < 0.3 and k >= 2:
            ops[-1] = ops[0]
        got = po.eval_pattern(list(ops), name)
        op = getattr(gate, name).operator
        exp = sum(int(bool(op(*[bool((o >> i) & 1) for o in ops]))) << i for i in range(rows))
        if got != exp:
            return f'eval_pattern({name}, size {n}) differs from the gate function on patterns {ops}: {got} instead of {exp}'
    return None


def oracle_cases(ctx, corr):
    return [dict(c) for c in PRIMITIVE_CASES] + [dict(c) for c in getattr(corr, '_cases', [])]


def oracle(case):
    if 'primitive' in case:
        return oracle_primitive(case)
    case = dict(case)
    case['circuit'] = dict(case['circuit'])
    case['circuit']['gates'] = [tuple(g) for g in case['circuit']['gates']]
    return subcorr.oracle(case)


def classify(case, msg):
    m = re.match(r'internal error (\w+)@(\w+)', msg)
    if m:
        return f'internal:{m.group(1)}@{m.group(2)}'
    if msg.startswith('FailedValidationError (cut family not closed'):
        return 'failed-validation:non-closed-cut-family'
    if msg.startswith('FailedValidationError') and subcorr.has_nary_xor(case['circuit']):
        # defect D2 (C05): the Tseytin templates of XOR/NXOR read only two operands, so the miter of two
        # equivalent circuits with a ternary XOR can be satisfiable.  Only when the same run without
        # validation satisfies every other clause of the property is the failure attributed to D2.
        plain = dict(case)
        plain['validate'] = False
        if oracle(plain) is None:
            return 'failed-validation:nary-xor-tseytin-D2'
    if msg.startswith('wrong function (cut family not closed'):
        return 'wrong-function:non-closed-cut-family'
    if msg.startswith('result has more non-trivial gates'):
        return 'size-increase'
    return msg.split(':')[0][:60]


def search(ctx, budget_s):
    t0 = time.time()
    for c in PRIMITIVE_CASES:
        msg = oracle(c)
        if msg:
            return dict(c), msg
    i = 0
    while time.time() - t0 < budget_s:
        i += 1
        c = gen_case(ctx.rng, i)
        msg = oracle(c)
        if msg:
            return c, msg
    return None
