"""C04 SAT-based subcircuit minimization returns an equivalent, not larger circuit."""
import re
import time

from framework.checklib import CorrResult
from harness import patcorr, subcorr
from translator import t5_patterns

ID = 'C04'
TRANSLATORS = [t5_patterns.translate]
PROPERTY_FILE = 'Properties/C04.v'
THEOREMS = []
PARTIAL = {}
LEVEL_TEXT = 'pending'
LEVEL_NOTE = 'pending'
TECHNIQUE = 'pending'
TRUSTED = []
ASSUMPTIONS = []


def gen_case(rng, i):
    return {'circuit': subcorr.random_supported_circuit(rng), 'basis': rng.choice(['AIG', 'XAIG', 'FULL', 'aig', 'xaig']),
            'cut_seed': None if rng.random() < 0.7 else rng.randrange(10 ** 6),
            'time_limit': None, 'validate': rng.random() < 0.5,
            'max_subcircuit_size': rng.choice([9, 9, 4, 6]), 'cut_size': rng.choice([5, 5, 3, 4]),
            'cut_limit': rng.choice([25, 25, 4, 8])}


def correspondence(ctx, model_ok):
    r = CorrResult()
    r.rule = ('random circuits over the supported gate set (NOT + ten binary types), bases AIG/XAIG/FULL in both spellings, '
              'sampled max_subcircuit_size / cut_size / cut_limit, the full k-feasible cut family of the shim enumerator or '
              '(30%) a seeded random valid sub-family in random order, validation on/off; end-to-end run of '
              'minimize_subcircuits through the shim solver; non-trivial = the call returned a circuit')
    cases = []
    runs = []
    for i in range(ctx.n(250, 3000)):
        case = gen_case(ctx.rng, i)
        with patcorr.recording() as rec:
            res = subcorr.run_minimize(dict(case))
        cases.append(case)
        runs.append((case, rec.steps))
        r.add_case({k: v for k, v in case.items()}, res[0] == 'ok')
        r.count('outcome', 'returned' if res[0] == 'ok' else f'{res[1]}@{res[2]}')
        r.count('basis', case['basis'].upper())
        r.count('cut_family', 'full' if case['cut_seed'] is None else 'random sub-family')
    r._cases = cases
    # translation validation of every recorded replace_subcircuit call (model replay + check_subst)
    for i, st, why in patcorr.validate_steps(ID, r, runs, model_ok):
        msg = oracle(dict(runs[i][0]))
        if msg is None:
            r.disagreements.append({'name': 'a replacement step is rejected by the validator on a run whose '
                                            'end-to-end oracle passes', 'case': runs[i][0],
                                    'detail': {'why': why, 'imap': st['imap'], 'omap': st['omap']}})
        else:
            r.count('step validation', 'rejected step on a run that fails end to end: ' + classify(runs[i][0], msg))
    # pattern operations, cone simulation, don't-care tables against the model
    patcorr.run_pattern_corr(ctx, ID, r, model_ok)
    return r


def oracle_cases(ctx, corr):
    return [dict(c) for c in getattr(corr, '_cases', [])]


def oracle(case):
    case = dict(case)
    case['circuit'] = dict(case['circuit'])
    case['circuit']['gates'] = [tuple(g) for g in case['circuit']['gates']]
    return subcorr.oracle(case)


def classify(case, msg):
    m = re.match(r'internal error (\w+)@(\w+)', msg)
    if m:
        return f'internal:{m.group(1)}@{m.group(2)}'
    if msg.startswith('FailedValidationError (cut family not closed'):
        return 'failed-validation:non-closed-cut-family'
    if msg.startswith('wrong function (cut family not closed'):
        return 'wrong-function:non-closed-cut-family'
    if msg.startswith('result has more non-trivial gates'):
        return 'size-increase'
    return msg.split(':')[0][:60]


def search(ctx, budget_s):
    t0 = time.time()
    i = 0
    while time.time() - t0 < budget_s:
        i += 1
        c = gen_case(ctx.rng, i)
        msg = oracle(c)
        if msg:
            return c, msg
    return None
