"""C17 Shipped circuit databases are correct and lookups return the requested function."""
import itertools
import time

from framework.checklib import CorrResult
from framework import coqrun
from harness import codeccorr as cc
from harness import dbsweep
from translator import t8_codec

ID = 'C17'
TRANSLATORS = [t8_codec.translate]
PROPERTY_FILE = 'Properties/C17.v'
THEOREMS = [
    'C17_check_entry_sound', 'C17_sweep_slice_sound', 'C17_records_cover_dictionary',
    'C17_truth_table_is_semantics', 'C17_swept_file_is_db_ok',
    'C17_lookup_returns_requested_function', 'C17_lookup_none_only_if_absent', 'C17_lookup_complete_statement',
    'C17_model_lookup_never_raises',
    'C17_model_lookup_agrees_and_is_minimal', 'C17_model_lookup_minimal_among_all_completions',
]
PARTIAL = {}
LEVEL_TEXT = (
    'data half: EVERY record of both shipped databases (2 x 349,724) is run, on every quick and thorough run, '
    'through the extracted Coq checker check_entry, proved to imply: the entry decodes, the decoded circuit is well '
    'formed (distinct labels, input list = INPUT gates, operands defined earlier, users index = inverse operand '
    'multiset), its truth table - which is proved to be the relational semantics - equals the key, its gates are in '
    'the basis (AIG: AND/NOT; XAIG: the ten binary gates + NOT); a seeded sample is re-checked inside the Coq kernel. '
    'Lookup half: theorems over the Gallina model of normalization.py and db.py for any database whose stored '
    'circuits compute their keys: the fully defined lookup returns a circuit computing exactly the requested table '
    '(through output negation, stable sort, de-duplication and their inverses) or nothing only if the normalised '
    'table is not stored; the don\'t-care lookup agrees with every defined entry and is no larger than the stored '
    'circuit of any completion. Model tied to the code by exact correspondence of normalisation, both lookups '
    '(full circuit state) and decode on generated tables and on entries of the shipped files')
LEVEL_NOTE = (
    'Coq kernel + vm_compute; extraction (ExtrOcamlBasic, ExtrOcamlString, nat/N/positive kept inductive), OCaml '
    '4.13 ocamlfind ocamlopt and the ~50-line driver.ml for the full sweep; lzma decompression by Python; translator '
    'T8; correspondence harness; the partition of the records into ranges is done by the harness and re-checked by '
    'count')
TECHNIQUE = (
    'complete enumeration of the finite data by an extracted checker with a Coq soundness proof (reflection), '
    'kernel re-check of a sample by vm_compute; Coq proofs about normalisation / denormalisation (stable insertion '
    'sort is a permutation, index maps are inverse) and about the lookup loops; vm_compute correspondence')
TRUSTED = ['extraction to OCaml and the OCaml compiler/runtime (full sweep only; the sample is re-checked in the kernel)',
           'coq/Extract/driver.ml (reads the file, deals ranges, prints failing indices) and harness/dbsweep.py',
           'lzma.open of the two .xz files; the decompressed images are what the implementation itself reads']
ASSUMPTIONS = ['the lookup theorems assume the database satisfies db_ok (every stored entry decodes to a circuit '
               'computing its key); for the shipped files this is what the sweep establishes entry by entry',
               'labels of decoded circuits are gate_<i>, so not_<label> is fresh: proved (CodecIds.gen_label_not_not)']

SAMPLE_KERNEL = {'quick': 600, 'thorough': 4000}


def _norm(case):
    import json
    return json.loads(json.dumps(case))


def all_tables(n_in, n_out):
    rows = list(itertools.product((0, 1), repeat=2 ** n_in))
    return itertools.product(rows, repeat=n_out)


def random_table(rng, n_in, n_out):
    t = []
    for _ in range(n_out):
        r = rng.random()
        if t and r < 0.2:
            t.append(list(rng.choice(t)))                       # equal outputs
        elif t and r < 0.4:
            t.append([1 - x for x in rng.choice(t)])            # complementary outputs
        else:
            t.append([rng.randrange(2) for _ in range(2 ** n_in)])
    return t


def sub_dictionary(rng, name, tables, extra=2, drop=False, corrupt=None):
    """the entries of the shipped database `name` that the lookups of `tables` need, plus a few others"""
    d = cc.shipped(name)
    keys = []
    for t in tables:
        k = cc.ref_label(cc.ref_normalize(t))
        if k in d and k not in keys:
            keys.append(k)
    if drop and keys:
        keys.pop(rng.randrange(len(keys)))
    pool = _pool(name)
    for _ in range(extra):
        k = rng.choice(pool)
        if k not in keys:
            keys.append(k)
    rng.shuffle(keys)
    entries = [[k, d[k].hex()] for k in keys]
    if corrupt and entries:
        i = rng.randrange(len(entries))
        if corrupt == 'garbage':
            entries[i][1] = bytes(rng.randrange(256) for _ in range(rng.randint(0, 6))).hex()
        elif corrupt == 'other':
            entries[i][1] = d[rng.choice(pool)].hex()
    return entries


_POOLS = {}


def _pool(name):
    if name not in _POOLS:
        _POOLS[name] = list(cc.shipped(name))
    return _POOLS[name]


def gen_cases(ctx):
    rng = ctx.rng
    cases = []
    # normalisation alone
    for _ in range(ctx.n(150, 1500)):
        n_in = rng.choice([0, 1, 2, 2, 3, 3])
        t = random_table(rng, n_in, rng.randint(1, 4))
        if rng.random() < 0.05:
            t = [] if rng.random() < 0.5 else t + [[]]
        cases.append({'kind': 'norm', 'table': t})
    # fully defined lookups on sub-dictionaries of the shipped files
    lookups = []
    for n_out in (1, 2):
        for t in all_tables(2, n_out):
            lookups.append([list(r) for r in t])
    for _ in range(ctx.n(120, 1500)):
        lookups.append(random_table(rng, 2, 3))
    for _ in range(ctx.n(260, 3000)):
        lookups.append(random_table(rng, 3, rng.randint(1, 3)))
    for i, t in enumerate(lookups):
        name = 'aig' if i % 2 == 0 else 'xaig'
        r = rng.random()
        corrupt = None if r < 0.9 else rng.choice(['garbage', 'other'])
        cases.append({'kind': 'lookup', 'db': name, 'table': t, 'corrupt': corrupt,
                      'entries': sub_dictionary(rng, name, [t], drop=rng.random() < 0.08, corrupt=corrupt)})
    # lookups with don't-cares
    models = [[list(p)] for p in itertools.product((0, 1, None), repeat=4)]
    for _ in range(ctx.n(90, 900)):
        n_in = rng.choice([2, 2, 3])
        n_out = rng.choice([1, 2, 2, 3])
        t = random_table(rng, n_in, n_out)
        cells = [(i, j) for i in range(n_out) for j in range(2 ** n_in)]
        for i, j in rng.sample(cells, rng.randint(0, min(5, len(cells)))):
            t[i][j] = None
        models.append(t)
    for i, tm in enumerate(models):
        name = 'xaig' if i % 2 == 0 else 'aig'
        pos = [(a, b) for a, row in enumerate(tm) for b, x in enumerate(row) if x is None]
        comps = []
        for sub in itertools.product((0, 1), repeat=len(pos)):
            t = [[0 if x is None else x for x in row] for row in tm]
            for (a, b), v in zip(pos, sub):
                t[a][b] = v
            comps.append(t)
        excl = None if rng.random() < 0.7 else rng.choice([[], ['INPUT'], ['INPUT', 'NOT'], ['INPUT', 'AND', 'XOR']])
        cases.append({'kind': 'model_lookup', 'db': name, 'table': tm, 'exclusion': excl, 'corrupt': None,
                      'entries': sub_dictionary(rng, name, comps, extra=1, drop=rng.random() < 0.3)})
    # decode of entries of the shipped files (structural comparison of the decoded circuit)
    for name in ('aig', 'xaig'):
        d = cc.shipped(name)
        for k in rng.sample(_pool(name), ctx.n(120, 2000)):
            cases.append({'kind': 'decode', 'db': name, 'key': k, 'bytes': d[k].hex()})
    return [_norm(c) for c in cases]


def _py_sweep_worker(args):
    name, keys = args
    out = []
    for k in keys:
        try:
            msg = cc.oracle_entry({'kind': 'entry', 'db': name, 'key': k})
        except Exception as e:  # noqa: BLE001
            msg = f'oracle crashed: {type(e).__name__}: {e}'
        if msg:
            out.append((name, k, msg))
    return out


def python_sweep(processes=16, chunk=4000):
    import multiprocessing
    jobs = []
    for name in ('aig', 'xaig'):
        keys = list(cc.shipped(name))
        jobs += [(name, keys[i:i + chunk]) for i in range(0, len(keys), chunk)]
    with multiprocessing.get_context('fork').Pool(processes) as pool:
        res = pool.map(_py_sweep_worker, jobs)
    return [x for part in res for x in part]


def correspondence(ctx, model_ok):
    r = CorrResult()
    r.rule = ('data: every record of both shipped files through the extracted check_entry (counts in notes), a seeded '
              'sample through the same function inside the kernel; model vs implementation: NormalizationInfo on random '
              'tables with equal / complementary / empty rows; get_by_raw_truth_table on all 2-input tables with 1-2 '
              'outputs, sampled 2-input 3-output and 3-input 1-3-output tables over sub-dictionaries of the shipped '
              'files (needed entry present, dropped, or replaced by garbage / by another entry); '
              'get_by_raw_truth_table_model on all 81 don\'t-care patterns of one 2-input output and sampled larger '
              'ones with default and custom exclusion lists; decode_circuit on sampled shipped entries; results '
              'compared exactly (full circuit state, error kind). non-trivial = table with at least one row / entry '
              'with a gate; distinct = hash of the case')
    cases = gen_cases(ctx)
    kinds = ['norm', 'lookup', 'model_lookup', 'decode']
    terms = {k: [] for k in kinds}
    index = {k: [] for k in kinds}
    for i, case in enumerate(cases):
        kind = case['kind']
        try:
            term, tags = cc.RUNNERS[kind][0](case)
        except RecursionError:
            raise
        except Exception as e:  # noqa: BLE001
            r.disagreements.append({'name': f'{kind}: implementation could not be run on the case ({e!r})', 'case': case})
            continue
        terms[kind].append(term)
        index[kind].append(i)
        r.add_case(case, bool(case.get('table')) or kind == 'decode')
        r.count('kind', kind)
        for name, key in tags:
            r.count(name, key)
    r._cases = cases
    # ---- the data half: complete sweep + kernel sample
    sweep_ok = True
    r._bad_entries = []
    try:
        driver = dbsweep.build()
        total_checked = 0
        for name in ('aig', 'xaig'):
            res = dbsweep.sweep(name, driver)
            r.notes.append(f'sweep {name}: records={res["records"]} checked={res["checked"]} rejected={len(res["bad"])} '
                           f'in {res["seconds"]}s by {res["processes"]} processes (image {res["bytes"]} bytes)')
            r.count('sweep_records', name, res['checked'])
            r.evaluations += res['checked']
            total_checked += res['checked']
            d = cc.shipped(name)
            keys = _pool(name)
            if res['records'] != len(d) or res['checked'] != res['records'] or res['records'] != dbsweep.EXPECTED_RECORDS:
                sweep_ok = False
                r.disagreements.append({'name': f'sweep {name}: {res["records"]} records, {res["checked"]} checked, '
                                                f'{len(d)} keys read by the implementation, {dbsweep.EXPECTED_RECORDS} expected'})
            for i in res['bad'][:20]:
                sweep_ok = False
                case = {'kind': 'entry', 'db': name, 'key': keys[i], 'bytes': d[keys[i]].hex()}
                r._bad_entries.append(case)
                r.disagreements.append({'name': f'shipped {name} entry {keys[i]} rejected by check_entry', 'case': case})
            # the key set is exactly the set of normalised tables (implementation side)
            bad_keys = [k for k in keys if cc.ref_label(cc.ref_normalize([[int(ch) for ch in row] for row in k.split('_')])) != k]
            if bad_keys:
                sweep_ok = False
                r.disagreements.append({'name': f'{name}: {len(bad_keys)} keys are not normalised tables, e.g. {bad_keys[:3]}'})
        # the LIBRARY's own decoder on every record too (the extracted sweep above judges the data with the
        # model's decoder): decode_circuit must return a well-formed circuit in the basis computing the key
        t0 = time.time()
        py_bad = python_sweep()
        r.notes.append(f'python-side sweep of all records through decode_circuit: {len(py_bad)} failures in {time.time() - t0:.0f}s')
        for name, key, msg in py_bad[:20]:
            sweep_ok = False
            case = {'kind': 'entry', 'db': name, 'key': key}
            r._bad_entries.append(case)
            r.disagreements.append({'name': f'shipped {name} entry {key}: {msg}', 'case': case})
        r.EXTRA_COVERAGE = {'exhaustive': sweep_ok, 'exhaustive_domain': 'all records of aig_db.bin.xz and xaig_db.bin.xz',
                            'swept_entries': total_checked}
        r.notes.append(f'EXTRA_COVERAGE exhaustive={sweep_ok} swept_entries={total_checked}')
    except dbsweep.SweepError as e:
        r.disagreements.append({'name': 'database sweep could not be run: ' + str(e)[:600]})
    if model_ok:
        for kind in kinds:
            _, checker, ctype = cc.RUNNERS[kind]
            bad = coqrun.run_cases(ID, kind, cc.HEADER, terms[kind], checker, ctype)
            for j in bad:
                r.disagreements.append({'name': f'{kind}: model vs implementation', 'case': cases[index[kind][j]]})
        # kernel re-check of a seeded sample of the shipped entries
        for name, basis in (('aig', 'AIG_BASIS'), ('xaig', 'XAIG_BASIS')):
            d = cc.shipped(name)
            sample = ctx.rng.sample(_pool(name), SAMPLE_KERNEL[ctx.tier])
            terms_s = [f'({cc.nl(k.encode())}, {cc.nl(d[k])})' for k in sample]
            header = cc.HEADER[:-1] + ' Cirbo.Model.DbCheck.'
            bad = coqrun.run_cases(ID, f'kernel_{name}', header, terms_s, f'(check_sample {basis})', 'list N * list N')
            r.count('kernel_sample', name, len(sample))
            r.evaluations += len(sample)
            for j in bad:
                case = {'kind': 'entry', 'db': name, 'key': sample[j], 'bytes': d[sample[j]].hex()}
                r._bad_entries.append(case)
                r.disagreements.append({'name': f'shipped {name} entry {sample[j]} rejected in the kernel', 'case': case})
    return r


def oracle_cases(ctx, corr):
    rng = ctx.rng
    out = list(getattr(corr, '_bad_entries', []))
    out += [c for c in getattr(corr, '_cases', []) if c['kind'] in ('norm', 'lookup', 'model_lookup')]
    # the same questions asked of the complete shipped databases
    for name in ('aig', 'xaig'):
        for n_out in (1, 2):
            for t in all_tables(2, n_out):
                out.append({'kind': 'lookup', 'db': name, 'table': [list(r) for r in t]})
        for _ in range(ctx.n(60, 600)):
            out.append({'kind': 'lookup', 'db': name, 'table': random_table(rng, rng.choice([2, 3]), 3)})
        for p in itertools.product((0, 1, None), repeat=4):
            out.append({'kind': 'model_lookup', 'db': name, 'table': [list(p)], 'exclusion': None})
        for _ in range(ctx.n(30, 300)):
            t = random_table(rng, 3, rng.choice([1, 2]))
            cells = [(i, j) for i in range(len(t)) for j in range(8)]
            for i, j in rng.sample(cells, rng.randint(1, 5)):
                t[i][j] = None
            out.append({'kind': 'model_lookup', 'db': name, 'table': t, 'exclusion': None})
        d = cc.shipped(name)
        for k in rng.sample(_pool(name), ctx.n(300, 5000)):
            out.append({'kind': 'entry', 'db': name, 'key': k, 'bytes': d[k].hex()})
    return [_norm(c) for c in out]


def oracle(case):
    return cc.oracle(case)


def classify(case, msg):
    return msg.split(':')[0]


def search(ctx, budget_s):
    t0 = time.time()
    rng = ctx.rng
    while time.time() - t0 < budget_s:
        for name in ('aig', 'xaig'):
            d = cc.shipped(name)
            for k in rng.sample(_pool(name), 200):
                case = {'kind': 'entry', 'db': name, 'key': k, 'bytes': d[k].hex()}
                msg = oracle(case)
                if msg:
                    return case, msg
            for _ in range(50):
                case = {'kind': 'lookup', 'db': name, 'table': random_table(rng, rng.choice([2, 3]), rng.randint(1, 3))}
                msg = oracle(case)
                if msg:
                    return case, msg
    return None
