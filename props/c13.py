"""C13 A miter is true exactly where the two circuits differ."""
import time

from framework.checklib import CorrResult
from framework import coqrun
from harness import coqterm as ct, gen, semoracle

ID = 'C13'
TRANSLATORS = []
PROPERTY_FILE = 'Properties/C13.v'
THEOREMS = ['C13_mismatched_shapes_rejected', 'C13_ok_implies_equal_shapes', 'C13_miter_correct',
            'C13_miter_true_iff_differ', 'C13_miter_arities_accepted', 'C13_miter_evaluate',
            'C13_miter_truth_table_returns', 'C13_miter_total_default_names', 'C13_miter_total',
            'C13_default_names_no_clash', 'C13_example', 'C13_example_evaluate']
PARTIAL = {}
LEVEL_TEXT = ('proved for the model of build_miter (the composition add_circuit + two left connections + pairwise xor + '
              'OR/IFF of the modelled operations), for every normal return on well formed operands with non-empty block '
              'names: the miter is well formed, its inputs are the left circuit\'s inputs under the block prefix in '
              'order, its only output is big_or; for any number of outputs >= 1 (single output: the top gate is IFF) '
              'and every total assignment of the miter inputs the output is defined and is True exactly when some pair '
              'of corresponding outputs of the two circuits differs (left circuit read at the miter inputs, i-th input '
              'of the right circuit = i-th input of the left one); the same at the entry point: the miter has accepted '
              'arities again, so evaluate returns on it, and for every Boolean input vector evaluate(miter) = [b] with b = '
              '"evaluate(left) and evaluate(right) return different output vectors" (C13_miter_evaluate; soundness and '
              'completeness of the evaluators from C01); mismatched shapes give MiterDifferentShapesError '
              'for all arguments, and a normal return implies equal shapes; totality: with the block names of the implementation '
              '("circuit1", "circuit2") build_miter returns normally for ALL well formed operands of equal shapes, and for '
              'arbitrary names exactly under the stated no-clash condition. Operands are unmodified because the model '
              'is purely functional; the implementation side of that and the tie model = code come from the exact '
              'state correspondence and the truth-table oracle')
LEVEL_NOTE = ('Coq kernel + vm_compute (example); hand-written model Model/Miter.v over Model/Connect.v / Circuit.v '
              '(with the D3 repair: IFF instead of a one-operand OR), Model/Sem.v, Model/Den.v via Generated/Operators.v '
              '(translator T1). Hypotheses: WF l, WF r, block names non-empty; for the functional statement also '
              'arity_ok l, arity_ok r (every gate has an operand count its operator accepts; otherwise outputs may have '
              'no value) and at least one output. Totality (C13_miter_total*) needs WF and equal shapes only; for non-default block '
              'names the side condition MiterNoClash (Proofs/SemMiterTotal.v) lists the label / block-name clashes that '
              'make the code raise')
TECHNIQUE = ('Coq proof as a corollary of the C10 composition theorems (structure theorem three times, left-connection '
             'semantics), the xor gate, existence of Boolean values on well formed arity-correct circuits, and the '
             'n-ary OR fold; model tied to /repo by full-state correspondence and the truth-table oracle')
TRUSTED = []
ASSUMPTIONS = []
HEADER = ('Require Import Cirbo.Model.Base Cirbo.Model.Gate Cirbo.Model.Circuit Cirbo.Model.History '
          'Cirbo.Model.Miter.')


def gen_pair(rng):
    n = rng.choice([0, 1, 1, 2, 2, 3, 4])
    m = rng.choice([1, 1, 1, 2, 2, 3])
    shared = rng.random() < 0.5

    def one(prefix, n_in, n_out):
        d = gen.random_circuit(rng, n_inputs=n_in, n_gates=rng.randint(0, 8), labels_prefix=prefix,
                               with_blocks=rng.random() < 0.2, max_outputs=0)
        ls = [g[0] for g in d['gates']]
        d['outputs'] = [rng.choice(ls) for _ in range(n_out)] if ls else []
        return d
    l = one('x' if shared else None, n, m)
    if rng.random() < 0.15:
        r = one('x' if shared else 'y', n + rng.choice([0, 1]), m + rng.choice([0, 1, -1]) if m > 1 else m + 1)
    else:
        r = one('x' if shared else 'y', n, m)
        if len(r['outputs']) != len(l['outputs']):
            k = min(len(r['outputs']), len(l['outputs']))
            l['outputs'], r['outputs'] = l['outputs'][:k], r['outputs'][:k]
    return {'left': l, 'right': r}


def impl_miter(case):
    from cirbo.sat.miter import build_miter
    l, r = ct.build_circuit(case['left']), ct.build_circuit(case['right'])
    semoracle.spoil_gadgets(len(case['left']['outputs']))
    try:
        m = build_miter(l, r)
    except Exception as e:  # noqa: BLE001
        return ('err', ct.err_name(e))
    for name in ('circuit1', 'circuit2', 'pairwise_xor'):
        gen.canonicalise_block(m, name)
    return ('ok', ct.dump_circuit(m))


def correspondence(ctx, model_ok):
    gen.HOSTILE_P = 0.03     # unusual but legal labels: '', '@', 'a@b', mutual prefixes, case pairs
    r = CorrResult()
    r.rule = ('pairs of random circuits of equal shape (1-3 outputs incl. single output, 0-4 inputs, shared labels '
              'between the two, outputs that are inputs or repeated, blocks inside operands) plus ~15% mismatched '
              'shapes; the full state of build_miter(l, r) is compared with the model (composition of the modelled '
              'add_circuit / connect_circuit / pairwise xor / emplace / set_outputs); non-trivial = equal shapes')
    cases = []
    for _ in range(ctx.n(300, 4000)):
        case = gen_pair(ctx.rng)
        case['result'] = impl_miter(case)
        cases.append(case)
        r.add_case({'left': case['left'], 'right': case['right']}, case['result'][0] == 'ok')
        r.count('outputs', len(case['left']['outputs']))
        r.count('result', 'ok' if case['result'][0] == 'ok' else case['result'][1])
    r._cases = cases
    if model_ok:
        terms = [f'({ct.circuit(c["left"])}, {ct.circuit(c["right"])}, {ct.res(c["result"], ct.circuit)})' for c in cases]
        bad = coqrun.run_cases(ID, 'miter', HEADER, terms, 'check_miter_case', 'miter_case')
        for i in bad:
            r.disagreements.append({'name': 'build_miter: model vs implementation',
                                    'case': {'left': cases[i]['left'], 'right': cases[i]['right']}})
    return r


def oracle_cases(ctx, corr):
    return [{'left': c['left'], 'right': c['right']} for c in getattr(corr, '_cases', [])]


def oracle(case):
    return semoracle.oracle_miter(case)


def classify(case, msg):
    return msg.split(':')[0][:60]


def search(ctx, budget_s):
    t0 = time.time()
    while time.time() - t0 < budget_s:
        c = gen_pair(ctx.rng)
        msg = oracle(c)
        if msg:
            return c, msg
    return None
