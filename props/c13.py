"""C13 A miter is true exactly where the two circuits differ."""
import time

from framework.checklib import CorrResult
from framework import coqrun
from harness import coqterm as ct, gen, semoracle

ID = 'C13'
TRANSLATORS = []
PROPERTY_FILE = 'Properties/C13.v'
THEOREMS = []
PARTIAL = {}
LEVEL_TEXT = 'pending'
LEVEL_NOTE = 'pending'
TECHNIQUE = 'pending'
TRUSTED = []
ASSUMPTIONS = []
HEADER = ('Require Import Cirbo.Model.Base Cirbo.Model.Gate Cirbo.Model.Circuit Cirbo.Model.History '
          'Cirbo.Model.Miter.')


def gen_pair(rng):
    n = rng.choice([0, 1, 1, 2, 2, 3, 4])
    m = rng.choice([1, 1, 1, 2, 2, 3])
    shared = rng.random() < 0.5

    def one(prefix, n_in, n_out):
        d = gen.random_circuit(rng, n_inputs=n_in, n_gates=rng.randint(0, 8), labels_prefix=prefix,
                               with_blocks=rng.random() < 0.2, max_outputs=0)
        ls = [g[0] for g in d['gates']]
        d['outputs'] = [rng.choice(ls) for _ in range(n_out)] if ls else []
        return d
    l = one('x' if shared else None, n, m)
    if rng.random() < 0.15:
        r = one('x' if shared else 'y', n + rng.choice([0, 1]), m + rng.choice([0, 1, -1]) if m > 1 else m + 1)
    else:
        r = one('x' if shared else 'y', n, m)
        if len(r['outputs']) != len(l['outputs']):
            k = min(len(r['outputs']), len(l['outputs']))
            l['outputs'], r['outputs'] = l['outputs'][:k], r['outputs'][:k]
    return {'left': l, 'right': r}


def impl_miter(case):
    from cirbo.sat.miter import build_miter
    l, r = ct.build_circuit(case['left']), ct.build_circuit(case['right'])
    try:
        m = build_miter(l, r)
    except Exception as e:  # noqa: BLE001
        return ('err', ct.err_name(e))
    for name in ('circuit1', 'circuit2', 'pairwise_xor'):
        gen.canonicalise_block(m, name)
    return ('ok', ct.dump_circuit(m))


def correspondence(ctx, model_ok):
    r = CorrResult()
    r.rule = ('pairs of random circuits of equal shape (1-3 outputs incl. single output, 0-4 inputs, shared labels '
              'between the two, outputs that are inputs or repeated, blocks inside operands) plus ~15% mismatched '
              'shapes; the full state of build_miter(l, r) is compared with the model (composition of the modelled '
              'add_circuit / connect_circuit / pairwise xor / emplace / set_outputs); non-trivial = equal shapes')
    cases = []
    for _ in range(ctx.n(300, 4000)):
        case = gen_pair(ctx.rng)
        case['result'] = impl_miter(case)
        cases.append(case)
        r.add_case({'left': case['left'], 'right': case['right']}, case['result'][0] == 'ok')
        r.count('outputs', len(case['left']['outputs']))
        r.count('result', 'ok' if case['result'][0] == 'ok' else case['result'][1])
    r._cases = cases
    if model_ok:
        terms = [f'({ct.circuit(c["left"])}, {ct.circuit(c["right"])}, {ct.res(c["result"], ct.circuit)})' for c in cases]
        bad = coqrun.run_cases(ID, 'miter', HEADER, terms, 'check_miter_case', 'miter_case')
        for i in bad:
            r.disagreements.append({'name': 'build_miter: model vs implementation',
                                    'case': {'left': cases[i]['left'], 'right': cases[i]['right']}})
    return r


def oracle_cases(ctx, corr):
    return [{'left': c['left'], 'right': c['right']} for c in getattr(corr, '_cases', [])]


def oracle(case):
    return semoracle.oracle_miter(case)


def classify(case, msg):
    return msg.split(':')[0][:60]


def search(ctx, budget_s):
    t0 = time.time()
    while time.time() - t0 < budget_s:
        c = gen_pair(ctx.rng)
        msg = oracle(c)
        if msg:
            return c, msg
    return None
