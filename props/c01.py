"""C01 Evaluation equals the denotational semantics of the gate network."""
from framework.checklib import CorrResult
from framework import coqrun
from harness import evalcorr, gen
from translator import t1_operators

ID = 'C01'
TRANSLATORS = [t1_operators.translate]
PROPERTY_FILE = 'Properties/C01.v'
THEOREMS = ['C01_operators_denote', 'C01_semantics_functional', 'C01_semantics_composes_denotations',
            'C01_full_evaluation_sound', 'C01_stack_evaluation_sound']
PARTIAL = {}
LEVEL_TEXT = ('the evaluation entry points of the model are proved to report the relational denotational semantics (soundness: every reported value is the composition of the fixed gate functions) for all circuits and assignments; the regenerated operator tables are proved equal to the hand-written denotation for every type and arity; the model is tied to the code by regeneration (T1) and exact correspondence of all entry points')
LEVEL_NOTE = ('Coq kernel + vm_compute; translator T1; correspondence harness; hypotheses: input list names INPUT gates, '
              'assignment keys are inputs; completeness (every gate gets a value) and fuel adequacy: see PARTIAL in evidence')
TECHNIQUE = ('Coq proof: monotonicity of the regenerated 3-valued operator tables (case analysis + induction on the '
             'fold), lifted by induction over the relational netlist semantics; evaluators tied to the semantics by '
             'soundness theorems; model tied to /repo by regenerating the tables (translator T1) and by '
             'vm_compute correspondence of all evaluation entry points on generated circuits x partial assignments')
TRUSTED = ['hypotheses of the evaluator theorems: the input list names INPUT gates; the assignment assigns inputs only '
           '(assignments that pre-assign internal gates are exercised by the correspondence only)']
ASSUMPTIONS = ['termination of evaluate_circuit on the generated fuel is observed by correspondence, not proved']


def correspondence(ctx, model_ok):
    r = CorrResult()
    r.rule = ('seeded random DAGs over all 19 gate types (n-ary 2-5 operands, constants with 0/2 operands, repeated '
              'operands, dead logic, outputs that are inputs, repeated outputs); per circuit all 4^n assignments '
              '(True/False/Undefined/omitted per input) when 4^n <= budget else sampled; all three dict-valued '
              'evaluators + evaluate/evaluate_at/truth tables compared exactly incl. key order and error kind; '
              'non-trivial = at least one non-INPUT gate; distinct = hash of the case')
    n = ctx.n(150, 1500)
    cases = []
    for _ in range(n):
        dump = gen.random_circuit(ctx.rng, with_blocks=False)
        if ctx.rng.random() < 0.12:
            dump = gen.malformed_variant(ctx.rng, dump)   # separate malformed stream: error paths
            r.count('stream', 'malformed')
        else:
            r.count('stream', 'well-formed')
        case = evalcorr.make_case(ctx.rng, dump, n_assign=ctx.n(64, 256), n_vec=ctx.n(4, 16))
        cases.append(case)
        r.add_case(case, any(t != 'INPUT' for _, t, _ in dump['gates']))
        r.count('gates', len(dump['gates']) // 5 * 5)
        r.count('inputs', len(dump['inputs']))
        for _, t, _ in dump['gates']:
            r.count('gate_types', t)
        for x in case['acs']:
            r.count('full_result', x['full'][1] if x['full'][0] == 'err' else 'ok')
    r._cases = cases
    if model_ok:
        bad = coqrun.run_cases(ID, 'eval', evalcorr.HEADER, [evalcorr.case_term(c) for c in cases],
                               'check_eval_case', evalcorr.CASE_TYPE)
        for i in bad:
            r.disagreements.append({'name': 'evaluation entry points: model vs implementation',
                                    'case': cases[i]['circuit']})
    return r


def oracle_cases(ctx, corr):
    return [c['circuit'] for c in getattr(corr, '_cases', [])]


def oracle(dump):
    return evalcorr.oracle_c01(dump)


def classify(case, msg):
    return msg.split(':')[0]


def search(ctx, budget_s):
    import time
    t0 = time.time()
    while time.time() - t0 < budget_s:
        dump = gen.random_circuit(ctx.rng, with_blocks=False)
        msg = oracle(dump)
        if msg:
            return dump, msg
    return None
