"""C01 Evaluation equals the denotational semantics of the gate network."""
from framework.checklib import CorrResult
from framework import coqrun
from harness import evalcorr, gen
from translator import t1_operators, t9_circuit_core, t10_circuit_algos

ID = 'C01'
TRANSLATORS = [t1_operators.translate, t9_circuit_core.translate, t10_circuit_algos.translate]
PROPERTY_FILE = 'Properties/C01.v'
THEOREMS = ['C01_operators_denote', 'C01_semantics_functional', 'C01_semantics_composes_denotations',
            'C01_full_evaluation_sound', 'C01_stack_evaluation_sound',
            'C01_operators_accept', 'C01_operators_reject', 'C01_semantics_exists', 'C01_semantics_needs_arity',
            'C01_full_evaluation_complete', 'C01_full_evaluation_exact',
            'C01_stack_evaluation_fuel_adequate', 'C01_stack_evaluation_complete',
            'C01_stack_evaluation_unreached_undefined', 'C01_entry_points_agree',
            'C01_evaluate_agrees_with_full', 'C01_evaluate_at_is_component',
            'C01_outputs_evaluation_complete',
            'C01_zip_inputs_short', 'C01_zip_inputs', 'C01_zip_inputs_keys', 'C01_zip_inputs_nth',
            'C01_zip_inputs_general',
            'C01_evaluate_complete', 'C01_evaluate_sound', 'C01_evaluate_short',
            'C01_evaluate_at_complete', 'C01_evaluate_at_out_of_range',
            'C01_all_bool_vectors_length', 'C01_all_bool_vectors_nth', 'C01_all_bool_vectors_bits',
            'C01_all_bool_vectors_complete', 'C01_truth_table_complete', 'C01_gates_truth_table_complete',
            'C01_bool_vector_total',
            'C01_semantics_extensional', 'C01_semantics_gate_order', 'C01_full_evaluation_gate_order',
            'C01_semantics_label_renaming', 'C01_semantics_label_renaming_image',
            'C01_evaluate_gate_order', 'C01_truth_table_gate_order', 'C01_renaming_preserves_WF',
            'C01_evaluate_label_renaming', 'C01_truth_table_label_renaming',
            'C01_full_evaluation_label_renaming']
# No theorem is named ..._partial: every statement in Properties/C01.v is proved as stated.
# What the C01 theorems do not speak about is listed in LEVEL_NOTE (clause "other gate tables").
PARTIAL = {}
LEVEL_TEXT = ('proved in Coq for ALL well-formed circuits with operator-accepted arities and ALL (partial or total) '
              'assignments whose keys are inputs: the relational semantics Eval (composition of the one fixed function '
              'per gate type; the regenerated 3-valued operator tables are proved equal to the hand-written denotation '
              'for every type and arity) exists and is unique at every gate; evaluate_full_circuit is total and reports '
              'exactly these values at exactly the gates; evaluate_circuit never exhausts its fuel 2(|outs|+sum arity)+1, '
              'raises no error, reports the semantics at every requested output and Undefined at every gate that is '
              'neither an input nor reachable from them; evaluate_circuit_outputs, evaluate, evaluate_at, '
              'get_truth_table (row j, column i = value of output j under the i-th vector; all_bool_vectors proved to be '
              'the 2^n vectors in big-endian binary order) and get_gates_truth_table are total and return the same '
              'values; invariance: Eval depends on the gate map only as a finite map (any permutation / insertion '
              'order, evaluator results equal), injective label renaming preserves WF and leaves evaluate and the truth '
              'table EQUAL, duplicated operands/outputs need no special case; the model is tied to the code by '
              'regeneration (T1) and exact correspondence of all entry points')
LEVEL_NOTE = ('Coq kernel + vm_compute; translator T1; the evaluation entry points evaluate_full_circuit, '
              'evaluate_circuit, evaluate_circuit_outputs, evaluate, evaluate_at, get_truth_table and top_sort are regenerated '
              'from circuit.py by translators T9/T10 and proved equal to the model these theorems are about, on every WF '
              'circuit (Properties/C02.v C02_algorithms_regenerated, C02_evaluators_regenerated_wf); correspondence harness. Hypotheses of the totality/exactness '
              'theorems: WF c (the C02 invariant), arity_ok c (necessary: C01_semantics_needs_arity - a gate with a '
              'rejected arity has no value and evaluation raises TypeError), assignment keys are inputs (necessary: a '
              'pre-assigned internal gate is used as given by evaluate_circuit, e.g. a INPUT, n=NOT a, o=IFF n with '
              '{a:F, n:F} reports o=F; exercised by the correspondence only), requested outputs exist (otherwise '
              'GateDoesntExistError). Soundness theorems need only: input list names INPUT gates, assignment keys are '
              'inputs. Not covered by the C01 theorems: the clause about the OTHER gate-interpreting tables (CNF '
              'templates, synthesis codes, arithmetic codes, pattern simulation, bench conversion) - those are tied to '
              'Den.den under C05/C06/C07-C09/C04/C14')
TECHNIQUE = ('Coq proof: operator tables = denotation by case analysis + induction on the fold; existence of the '
             'semantics by induction on the acyclicity rank; Kahn evaluator by the top_sort prefix theorem; stack '
             'evaluator fuel adequacy by a potential argument with a ghost set of expanded labels (each label expanded '
             'at most once, rank excludes re-pushing above itself); entry points as compositions; invariance by '
             'induction on Eval; model tied to /repo by regenerating the tables (translator T1) and by vm_compute '
             'correspondence of all evaluation entry points on generated circuits x partial assignments')
TRUSTED = ['hypotheses of the evaluator theorems: WF c, arity_ok c, the assignment assigns inputs only '
           '(assignments that pre-assign internal gates are exercised by the correspondence only)']
ASSUMPTIONS = []


def correspondence(ctx, model_ok):
    gen.HOSTILE_P = 0.03     # unusual but legal labels: '', '@', 'a@b', mutual prefixes, case pairs
    r = CorrResult()
    r.rule = ('seeded random DAGs over all 19 gate types (n-ary 2-5 operands, constants with 0/2 operands, repeated '
              'operands, dead logic, outputs that are inputs, repeated outputs); per circuit all 4^n assignments '
              '(True/False/Undefined/omitted per input) when 4^n <= budget else sampled; all three dict-valued '
              'evaluators + evaluate/evaluate_at/truth tables compared exactly incl. key order and error kind; '
              'non-trivial = at least one non-INPUT gate; distinct = hash of the case')
    n = ctx.n(150, 1500)
    cases = []
    for _ in range(n):
        dump = gen.random_circuit(ctx.rng, with_blocks=False)
        if ctx.rng.random() < 0.12:
            dump = gen.malformed_variant(ctx.rng, dump)   # separate malformed stream: error paths
            r.count('stream', 'malformed')
        else:
            r.count('stream', 'well-formed')
        case = evalcorr.make_case(ctx.rng, dump, n_assign=ctx.n(64, 256), n_vec=ctx.n(4, 16))
        cases.append(case)
        r.add_case(case, any(t != 'INPUT' for _, t, _ in dump['gates']))
        r.count('gates', len(dump['gates']) // 5 * 5)
        r.count('inputs', len(dump['inputs']))
        for _, t, _ in dump['gates']:
            r.count('gate_types', t)
        for x in case['acs']:
            r.count('full_result', x['full'][1] if x['full'][0] == 'err' else 'ok')
    if not ctx.quick:
        # thorough: EXHAUSTIVE enumeration of all netlists with <= 2 inputs and <= 2 gates over a reduced type set
        for dump in gen.tiny_netlists():
            case = evalcorr.make_case(ctx.rng, dump, n_assign=16, n_vec=4)
            cases.append(case)
            r.add_case(case, any(t != 'INPUT' for _, t, _ in dump['gates']))
            r.count('stream', 'exhaustive-tiny')
        r.notes.append('thorough tier enumerated all 908 netlists with <= 2 inputs and <= 2 gates over ' + str(gen.TINY_TYPES))
    r._cases = cases
    if model_ok:
        bad = coqrun.run_cases(ID, 'eval', evalcorr.HEADER, [evalcorr.case_term(c) for c in cases],
                               'check_eval_case', evalcorr.CASE_TYPE)
        for i in bad:
            r.disagreements.append({'name': 'evaluation entry points: model vs implementation',
                                    'case': cases[i]['circuit']})
    return r


def oracle_cases(ctx, corr):
    return [c['circuit'] for c in getattr(corr, '_cases', [])]


def oracle(dump):
    return evalcorr.oracle_c01(dump) or evalcorr.oracle_after_edits(dump)


def classify(case, msg):
    return msg.split(':')[0]


def search(ctx, budget_s):
    import time
    t0 = time.time()
    while time.time() - t0 < budget_s:
        dump = gen.random_circuit(ctx.rng, with_blocks=False)
        msg = oracle(dump)
        if msg:
            return dump, msg
    return None
