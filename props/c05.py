"""C05 The circuit-to-CNF reduction is exact."""
import time

from framework.checklib import CorrResult
from framework import coqrun
from harness import gen, tseytincorr as tc
from translator import t1_operators, t2_tseytin

ID = 'C05'
TRANSLATORS = [t1_operators.translate, t2_tseytin.translate]
PROPERTY_FILE = 'Properties/C05.v'
THEOREMS = []
PARTIAL = {}
LEVEL_TEXT = ''
LEVEL_NOTE = ''
TECHNIQUE = ''
TRUSTED = []
ASSUMPTIONS = []


def correspondence(ctx, model_ok):
    r = CorrResult()
    r.rule = ('fixed corpus (every gate type at every accepted arity up to 5, repeated operands, constants with '
              '0/2 operands, outputs that are inputs / repeated) + seeded random DAGs over all 19 gate types '
              '(harness.gen.random_circuit: n-ary 2-5 operands, dead logic, shuffled gate order) x output selection '
              '(default None, explicit index lists incl. empty, repeated, negative and out-of-range indices), '
              '8% malformed netlists (dangling operand, too few / too many operands) for the error kinds; '
              'compared: EXACT clause list of tseytin_transformation(c, outs).get_raw() or the exception kind; '
              'plus every live _process_* function on literal vectors of length 0..6 against the regenerated '
              'templates; non-trivial = at least one non-INPUT gate is encoded; distinct = hash of the case')
    cases = list(tc.fixed_corpus())
    for c in cases:
        c['raw'] = list(tc.run_tseytin(c['circuit'], c['outs']))
    for _ in range(ctx.n(400, 4000)):
        cases.append(tc.random_case(ctx.rng))
    for case in cases:
        dump = case['circuit']
        nontrivial = case['raw'][0] == 'ok' and len(case['raw'][1]) > len(tc.selected_labels(dump, case['outs']) or [])
        r.add_case({'circuit': dump, 'outs': case['outs']}, nontrivial)
        r.count('gates', len(dump['gates']) // 5 * 5)
        r.count('inputs', len(dump['inputs']))
        r.count('selection', 'default' if case['outs'] is None else f'explicit[{min(len(case["outs"]), 4)}]')
        r.count('result', 'ok' if case['raw'][0] == 'ok' else case['raw'][1])
        if case['raw'][0] == 'ok':
            r.count('clauses', len(case['raw'][1]) // 10 * 10)
        for _, t, ops in dump['gates']:
            r.count('gate_types', t)
            if t != 'INPUT':
                r.count('arity', len(ops))
    tcases = tc.template_cases(ctx.rng, ctx.n(40, 200))
    for t in tcases:
        r.count('template_result', 'ok' if t['res'][0] == 'ok' else t['res'][1])
    r.evaluations += len(tcases)
    r._cases = cases
    if model_ok:
        bad = coqrun.run_cases(ID, 'tseytin', tc.HEADER, [tc.case_term(c) for c in cases],
                               'check_tseytin_case', tc.CASE_TYPE)
        for i in bad:
            r.disagreements.append({'name': 'tseytin_transformation: model vs implementation clause list',
                                    'case': {'circuit': cases[i]['circuit'], 'outs': cases[i]['outs']},
                                    'implementation': cases[i]['raw']})
        bad = coqrun.run_cases(ID, 'templates', tc.HEADER, [tc.template_case_term(t) for t in tcases],
                               'check_template_case', tc.TEMPLATE_CASE_TYPE)
        for i in bad:
            r.disagreements.append({'name': f'clause template {tcases[i]["name"]}: generated Coq vs live Python',
                                    'detail': tcases[i]})
    return r


def oracle_cases(ctx, corr):
    return [{'circuit': c['circuit'], 'outs': c['outs']} for c in getattr(corr, '_cases', [])]


def oracle(case):
    return tc.oracle(case)


def classify(case, msg):
    return msg.split(':')[0]


def shrink(case, msg):
    return tc.shrink(case, msg)


def search(ctx, budget_s):
    t0 = time.time()
    for case in tc.fixed_corpus():
        msg = oracle(case)
        if msg:
            return case, msg
    while time.time() - t0 < budget_s:
        dump = gen.random_circuit(ctx.rng, with_blocks=False)
        case = {'circuit': dump, 'outs': tc.random_selection(ctx.rng, len(dump['outputs']), p_invalid=0)}
        msg = oracle(case)
        if msg:
            return case, msg
    return None
