"""C05 The circuit-to-CNF reduction is exact."""
import time

from framework.checklib import CorrResult
from framework import coqrun
from harness import gen, tseytincorr as tc
from translator import t1_operators, t2_tseytin, t9_circuit_core, t13_tseytin_alg, t27_sat_query

ID = 'C05'
TRANSLATORS = [t1_operators.translate, t2_tseytin.translate, t9_circuit_core.translate, t13_tseytin_alg.translate,
               t27_sat_query.translate]
PROPERTY_FILE = 'Properties/C05.v'
THEOREMS = ['C05_template_exact', 'C05_template_total', 'C05_reduction_exact',
            'C05_default_selects_all_outputs', 'C05_returns_on_wellformed', 'C05_fuel_adequate',
            'C05_result_independent_of_fuel', 'C05_circuit_sat_model', 'C05_circuit_unsat',
            'C05_circuit_sat_answer', 'C05_algorithm_regenerated', 'C05_query_regenerated',
            'C05_query_hands_whole_formula',
            'C05_ex_hypotheses', 'C05_ex_xor3', 'C05_ex_solver', 'C05_ex_query']
PARTIAL = {}
LEVEL_TEXT = ('proved for the Gallina model, for all circuits, output selections and total input assignments: every '
              'regenerated clause template is exact at every accepted arity (n-ary ones by induction on the operand '
              'list); whenever the transformation returns, CNF + input assignment is satisfiable iff all selected '
              'outputs evaluate to True, every satisfying extension gives every encoded gate its evaluated value, '
              'input i is variable i+1; it does return on closed acyclic netlists with accepted arities; the '
              'circuit-satisfiability corollary holds for any sound and complete solver. Model tied to /repo by '
              'regenerating the templates and the dispatch dict (T2), by regenerating the ALGORITHM on every run (T13: '
              'tseytin_transformation with its closures __register_new_gate / get_lit / the recursive process_gate, the '
              'defaultdict, the input numbering loop, the default selection, the output loop and its unit clauses, '
              'statement by statement over the model state, calling the regenerated Circuit accessors of T9) and '
              'proving it equal to the hand model for ALL circuits, selections and fuels (C05_algorithm_regenerated, '
              'no side condition), by regenerating the QUERY glue (T27: sat.is_satisfiable / is_circuit_satisfiable, '
              'Cnf.from_circuit, Cnf.get_raw; fail-closed grammar: the raw clause list reaches the solver once and whole, '
              'answer and model come back unchanged; C05_query_regenerated, C05_query_hands_whole_formula), and by EXACT '
              'clause-list correspondence of tseytin_transformation on generated circuits x selections; the query is also '
              'driven on formulas of 1 000 - 33 000 clauses whose satisfiability is known by construction')
LEVEL_NOTE = ('Coq kernel + vm_compute; translators T1, T2, T9 (get_gate, output_at_index), T13 (algorithm; its fixed prelude models '
              'collections.defaultdict.__getitem__ and the three closure variables as the record tstate; fuel = recursion depth of process_gate; parameter types are read from the annotations); correspondence harness and pysat shim; hypotheses of the '
              'theorems: input list duplicate-free and exactly the INPUT gates, operand counts accepted by the '
              'operators (tseytin_wf), total assignment; (H-solver) the SAT solver is sound and complete (Section '
              'variable, shown satisfiable by an exhaustive-search solver); CPython recursion limit is outside the '
              'model (fuel = recursion depth, proved adequate on acyclic netlists); models the code with fixes/D2.patch applied')
TECHNIQUE = ('Coq proof: per-template exactness over the regenerated templates (case analysis for fixed arities, '
             'induction on the operand list for AND/OR/NAND/NOR and for the 2^n parity clauses of XOR/NXOR); '
             'whole-formula theorem by induction on the fuel of the memoised recursion with the invariant '
             '"sigma satisfies the clauses so far iff sigma is the evaluation on every allocated literal"; '
             'translator T2 (Python ast -> Gallina templates); translator T13 (Python ast -> Gallina: closures over '
             'shared state as state-passing functions, the self-recursive closure as a Fixpoint on fuel, loops as foldM / '
             'mapS) + equality proof with the hand model by induction on the fuel; vm_compute correspondence of exact clause lists; '
             'direct oracle by bit-parallel enumeration of all extensions / unit propagation / shim solver')
TRUSTED = ['translator T27 (translator/t27_sat_query.py): accepts exactly one statement shape per function of the query '
           'glue and is trusted for the meaning it gives to it (pysat CNF(from_clauses=l) holds l, append_formula adds every '
           'clause, solve() / get_model() are the solver of the model)',
           'translator T13 (translator/t13_tseytin_alg.py): statement-level translation of tseytin_transformation and its '
           'closures; trusted for the meaning it gives to Python statements (state-passing reading of the closure variables, '
           'collections.defaultdict.__getitem__, evaluation order); its output is also covered by the exact clause-list '
           'correspondence, because it is proved equal to the model that the correspondence evaluates',
           'translator T2 (translator/t2_tseytin.py), cross-checked on every run against the live _process_* functions '
           'on literal vectors of length 0..6',
           'the pysat shim (picosat / DPLL) for is_circuit_satisfiable and for circuits with more than 14 auxiliary '
           'variables in the oracle; the theorems quantify over any sound and complete solver',
           'the oracle observes saved_lits by substituting a recording subclass for collections.defaultdict in the '
           'tseytin module namespace for the duration of one call (no change to /repo)']
ASSUMPTIONS = ['(H-solver) the SAT solver is sound and complete',
               'CPython recursion depth (RecursionError on netlists deeper than about 1000 gates) is a runtime limit '
               'outside the model: the model recursion runs on fuel size+1, proved sufficient on acyclic netlists',
               'well-formedness hypotheses of the theorems: tseytin_wf (inputs exact, arities accepted), '
               'closedb + acyclic for totality; the generators produce such circuits, malformed ones are compared '
               'for the exception kind only']


def correspondence(ctx, model_ok):
    r = CorrResult()
    r.rule = ('ALL netlists over 2 inputs with one gate (n-ary arity 2..3), in the thorough tier also all with two gates; fixed corpus (every gate type at every accepted arity up to 5, repeated operands, constants with '
              '0/2 operands, outputs that are inputs / repeated) + seeded random DAGs over all 19 gate types '
              '(harness.gen.random_circuit: n-ary 2-5 operands, dead logic, shuffled gate order) x output selection '
              '(default None, explicit index lists incl. empty, repeated, negative and out-of-range indices), '
              '8% malformed netlists (dangling operand, too few / too many operands) for the error kinds; '
              'compared: EXACT clause list of tseytin_transformation(c, outs).get_raw() and the label -> variable map saved_lits (items in insertion order), or the exception kind; '
              'plus every live _process_* function on literal vectors of length 0..6 against the regenerated '
              'templates; non-trivial = at least one non-INPUT gate is encoded; distinct = hash of the case')
    cases = list(tc.fixed_corpus()) + list(tc.exhaustive_small(False))
    if not ctx.quick:
        cases += list(tc.exhaustive_small(True))
    cases = [tc.make_case(ctx.rng, c['circuit'], c['outs']) for c in cases]
    r.count('source', 'fixed corpus + exhaustive small netlists', len(cases))
    for _ in range(ctx.n(1500, 20000)):
        cases.append(tc.random_case(ctx.rng))
    for case in cases:
        dump = case['circuit']
        nontrivial = case['raw'][0] == 'ok' and len(case['raw'][1]) > len(tc.selected_labels(dump, case['outs']) or [])
        r.add_case({'circuit': dump, 'outs': case['outs']}, nontrivial)
        r.count('gates', len(dump['gates']) // 5 * 5)
        r.count('inputs', len(dump['inputs']))
        r.count('selection', 'default' if case['outs'] is None else f'explicit[{min(len(case["outs"]), 4)}]')
        r.count('result', 'ok' if case['raw'][0] == 'ok' else case['raw'][1])
        if case['raw'][0] == 'ok':
            r.count('clauses', len(case['raw'][1]) // 10 * 10)
        for _, t, ops in dump['gates']:
            r.count('gate_types', t)
            if t != 'INPUT':
                r.count('arity', len(ops))
    tcases = tc.template_cases(ctx.rng, ctx.n(60, 400))
    for t in tcases:
        r.count('template_result', 'ok' if t['res'][0] == 'ok' else t['res'][1])
    r.evaluations += len(tcases)
    r._cases = cases
    if model_ok:
        bad = coqrun.run_cases(ID, 'tseytin', tc.HEADER, [tc.case_term(c) for c in cases],
                               'check_tseytin_case', tc.CASE_TYPE)
        for i in bad:
            r.disagreements.append({'name': 'tseytin_transformation: model vs implementation clause list',
                                    'case': {'circuit': cases[i]['circuit'], 'outs': cases[i]['outs']},
                                    'implementation': cases[i]['raw']})
        bad = coqrun.run_cases(ID, 'templates', tc.HEADER, [tc.template_case_term(t) for t in tcases],
                               'check_template_case', tc.TEMPLATE_CASE_TYPE)
        for i in bad:
            r.disagreements.append({'name': f'clause template {tcases[i]["name"]}: generated Coq vs live Python',
                                    'detail': tcases[i]})
    return r


def oracle_cases(ctx, corr):
    return [{'circuit': c['circuit'], 'outs': c['outs']} for c in getattr(corr, '_cases', [])] + tc.large_cases()


def oracle(case):
    return tc.oracle(case)


def classify(case, msg):
    return msg.split(':')[0]


def shrink(case, msg):
    return tc.shrink(case, msg)


def search(ctx, budget_s):
    t0 = time.time()
    for case in list(tc.fixed_corpus()) + tc.large_cases():
        msg = oracle(case)
        if msg:
            return case, msg
    while time.time() - t0 < budget_s:
        dump = gen.random_circuit(ctx.rng, with_blocks=False)
        case = {'circuit': dump, 'outs': tc.random_selection(ctx.rng, len(dump['outputs']), p_invalid=0)}
        msg = oracle(case)
        if msg:
            return case, msg
    return None
