"""C18 Simplification passes achieve their stated effect; pipelines equal sequencing."""
import time

from framework.checklib import CorrResult
from framework import coqrun
from harness import gen, passcorr
from translator import t1_operators, t15_passes

ID = 'C18'
TRANSLATORS = [t1_operators.translate, t15_passes.translate]
PROPERTY_FILE = 'Properties/C18.v'
THEOREMS = ['C18_apply_is_sequencing', 'C18_reduce_generic', 'C18_sequencing_append', 'C18_linearize_flattens',
            'C18_linearize_app', 'C18_composition_is_its_list', 'C18_list_is_sequencing',
            'C18_append_is_sequencing', 'C18_pipe_is_sequencing', 'C18_cleanup_is_sequencing',
            'C18_cleanup_is_transforms', 'C18_outs_ok_of_WF', 'C18_pipeline_keeps_outs_ok',
            'C18_sequencing_needs_outs_ok',
            'C18_rr_effect', 'C18_rr_idempotent', 'C18_rr_total', 'C18_example_wf', 'C18_example_rr',
            'C18_md_effect', 'C18_sig_eqb_spec', 'C18_md_effect_before_rr', 'C18_example_md',
            'C18_mu_no_double_negation', 'C18_mu_no_buffer_reference', 'C18_mu_needs_arity',
            'C18_example_mu', 'C18_example_mu_iff',
            'C18_me_effect', 'C18_gates_truth_table_spec', 'C18_example_me', 'C18_passes_regenerated']
PARTIAL = {}
LEVEL_TEXT = ('every clause of the property is a Coq theorem about the executable model of the four passes and of the '
              'Transformer pipeline (Model/Passes.v): RemoveRedundantGates returns exactly the gates reachable from the '
              'outputs, unchanged, plus the remaining inputs unless removal is allowed, never fails on a well-formed '
              'circuit and is idempotent on complete states (gate-map order, users index, inputs, outputs); after '
              'MergeDuplicateGates+RR no two distinct non-INPUT gates have equal type and operands (up to permutation '
              'for symmetric types); after MergeEquivalentGates+RR no two distinct non-INPUT gates have equal truth '
              'tables as computed by get_gates_truth_table on the result; after MergeUnaryOperators+RR a circuit whose '
              'unary gates are all NOT has no NOT of a NOT and a circuit without NOT-like gates has no IFF-like gate as '
              'operand or output; apply_transformers (linearisation with implied post passes, reduction of repeated '
              'idempotent passes), nested compositions, lists, the pipe operator and cleanup all equal the sequential '
              'application of the leaf passes. The model is hand-written and tied to /repo on every run by comparing '
              'the complete output circuit of every pass and of random pipelines on generated circuits; the four pass '
              'algorithms, cleanup, the reduction loop of linearize_reduce_transformers and the class tables (idempotence '
              'flags, implied post passes) are in addition regenerated from the source on every run (translator T15) '
              'and proved equal to / consistent with the model (C18_passes_regenerated)')
LEVEL_NOTE = ('Coq kernel + vm_compute; model of the four passes proved equal to the functions translator T15 regenerates from '
              'the source (trusted: the translator and its prelude, see C03); pipeline machinery: cleanup, the reduction loop '
              'of linearize_reduce_transformers, the __idempotent__ flags and the pre / post transformer lists of the '
              'constructors are regenerated (Generated/PipelineGen.v) and the model is proved consistent with them; '
              'linearize_transformers / as_distinct / apply_transformers / transform / the pipe operator / the __eq__ '
              'methods remain hand-modelled (correspondence only); hand-written model of traversal/evaluation (shared with '
              'C01/C03/C20); correspondence harness. Hypotheses: WF c (the C02 invariant) for RR effect/totality, ME and MU; '
              'MD needs none; RR idempotence and all pipeline equations need only that the outputs of the initial circuit '
              'name gates (a clause of WF, re-established by every pass) - without it [RR; RR] differs from RR RR in '
              'gate-map order (Example C18_sequencing_needs_outs_ok); the no-double-negation clause needs arity_ok (a '
              'two-operand NOT keeps a NOT operand, Example C18_mu_needs_arity). INPUT gates are excluded from the '
              'duplicate / equivalence clauses (all inputs share the signature (INPUT,)); truth tables are those '
              'recomputed on the result, proved equal to the semantic values (Sem.Eval) of the surviving gates')
TECHNIQUE = ('Coq proof: list algebra over an abstract leaf semantics for the pipeline; determinism of the DFS step '
             'relation + transport of a run between circuits agreeing on a closed label set (RR idempotence); loop '
             'invariants over the rebuild folds (canonical-representative invariants for MD/ME, parity maps for MU); '
             'per-gate semantic preservation for ME; exact output-circuit correspondence with the implementation; '
             'source-to-Gallina regeneration of the pass algorithms (T15) with equality proofs')
TRUSTED = []
ASSUMPTIONS = []


def gen_dump(rng):
    r = rng.random()
    if r < 0.15:
        return passcorr.unary_chain_circuit(rng, 'NOT')
    if r < 0.25:
        return passcorr.unary_chain_circuit(rng, 'IFF')
    return gen.random_circuit(rng, n_inputs=rng.choice([0, 1, 2, 3, 3, 4, 5]), with_blocks=False)


def correspondence(ctx, model_ok):
    gen.HOSTILE_P = 0.03     # unusual but legal labels: '', '@', 'a@b', mutual prefixes, case pairs
    r = CorrResult()
    r.rule = ('random circuits over all gate types (n-ary gates, L*/R* pseudo-unary gates, constants, outputs that are '
              'inputs or repeated, dead logic); per circuit every pass alone (_transform) and 3 random pipelines '
              '(nested compositions, pipe operator, implied post passes, repeated idempotent passes); the OUTPUT '
              'CIRCUIT is compared exactly (gate order, labels, operands, users, inputs, outputs) with the model, and '
              'the argument is checked to be unmodified; non-trivial = at least one non-INPUT gate')
    cases = []
    for _ in range(ctx.n(200, 3000)):
        d = gen_dump(ctx.rng)
        case = passcorr.make_case(ctx.rng, d)
        cases.append(case)
        r.add_case({'circuit': d, 'pipelines': [x['ts'] for x in case['runs']]},
                   any(t != 'INPUT' for _, t, _ in d['gates']))
        r.count('gates', len(d['gates']) // 5 * 5)
        for x in case['runs']:
            r.count('results', 'ok' if x['result'][0] == 'ok' else x['result'][1])
            if not x['untouched']:
                r.disagreements.append({'name': 'a pass modified its argument', 'case': {'circuit': d, 'ts': x['ts']}})
    r._cases = cases
    if model_ok:
        bad = coqrun.run_cases(ID, 'pass', passcorr.HEADER, [passcorr.case_term(c) for c in cases],
                               'check_pass_case', passcorr.CASE_TYPE)
        for i in bad:
            r.disagreements.append({'name': 'pass output: model vs implementation',
                                    'case': {'circuit': cases[i]['circuit'], 'ts': [['RR', False]]}})
    return r


def oracle_cases(ctx, corr):
    return [{'circuit': c['circuit'], 'pipelines': [x['ts'] for x in c['runs'] if not x['leaf_only']]}
            for c in getattr(corr, '_cases', [])]


def oracle(case):
    return passcorr.oracle_c18(case)


def classify(case, msg):
    return msg.split(':')[0][:60]


def search(ctx, budget_s):
    t0 = time.time()
    while time.time() - t0 < budget_s:
        d = gen_dump(ctx.rng)
        case = {'circuit': d, 'pipelines': [[passcorr.random_transformer(ctx.rng, heavy=len(d['inputs']) <= 5)
                                             for _ in range(ctx.rng.randint(1, 3))]]}
        msg = oracle(case)
        if msg:
            return case, msg
    return None
