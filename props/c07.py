"""C07 Summation generators compute exact sums within the promised basis and size."""
import json
import multiprocessing
import random
import time

from framework.checklib import CorrResult
from framework import coqrun
from harness import arithcorr as ac
from harness import sumcorr as sc
from translator import t1_operators, t4_arith

ID = 'C07'
TRANSLATORS = [t1_operators.translate, t4_arith.translate]
PROPERTY_FILE = 'Properties/C07.v'
THEOREMS = [
    'C07_every_generator_only_extends',
]
PARTIAL = {}
LEVEL_TEXT = ''
LEVEL_NOTE = ''
TECHNIQUE = ''
TRUSTED = []
ASSUMPTIONS = []


def _oracle_worker(blob):
    case = json.loads(blob)
    try:
        return sc.oracle(case, random.Random(1), limit_bits=case.get('_limit', 14))
    except RecursionError:
        raise
    except Exception as e:  # noqa: BLE001
        return 'oracle crashed: ' + repr(e)


_CACHE = {}


def _key(case):
    return json.dumps(case, sort_keys=True)


def _precompute(cases, limit_bits):
    blobs = []
    for c in cases:
        d = dict(c)
        d['_limit'] = limit_bits
        blobs.append(json.dumps(d, sort_keys=True))
    ctx = multiprocessing.get_context('fork')
    with ctx.Pool(16) as pool:
        msgs = pool.map(_oracle_worker, blobs, chunksize=4)
    for c, m in zip(cases, msgs):
        _CACHE[_key(c)] = m


def _cases(ctx):
    if ctx.quick:
        cases = sc.quick_cases(ctx.rng)
        gcases = sc.gen_cases(ctx.rng, max_n=8)
    else:
        cases = sc.quick_cases(ctx.rng, max_n=24, max_pow2=70, wlen=5, wmax=3, n_random_w=150, pp_max=6,
                               shift_max=7, thorough=True)
        gcases = sc.gen_cases(ctx.rng, max_n=12)
    return cases, gcases


def correspondence(ctx, model_ok):
    r = CorrResult()
    r.rule = ('NETLIST EQUALITY after the order-preserving renaming of the uuid labels (new_%032x -> new_%04x): '
              'for each call the returned labels and levels, the full circuit state (gate map in order with '
              'types and operand order, users index, inputs, outputs, blocks) and the uuid counter of the '
              'implementation are compared with the model run inside Coq (vm_compute); error kinds are '
              'compared when the call raises. non-trivial = the call added at least one gate; distinct = hash '
              'of the case')
    cases, gcases = _cases(ctx)
    terms = []
    for c in cases:
        res, _ = sc.run_impl(c)
        terms.append(sc.case_term(c, res))
        call = c['call']
        r.add_case(c, res[0] == 'ok' and len(res[1][2]['gates']) > len(c['host']['gates']))
        r.count('call', call[0] if call[0] != 'cell' else call[1])
        r.count('result', 'ok' if res[0] == 'ok' else res[1])
        r.count('host', 'bare' if c['host']['gates'] and c['host']['gates'][0][0] == '0' else 'host')
        b = sc.call_basis(call)
        if b is not None:
            r.count('basis', f'{b[0]}:{b[1]}')
        r.count('operands', sum(len(x) for x in sc.operand_labels(call)))
        if res[0] == 'ok':
            r.count('gates_added', (len(res[1][2]['gates']) - len(c['host']['gates'])) // 25 * 25)
    gterms = []
    for c in gcases:
        res, _ = sc.run_gen(c)
        gterms.append(sc.gen_case_term(c, res))
        r.add_case(c, res[0] == 'ok')
        r.count('call', c['gen'][0])
        r.count('result', 'ok' if res[0] == 'ok' else res[1])
    r._cases = cases + gcases
    if model_ok:
        bad = coqrun.run_cases(ID, 'sum', sc.HEADER, terms, 'check_sum_case', sc.CASE_TYPE)
        for i in bad:
            r.disagreements.append({'name': f'netlist of {cases[i]["call"][0]}: model vs implementation',
                                    'case': cases[i]})
        bad = coqrun.run_cases(ID, 'sgen', sc.HEADER, gterms, 'check_sgen_case', sc.GEN_CASE_TYPE)
        for i in bad:
            r.disagreements.append({'name': f'circuit of {gcases[i]["gen"][0]}: model vs implementation',
                                    'case': gcases[i]})
    t0 = time.time()
    _precompute(r._cases, 14)
    r.notes.append(f'direct oracle precomputed in parallel in {time.time() - t0:.1f}s')
    return r


def oracle_cases(ctx, corr):
    return list(getattr(corr, '_cases', []))


def oracle(case):
    k = _key(case)
    if k in _CACHE:
        return _CACHE[k]
    return sc.oracle(case, random.Random(1), limit_bits=14)


def classify(case, msg):
    kind = (case.get('call') or case.get('gen'))[0]
    head = msg.split(' at {')[0].split(':')[0]
    return f'{kind}: {head}'[:80]


def search(ctx, budget_s):
    t0 = time.time()
    while time.time() - t0 < budget_s:
        cases = sc.quick_cases(ctx.rng, max_n=7, max_pow2=8, wlen=3, n_random_w=10, pp_max=3, shift_max=3)
        cases += sc.gen_cases(ctx.rng, max_n=5)
        for c in cases:
            msg = sc.oracle(c, random.Random(1), limit_bits=12)
            if msg:
                return c, msg
    return None
