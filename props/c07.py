"""C07 Summation generators compute exact sums within the promised basis and size."""
import json
import multiprocessing
import random
import time

from framework.checklib import CorrResult
from framework import coqrun
from harness import arithcorr as ac
from harness import sumcorr as sc
from translator import t1_operators, t4_arith, t14_arith_gen, t18_sum_gen

ID = 'C07'
TRANSLATORS = [t1_operators.translate, t4_arith.translate, t14_arith_gen.translate, t18_sum_gen.translate]
PROPERTY_FILE = 'Properties/C07.v'
THEOREMS = [
    'C07_every_generator_only_extends', 'C07_extension_meaning', 'C07_adds_meaning', 'C07_basis_sets',
    'C07_basis_resolution',
    'C07_cells_exact', 'C07_stockmeyer_block_exact', 'C07_mdfa_exact', 'C07_simplified_mdfa_exact',
    'C07_documented_bounds', 'C07_sum_n_bits_exact', 'C07_sum_n_bits_xaig_returns_upto64', 'C07_sum_n_bits_easy_exact',
    'C07_sum_pow2_m1_exact', 'C07_bit_counters_return_upto40',
    'C07_weighted_documented_bounds', 'C07_sum_n_weighted_bits_exact', 'C07_sum_n_weighted_bits_naive_exact',
    'C07_levels_pairwise_distinct', 'C07_weighted_documented_bound_refuted',
    'C07_weighted_xaig_size_small_vectors', 'C07_weighted_struct_pp_shapes_upto8',
    'C07_sum_two_numbers_exact', 'C07_sum_two_numbers_with_shift_exact',
    'C07_generate_sum_n_bits', 'C07_generate_sum_weighted_bits_efficient', 'C07_generate_sum_weighted_bits_naive',
    # normal termination for ALL sizes (works) and the unconditional corollaries (total_exact)
    'C07_sum_n_bits_works', 'C07_sum_n_bits_total_exact',
    'C07_sum_n_bits_easy_works', 'C07_sum_n_bits_easy_total_exact',
    'C07_sum_pow2_m1_works', 'C07_sum_pow2_m1_total_exact', 'C07_new_gates_carry_uuid_labels',
    'C07_sum_n_bits_results_carry_uuid_labels',
    'C07_sum_n_weighted_bits_works', 'C07_sum_n_weighted_bits_total_exact',
    'C07_sum_n_weighted_bits_naive_works', 'C07_sum_n_weighted_bits_naive_total_exact',
    'C07_sum_two_numbers_works', 'C07_sum_two_numbers_total_exact',
    'C07_sum_two_numbers_with_shift_works', 'C07_sum_two_numbers_with_shift_total_exact',
    'C07_generate_sum_n_bits_works', 'C07_generate_sum_n_bits_total_exact',
    'C07_generate_sum_weighted_bits_efficient_works', 'C07_generate_sum_weighted_bits_efficient_total_exact',
    'C07_generate_sum_weighted_bits_naive_works', 'C07_generate_sum_weighted_bits_naive_total_exact',
    'C07_works_hypotheses_satisfiable', 'C07_pow2_m1_needs_nonempty_uuid_labels',
    'C07_generators_regenerated',
]
PARTIAL = {
    'C07_sum_n_bits_xaig_returns_upto64':
        'EXTRA facts, not part of the property: that the run returns Ok is now proved for ALL n and every host '
        '(C07_sum_n_bits_works / C07_sum_n_bits_total_exact); what remains bounded (kernel computation, n <= 64, '
        'bare circuit) is only that m equals the number of binary digits of n and that the result labels are '
        'pairwise distinct',
    'C07_weighted_xaig_size_small_vectors':
        'an EXTRA fact, not part of the property: the tighter bound 4.5 n - 2 m (which the pinned docstring '
        'claimed for all weight vectors and which C07_weighted_documented_bound_refuted shows to be false) does '
        'hold, by kernel computation, on the enumerated family (all weight vectors of length <= 6 over weights '
        '0..3, bare circuit). The documented bound after fixes/D27.patch, 5 n - 2 m, is proved for ALL weight '
        'vectors and hosts in C07_sum_n_weighted_bits_exact',
    'C07_bit_counters_return_upto40':
        'EXTRA facts, not part of the property: Ok is now proved for ALL n (C07_sum_n_bits_works, '
        'C07_sum_n_bits_easy_works, C07_sum_pow2_m1_works); what remains bounded (n <= 40, bare circuit) is m = '
        'number of binary digits of n and pairwise distinct result labels',
}
LEVEL_TEXT = ('every summation generator (add_sum_n_bits in both bases incl. the MDFA/Stockmeyer scheduler, '
              'add_sum_n_bits_easy, add_sum_pow2_m1, add_sum_n_weighted_bits(_naive), add_sum_two_numbers(_with_shift) '
              'and the three generate_* wrappers) is proved exact for ALL operand counts / weight vectors / widths / '
              'shifts, both endiannesses, every host circuit and every choice of operand gates, by loop invariants over '
              'Sem.Eval of the final circuit; levels of the weighted sums are proved strictly increasing; "only fresh '
              'gates, old gates keep their function" is proved once for every builder program; the set of gate types '
              'added is proved to lie in the RESOLVED basis (AIG: AND/OR/GT, XAIG: +XOR) for every spelling of the basis '
              '(enum member or string in any letter case); ALL documented gate-count bounds are proved for all sizes and '
              'hosts: 4.5n-2m (add_sum_n_bits XAIG) and 5n-2m (efficient weighted sum XAIG) by potential arguments over '
              'the MDFA/Stockmeyer schedule, 7n-3m (AIG), 5n-3m (easy, naive XAIG); the bound 4.5n-2m that the pinned '
              'docstring claimed for the weighted sum is REFUTED in the model and on the code (defect D27); NORMAL '
              'TERMINATION is proved for ALL sizes (C07_*_works): for every generator the model run returns Ok whenever '
              'the operands are gates of the host, the basis resolves, the uuid naming function is injective and the '
              'input is not one on which the implementation itself raises (empty operand lists, see C07.v) - the fuel of '
              'every modelled while loop suffices and the sentinel `break` of the weighted loops is unreachable - so '
              'every value theorem has an UNCONDITIONAL corollary (C07_*_total_exact); the model is tied to /repo by regenerating the cells (translator T4), by '
              'regenerating the ALGORITHM of every generator statement by statement (translator T18: add_sum_two_numbers(_with_shift), '
              'add_sum_n_bits_easy, add_sum_pow2_m1, the dispatcher add_sum_n_bits and both workers incl. the MDFA / Stockmeyer '
              'scheduler, add_sum_n_weighted_bits(_naive) with their SortedList work lists and sentinel, and the three generate_* '
              'wrappers) with a proof that each regenerated program runs exactly like the hand model for all arguments '
              '(C07_generators_regenerated), and by netlist-equality correspondence on every run')
LEVEL_NOTE = ('Coq kernel + vm_compute; translators T1, T4, T18 (T18 extends T14: `while` loops as fuelled loops with the fuel of '
              'the hand model, SortedList as the ordered list with the hand model\'s sl_add / sl_of_list, Python ints as Z - the tie '
              'is stated for shifts and weights >= 0 -, the Python built-ins as the fixed preludes Model/PyPrims.v and '
              'Model/PyPrimsSum.v); correspondence harness (order-preserving label renaming '
              'new_%032x -> new_%04x); the *_exact theorems are conditional on the model run returning Ok, the *_works / '
              '*_total_exact theorems discharge that condition for every injective uuid naming function (for '
              'add_sum_pow2_m1 additionally: "" is not a uuid label - shown necessary by '
              'C07_pow2_m1_needs_nonempty_uuid_labels - and, for the value corollary only, "" is not a gate of the '
              'host); the model is of the '
              'repaired code (fixes/D5, D6, D7, D27; D27 corrects the documented bound, the oracle reads the bounds from the docstrings of the tree under test); where Python would leave the weighted loop through the sentinel '
              '`break` with a truncated result the model returns Err (proved unreachable); add_sum_pow2_m1: the value clause asks that the '
              'empty string is not a gate label (filter(None, .) would drop such a label)')
TECHNIQUE = ('Coq proof: generators as programs of a deep-embedded builder monad over the Circuit model; the generator '
             'algorithms regenerated from the Python source and proved extensionally equal to the hand model (loop lemmas '
             'generic in the loop body, lockstep induction on the shared fuel, Python lists as reversed stacks, the sentinel '
             'of the weighted loops by the bound + measure <= inf invariant); cells by '
             'exhaustive case analysis; scheduling loops by invariants "sum of the level lists + 2 * sum of the next '
             'level + emitted bits = target" with pairs (x, x xor y) counted as x + y; sorted work lists of the weighted '
             'sums by a level-sortedness invariant; gate-type set and gate count carried as an `adds T c c\' g` '
             'invariant; basis resolution as a total function on the Python value; termination by the decreasing measure '
             '|solo| + 2 |pairs| per level (fuel), the non-increasing potential (strict level bound) + measure <= inf '
             '(sentinel), existence invariants for every label in the work lists and pigeonhole for the fresh-label '
             'retry loop; label provenance of new gates by induction on gate_new-only programs, of the result labels by '
             'inversion of the scheduler loops; bounded structural facts by '
             'vm_compute; netlist-equality correspondence under vm_compute; direct oracle through '
             'Circuit.evaluate_full_circuit')
TRUSTED = ['uuid4 is modelled as a counter with a naming function that is universally quantified in every theorem; '
           'freshness of each new label is established by the modelled has_gate retry loop, not assumed',
           'string comparison of labels in the SortedLists is String.compare (code-point order on ASCII labels); the '
           'harness only uses ASCII labels']
ASSUMPTIONS = ['the spelling of the input labels built by the generate_* wrappers is supplied by the harness',
               'weights and shifts are natural numbers; at least one operand per list']


def _oracle_worker(blob):
    case = json.loads(blob)
    try:
        return sc.oracle(case, random.Random(1), limit_bits=case.get('_limit', 14))
    except RecursionError:
        raise
    except Exception as e:  # noqa: BLE001
        return 'oracle crashed: ' + repr(e)


_CACHE = {}


def _key(case):
    return json.dumps(case, sort_keys=True)


def _precompute(cases, limit_bits):
    blobs = []
    for c in cases:
        d = dict(c)
        d['_limit'] = limit_bits
        blobs.append(json.dumps(d, sort_keys=True))
    ctx = multiprocessing.get_context('fork')
    with ctx.Pool(16) as pool:
        msgs = pool.map(_oracle_worker, blobs, chunksize=4)
    for c, m in zip(cases, msgs):
        _CACHE[_key(c)] = m


def _cases(ctx):
    if ctx.quick:
        cases = sc.quick_cases(ctx.rng)
        gcases = sc.gen_cases(ctx.rng, max_n=8)
    else:
        cases = sc.quick_cases(ctx.rng, max_n=24, max_pow2=70, wlen=5, wmax=3, n_random_w=150, pp_max=6,
                               shift_max=7, thorough=True)
        gcases = sc.gen_cases(ctx.rng, max_n=12)
    return cases, gcases


def correspondence(ctx, model_ok):
    r = CorrResult()
    r.rule = ('NETLIST EQUALITY after the order-preserving renaming of the uuid labels (new_%032x -> new_%04x): '
              'for each call the returned labels and levels, the full circuit state (gate map in order with '
              'types and operand order, users index, inputs, outputs, blocks) and the uuid counter of the '
              'implementation are compared with the model run inside Coq (vm_compute); error kinds are '
              'compared when the call raises. non-trivial = the call added at least one gate; distinct = hash '
              'of the case')
    cases, gcases = _cases(ctx)
    terms = []
    for c in cases:
        res, _ = sc.run_impl(c)
        terms.append(sc.case_term(c, res))
        call = c['call']
        r.add_case(c, res[0] == 'ok' and len(res[1][2]['gates']) > len(c['host']['gates']))
        r.count('call', call[0] if call[0] != 'cell' else call[1])
        r.count('result', 'ok' if res[0] == 'ok' else res[1])
        r.count('host', 'bare' if c['host']['gates'] and c['host']['gates'][0][0] == '0' else 'host')
        b = sc.call_basis(call)
        if b is not None:
            r.count('basis', f'{b[0]}:{b[1]}')
        r.count('operands', sum(len(x) for x in sc.operand_labels(call)))
        if res[0] == 'ok':
            r.count('gates_added', (len(res[1][2]['gates']) - len(c['host']['gates'])) // 25 * 25)
    gterms = []
    for c in gcases:
        res, _ = sc.run_gen(c)
        gterms.append(sc.gen_case_term(c, res))
        r.add_case(c, res[0] == 'ok')
        r.count('call', c['gen'][0])
        r.count('result', 'ok' if res[0] == 'ok' else res[1])
    r._cases = cases + gcases
    if model_ok:
        bad = coqrun.run_cases(ID, 'sum', sc.HEADER, terms, 'check_sum_case', sc.CASE_TYPE)
        for i in bad:
            r.disagreements.append({'name': f'netlist of {cases[i]["call"][0]}: model vs implementation',
                                    'case': cases[i]})
        bad = coqrun.run_cases(ID, 'sgen', sc.HEADER, gterms, 'check_sgen_case', sc.GEN_CASE_TYPE)
        for i in bad:
            r.disagreements.append({'name': f'circuit of {gcases[i]["gen"][0]}: model vs implementation',
                                    'case': gcases[i]})
    t0 = time.time()
    _precompute(r._cases, 14)
    r.notes.append(f'direct oracle precomputed in parallel in {time.time() - t0:.1f}s')
    return r


def bound_sweep_cases(max_n):
    """bit counters and weighted sums on bare circuits for every n up to max_n (oracle only: documented
    gate-count bound, basis set, distinct levels, values on sampled assignments) - the bounds are only
    tight at particular larger n"""
    out = []
    for n in range(13, max_n + 1):
        h = ac.bare_host(n)
        for basis in sc.ENUMS:
            out.append({'host': h, 'k0': 1, 'call': ['nbits', basis, False, list(h['inputs'])]})
            out.append({'host': h, 'k0': 1, 'call': ['weighted', basis, [[i % 3, l] for i, l in enumerate(h['inputs'])]]})
            out.append({'host': h, 'k0': 1, 'call': ['naive', basis, [[i % 3, l] for i, l in enumerate(h['inputs'])]]})
        out.append({'host': h, 'k0': 1, 'call': ['easy', False, list(h['inputs'])]})
    return out


def huge_weight_cases():
    """weights far above the machine word (2^63 .. 2^70 and a carry chain that climbs past them): the level
    bookkeeping must be relative to the operands, not to a fixed constant; oracle only"""
    h = ac.bare_host(5)
    i = h['inputs']
    out = []
    for kind in ('weighted', 'naive'):
        for basis in (['enum', 'XAIG'], ['enum', 'AIG']):
            out.append({'host': h, 'k0': 1, 'call': [kind, basis, [[0, i[0]], [0, i[1]], [2 ** 70, i[2]]]]})
            out.append({'host': h, 'k0': 1, 'call': [kind, basis, [[2 ** 63 - 2, i[0]], [2 ** 63 - 2, i[1]], [2 ** 63 - 1, i[2]],
                                                                     [2 ** 63 - 1, i[3]], [2 ** 63, i[4]]]]})
    return out


def oracle_cases(ctx, corr):
    return huge_weight_cases() + list(getattr(corr, '_cases', [])) + bound_sweep_cases(ctx.n(40, 64))


def oracle(case):
    k = _key(case)
    if k in _CACHE:
        return _CACHE[k]
    return sc.oracle(case, random.Random(1), limit_bits=14)


def classify(case, msg):
    kind = (case.get('call') or case.get('gen'))[0]
    head = msg.split(' at {')[0].split(':')[0]
    return f'{kind}: {head}'[:80]


def search(ctx, budget_s):
    t0 = time.time()
    while time.time() - t0 < budget_s:
        cases = sc.quick_cases(ctx.rng, max_n=7, max_pow2=8, wlen=3, n_random_w=10, pp_max=3, shift_max=3)
        cases += sc.gen_cases(ctx.rng, max_n=5)
        for c in cases:
            msg = sc.oracle(c, random.Random(1), limit_bits=12)
            if msg:
                return c, msg
    return None


def shrink(case, msg):
    """smallest bare-circuit call of the same kind that fails with the same class"""
    if 'call' not in case:
        return case, msg
    key = classify(case, msg)
    call = case['call']
    kind = call[0]
    cands = []
    if kind in ('nbits', 'pow2'):
        for n in range(1, 9):
            for be in (False, True):
                h = ac.bare_host(n)
                cands.append({'host': h, 'k0': 1, 'call': [kind, call[1], be, list(h['inputs'])]})
    elif kind == 'easy':
        for n in range(1, 9):
            h = ac.bare_host(n)
            cands.append({'host': h, 'k0': 1, 'call': [kind, call[1], list(h['inputs'])]})
    elif kind in ('weighted', 'naive'):
        for n in range(1, 7):
            h = ac.bare_host(n)
            for ws in ([0] * n, list(range(n)), [i // 2 for i in range(n)]):
                cands.append({'host': h, 'k0': 1, 'call': [kind, call[1], [[w, l] for w, l in zip(ws, h['inputs'])]]})
    elif kind == 'shift':
        for n in range(1, 4):
            for m in range(1, 4):
                for sh in range(0, n + 4):
                    for be in (False, True):
                        h = ac.bare_host(n + m)
                        cands.append({'host': h, 'k0': 1, 'call': [kind, sh, h['inputs'][:n], h['inputs'][n:], be]})
    for c in cands:
        try:
            m = sc.oracle(c, random.Random(1), limit_bits=10)
        except Exception:  # noqa: BLE001
            continue
        if m and classify(c, m) == key:
            return c, m
    return case, msg
