"""C20 Traversals visit exactly the reachable gates in a valid order."""
import time

from framework.checklib import CorrResult
from framework import coqrun
from harness import gen, travcorr
from translator import t1_operators, t9_circuit_core, t10_circuit_algos

ID = 'C20'
TRANSLATORS = [t9_circuit_core.translate, t10_circuit_algos.translate]
PROPERTY_FILE = 'Properties/C20.v'
THEOREMS = ['C20_top_sort_operands_first', 'C20_top_sort_users_first', 'C20_traverse_total',
            'C20_default_starts_exist', 'C20_traverse_yields_reachable', 'C20_traverse_hooks',
            'C20_dfs_post_order', 'C20_traverse_unvisited', 'C20_precedes_positions', 'C20_cycle_check_iff',
            'C20_cycle_check_total', 'C20_cycle_check_sound', 'C20_cycle_check_all_gates_acyclic',
            'C20_acyclic_cycle_check_all_gates', 'C20_example_wf', 'C20_example_runs', 'C20_example_cycle']
PARTIAL = {}
LEVEL_TEXT = ('every clause of the property is a Coq theorem about the executable model of top_sort / _traverse_circuit / '
              'check_circuit_has_no_cycles, for all well-formed circuits, start sets, directions and modes (Kahn: total, '
              'permutation, dependency order; work-list traversal: fuel adequacy, yields = reachable set each once, '
              'enter-before-exit, DFS post-order, unvisited hook = unreached gates in the stated order; cycle check on '
              'arbitrary netlists: raises iff a cycle is reachable from the outputs). The model is hand-written and tied '
              'to /repo on every run by comparing complete hook/yield event logs and exceptions on generated DAGs and '
              'cyclic netlists')
LEVEL_NOTE = ('Coq kernel + vm_compute; hand-written model of the traversal loops (fuel instead of while); top_sort, '
              '_traverse_circuit, dfs, bfs and validation.check_circuit_has_no_cycles are also regenerated from the source by '
              'translator T10 (generator -> list of yielded gates, while -> fuel, hooks -> event log) and proved EQUAL to the '
              'model with the model\'s fuel (Properties/C02.v C02_algorithms_regenerated, C02_algorithms_regenerated_2; '
              'side condition where top_sort is involved: gate-map keys unique, part of WF); correspondence '
              'harness; hypotheses: WF c (C02 invariant) and start labels name gates; for the cycle-check iff: duplicate-free '
              'gate map, operands and outputs exist. Hooks are observed as an event log; hooks that mutate the circuit during '
              'traversal are outside the model')
TECHNIQUE = ('Coq proof by loop invariants over the fuelled work-list loops (Kahn invariant with rank descent; DFS '
             'entered-labels-form-a-path invariant; decreasing measure for fuel adequacy) + exact event-log correspondence '
             'with the implementation')
TRUSTED = []
ASSUMPTIONS = []


def gen_dump(rng):
    d = gen.random_circuit(rng, with_blocks=False)
    if rng.random() < 0.2:
        v = travcorr.cyclic_variant(rng, d)
        if v:
            return v
    return d


def correspondence(ctx, model_ok):
    gen.HOSTILE_P = 0.03     # unusual but legal labels: '', '@', 'a@b', mutual prefixes, case pairs
    r = CorrResult()
    r.rule = ('random DAGs with sharing, repeated operands, disconnected parts, plus ~20% deliberately cyclic netlists; '
              'per circuit: top_sort both directions, the cycle check, and 6 traversals (dfs/bfs x direction x random '
              'start sets incl. none/invalid x topsort_unvisited) with ALL hooks recorded; the complete event log '
              '(enter, discover with the state seen by the hook, exit, yield, unvisited, end) and exceptions are '
              'compared with the model; non-trivial = at least one non-INPUT gate')
    cases = []
    for _ in range(ctx.n(300, 4000)):
        d = gen_dump(ctx.rng)
        case = travcorr.make_case(ctx.rng, d)
        cases.append(case)
        r.add_case({'circuit': d}, any(t != 'INPUT' for _, t, _ in d['gates']))
        r.count('gates', len(d['gates']) // 5 * 5)
        r.count('cycle_check', case['cyc'][0] if case['cyc'][0] == 'ok' else case['cyc'][1])
        for x in case['tcs']:
            r.count('traversals', f"{x['mode']}/{'inverse' if x['inverse'] else 'forward'}")
    if not ctx.quick:
        for d in gen.tiny_netlists():
            case = travcorr.make_case(ctx.rng, d, n_trav=8)
            cases.append(case)
            r.add_case({'circuit': d}, any(t != 'INPUT' for _, t, _ in d['gates']))
        r.notes.append('thorough tier enumerated all 908 netlists with <= 2 inputs and <= 2 gates over ' + str(gen.TINY_TYPES))
    r._cases = cases
    if model_ok:
        bad = coqrun.run_cases(ID, 'trav', travcorr.HEADER, [travcorr.case_term(c) for c in cases],
                               'check_trav_case', travcorr.CASE_TYPE)
        for i in bad:
            r.disagreements.append({'name': 'traversal logs: model vs implementation', 'case': cases[i]['circuit']})
    return r


def oracle_cases(ctx, corr):
    # deep / large circuits (work lists of hundreds of entries): oracle only, the event logs are too long for the
    # in-Coq comparison
    big = [travcorr.deep_shared_circuit(ctx.rng, h) for h in (12, 40, 90)] + \
          [gen.random_circuit(ctx.rng, n_inputs=4, n_gates=n, with_blocks=False) for n in (40, 80, 160)]
    return big + [c['circuit'] for c in getattr(corr, '_cases', [])]


def oracle(dump):
    return travcorr.oracle(dump)


def classify(case, msg):
    return msg.split(':')[0]


def search(ctx, budget_s):
    t0 = time.time()
    while time.time() - t0 < budget_s:
        d = gen_dump(ctx.rng)
        msg = oracle(d)
        if msg:
            return d, msg
    return None
