"""C12 All function representations answer every protocol query alike and correctly."""
import json
import multiprocessing
import pathlib
import time

from framework.checklib import CorrResult
from framework import coqrun
from harness import funccorr as fc
from translator import t9_circuit_core, t10_circuit_algos, t11_truth_table, t25_circuit_proto, t26_py_factories

ID = 'C12'
CORPUS = pathlib.Path(__file__).resolve().parent.parent / 'harness' / 'corpus' / 'C12'
TRANSLATORS = [t9_circuit_core.translate, t10_circuit_algos.translate, t11_truth_table.translate,
               t25_circuit_proto.translate, t26_py_factories.translate]
PROPERTY_FILE = 'Properties/C12.v'
THEOREMS = ['C12_product_is_canonical_order', 'C12_fixed_sum_iterator', 'C12_fixed_sum_iterator_no_negations',
            'C12_symmetric_iff_constant_on_weight_classes', 'C12_monotone_is_sorted_row',
            'C12_evaluate', 'C12_evaluate_at', 'C12_get_truth_table', 'C12_sizes',
            'C12_is_constant', 'C12_is_constant_at', 'C12_is_monotone', 'C12_is_monotone_at',
            'C12_is_symmetric', 'C12_is_symmetric_at', 'C12_is_dependent_on_input_at',
            'C12_is_output_equal_to_input', 'C12_is_output_equal_to_input_negation',
            'C12_get_significant_inputs_of', 'C12_find_negations_to_make_symmetric',
            'C12_define_python_model', 'C12_define_truth_table_model',
            'C12_canonical_index_to_input', 'C12_from_int_unary_func', 'C12_from_int_binary_func',
            'C12_pyfunction_constructor', 'C12_from_int_unary_func_sizes', 'C12_from_int_binary_func_sizes',
            'C12_memoised_circuit_queries', 'C12_example_represented',
            'C12_truth_table_regenerated', 'C12_truth_table_regenerated_define_applies',
            'C12_circuit_protocol_regenerated', 'C12_circuit_protocol_corner',
            'C12_factories_regenerated', 'C12_factories_regenerated_example']
PARTIAL = {}
LEVEL_TEXT = ('for every Boolean function f with arities n, m >= 1 and every query of the protocol with index arguments '
              'inside the arities, the modelled code of Circuit, TruthTable and PyFunction (three different algorithms '
              'where the classes differ) is proved to return the same answer and that answer is proved equivalent to the '
              'mathematical definition (constant, monotone in the DOCUMENTED sense = truth-table row sorted in canonical '
              'enumeration order, symmetric = invariant under input permutations, dependence, equal to an input / its '
              'negation, significant inputs, existence of symmetrising input negations); the fixed-weight iterator '
              'enumerates exactly the vectors with popcount(x xor negations) = k once each; define of both model '
              'classes agrees with the model where defined and with the definition elsewhere; integer wrappers honour '
              'the bit order; all for unbounded n, m. Code tie: exhaustive correspondence of all functions with '
              'n <= 3 inputs and 1-2 outputs (3x2 sampled in quick) x 3 classes x all queries x all index arguments '
              'incl. exception kinds')
LEVEL_NOTE = ('Coq kernel + vm_compute; hand-written model of the code repaired by fixes/D4, D16, D21; correspondence '
              'harness. Second tie: translator T11 regenerates core/utils.py (input_to_canonical_index, '
              'canonical_index_to_input, get_bit_value), input_iterator_with_fixed_sum, every method of TruthTable '
              'and TruthTableModel (incl. both constructors, resolve_input_size, _parse_bool, _parse_trival, define) '
              'and the constructor and protocol methods of PyFunction / PyFunctionModel (callable = Gallina function) '
              'from the source on every check, and C12_truth_table_regenerated proves each regenerated definition '
              'equal to the hand-model function (index / size arguments naturals; define: table of valid shape); '
              'trusted there: the translator and its prelude of Python primitives (list / str / int operations, '
              'math.log2 as floor + exactness flag). Translator T25 (T11\'s statement machinery on the circuit state of '
              'T9 / T10, whose gen_evaluate / gen_evaluate_at / gen_input_size it calls) regenerates the protocol '
              'methods of Circuit - output_size, index_of_output, is_constant(_at), is_monotone(_at), '
              'is_symmetric(_at), is_dependent_on_input_at, is_output_equal_to_input(_negation), '
              'get_significant_inputs_of, find_negations_to_make_symmetric - and C12_circuit_protocol_regenerated '
              'proves each equal to the function run_query dispatches to for the Circuit class (g_* / circ_* on '
              'circ_rep c) for every circuit with fuel_ok c: T10\'s evaluators equal the model\'s (the model does not run out '
              'of fuel on Boolean vectors, or no gate is its own operand; kernel-checked example of the difference '
              'outside); proved to hold whenever the circuit computes a function (circuit_computes, the hypothesis of '
              'the query theorems) and for every WF circuit. The generated code carries GateStates (tp.cast is the '
              'identity) where the hand model converts to bools and would report an Undefined as GateStateError: '
              'proved unobservable - for EVERY circuit no Undefined comes out of a Boolean input vector. The fuel '
              'parameters are those of the model\'s evaluators (Python has none); index_of_output is specified '
              'directly (first index). Circuit.evaluate / evaluate_at / get_truth_table are regenerated by T10 '
              '(C02), gates_number by T16 (C16). Translator T26 (T11\'s machinery + closures as values, '
              '@staticmethod, @functools.wraps = identity on behaviour, assert, l[::-1], l[:i], Mapping lookup) regenerates '
              'what builds closures: PyFunction.from_int_unary_func / from_int_binary_func / from_positional, '
              'PyFunctionModel.from_positional and PyFunctionModel.define (Generated/PyFactoriesGen.v: the factory takes the '
              'user\'s callable and returns the record whose func field is the translated closure), and '
              'C12_factories_regenerated proves each extensionally equal (same exception, or same sizes and func fields '
              'equal on EVERY argument list) to from_int_unary_func / from_int_binary_func / pm_define of the hand model for '
              'natural sizes and total integer functions on the naturals; from_positional has no hand-model counterpart and '
              'is specified directly, with what inspect.signature reports (the list of parameter kinds) as an explicit '
              'modelling parameter and BadCallableError printed as PyTypeError; tp.cast to bool cells of a list that still '
              'holds a DontCare is GateStateError on both sides. Hypotheses of the query theorems: the circuit computes f through Circuit.evaluate/evaluate_at '
              '(that evaluate is the netlist semantics is C01), the callable computes f, the table is the table of f; '
              'm >= 1 (a TruthTable with no output cannot be constructed). "monotone" is the protocol\'s documented '
              'notion (output sequence in enumeration order non-decreasing / non-increasing), NOT lattice monotonicity. '
              'Exception kinds for out-of-range index arguments, wrong-length input vectors, malformed definitions and '
              'the constructors are covered by the correspondence only.')
TECHNIQUE = ('fail-closed ast translation of truth_table.py / utils.py / python_function.py and of the protocol methods '
             'of circuit.py to Gallina (loops with break / return as a control-flow fold, generators as lists, objects '
             'as records, in-place lists as rebinding; the Circuit methods on the state of T9 / T10 with GateState '
             'values; closure-building factories as functions from the user callable to the record holding the '
             'translated closure) proved equal to the hand model (loop lemmas generic in the body, instantiated by unification); '
             'Coq proof: enumeration lemmas (itertools.product order = big-endian index bijection; combinations <-> '
             'weight classes; zip(*rows) of a rectangular matrix), each Python loop with early exit shown equal to a '
             'pure fold over a total evaluator, the three monotonicity loops shown to decide StronglySorted of the '
             'row, symmetric <-> constant on weight classes via Permutation of Boolean lists, define by a cell-wise '
             'fold invariant, bit order by div/mod arithmetic; tie to /repo by exhaustive vm_compute correspondence '
             'of the three classes on all small functions + direct oracle (definitions evaluated on the truth table, '
             'pairwise agreement)')
TRUSTED = ['the model is of the code with fixes/D4.patch, fixes/D16.patch and fixes/D21.patch applied; on the unrepaired '
           'tree the correspondence and the oracle report the three defects',
           'BadBooleanValue (no constructor in the model\'s error type) is reported as BadDefinitionError by the harness',
           'negative Python indices and non-bool truth values are outside the model (index arguments are naturals)']
ASSUMPTIONS = ['"monotone" is formalised as the documented notion of the protocol (sortedness of the output sequence in '
               'canonical enumeration order), which the pinned tests fix; it is not monotonicity in the Boolean lattice',
               'the Circuit-class theorems assume that Circuit.evaluate / evaluate_at compute f (C01 relates them to '
               'the netlist semantics)']


def _process(case):
    """one case in a worker: run the implementation, print the Coq term, evaluate the direct oracle.
    Only small results travel back (the observations of 65 536 functions do not fit in memory)."""
    out = {'term': None, 'term_error': None, 'stats': []}
    impl = fc.run_impl(case)
    try:
        out['term'] = fc.case_term(case, impl)
    except Exception as e:  # noqa: BLE001
        out['term_error'] = str(e)[:200]
    if case['kind'] == 'func' and isinstance(impl, dict) and 'answers' in impl:
        st = out['stats']
        for cls in fc.CLASSES:
            a = impl['answers'][cls]
            if isinstance(a, tuple):
                st.append(('constructor_errors', f'{cls}:{a[1]}', 1))
                continue
            errs = {}
            for x in a:
                if x[0] == 'err':
                    errs[x[1]] = errs.get(x[1], 0) + 1
            st += [('error_kinds', f'{cls}:{k}', v) for k, v in errs.items()]
        st.append(('queries_per_class', len(impl['queries']), 1))
        if impl['circuit']:
            st.append(('circuit_gates', len(impl['circuit']['gates']) // 4 * 4, 1))
    try:
        out['verdict'] = fc.oracle(case)
    except Exception as e:  # noqa: BLE001
        out['verdict'] = 'oracle crashed: ' + repr(e)[:300]
    return out


def run_all(cases):
    """16 worker processes; the result does not depend on the scheduling: each case is run on its own
    freshly built objects"""
    if len(cases) < 200:
        return [_process(c) for c in cases]
    with multiprocessing.get_context('fork').Pool(16) as pool:
        return pool.map(_process, cases, chunksize=64)


def build_cases(ctx):
    rng = ctx.rng
    cases = [json.loads(f.read_text())['case'] for f in sorted(CORPUS.glob('*.json'))]   # past failing inputs first
    cases += fc.func_cases(rng, ctx.n(3000, 0), not ctx.quick)
    cases += fc.misc_cases(rng, ctx.quick)
    for n, m, k in ((4, 1, ctx.n(40, 400)), (4, 2, ctx.n(40, 400)), (5, 1, ctx.n(6, 60))):
        for _ in range(k):
            cases.append(fc.func_case(n, m, [[rng.random() < 0.5 for _ in range(2 ** n)] for _ in range(m)]))
    cases += fc.model_cases(rng, ctx.n(140, 1400))
    return cases


_VERDICTS = {}


def correspondence(ctx, model_ok):
    r = CorrResult()
    r.rule = ('EXHAUSTIVE over all functions with (n, m) in {0,1,2,3}x{1,2} except (3,2), which is sampled without '
              'replacement in quick and exhaustive in thorough; random functions with 4 and 5 inputs; for each function the '
              'three classes (Circuit built through the public API from constants / inputs / NOT / shared minterm '
              'ANDs / OR, TruthTable(table), PyFunction(callable)) x every protocol query x every index argument '
              'from 0 to one past the arity (inverse in both values; output sets [], [j], [0,1], [1,0], [0,0], '
              '[0,m]); wrong-length input vectors; results and exception kinds compared with the model. Plus: '
              'input_iterator_with_fixed_sum for n <= 5 (6), all k, with / without / too short negations; '
              'TruthTable construction shapes; TruthTableModel / PyFunctionModel check, check_at, '
              'get_model_truth_table and define with complete, redundant and incomplete definitions over '
              "don't-care densities 0..1; from_int_unary/binary_func for all in_len <= 3 (2), out_len <= 4, both "
              'endiannesses incl. values that overflow out_len; core/utils index conversions. '
              'non-trivial = every case; distinct = hash of the case')
    cases = build_cases(ctx)
    t0 = time.time()
    results = run_all(cases)
    r.notes.append(f'implementation runs + direct oracle: {time.time() - t0:.1f}s')
    terms, kept = [], []
    for case, res in zip(cases, results):
        _VERDICTS[fc.case_key(case)] = res['verdict']
        if case['kind'] == 'func':
            r.count('function_shape', f'n={case["n"]},m={case["m"]}')
        for name, key, k in res['stats']:
            r.count(name, key, k)
        r.count('case_kind', case['kind'])
        r.add_case(case, True)
        if res['term'] is None:
            r.disagreements.append({'name': 'implementation run not expressible: ' + str(res['term_error']),
                                    'case': case})
        else:
            terms.append(res['term'])
            kept.append(case)
    r._cases = cases
    if model_ok:
        t0 = time.time()
        bad = coqrun.run_cases(ID, 'func', fc.HEADER, terms, 'check_fcase', fc.CASE_TYPE, shard_bytes=100000)
        r.notes.append(f'model evaluation: {time.time() - t0:.1f}s')
        for i in bad[:20]:
            r.disagreements.append({'name': 'function protocol (' + kept[i]['kind'] + '): model vs implementation',
                                    'case': kept[i]})
    return r


def oracle_cases(ctx, corr):
    # integer wrappers on operands of 32-64 bits (values >= 2^53) are oracle-only: they cannot be tabulated
    return [dict(c) for c in fc.WIDE_CASES] + [dict(c) for c in fc.SIGWIDE_CASES] + [dict(c) for c in fc.SYMWIDE_CASES] + list(getattr(corr, '_cases', []))


def oracle(case):
    """the property itself on the implementation; verdicts computed by this run's workers are reused"""
    key = fc.case_key(case)
    if key in _VERDICTS:
        return _VERDICTS[key]
    return fc.oracle(case)


def classify(case, msg):
    return msg.split(':')[0]


def shrink(case, msg):
    return fc.shrink(case, msg)


def search(ctx, budget_s):
    t0 = time.time()
    rng = ctx.rng
    while time.time() - t0 < budget_s:
        n = rng.choice([3, 3, 4, 4, 5])
        m = rng.choice([1, 2, 3])
        case = fc.func_case(n, m, [[rng.random() < 0.5 for _ in range(2 ** n)] for _ in range(m)])
        msg = oracle(case)
        if msg:
            return case, msg
        for case in fc.model_cases(rng, 7):
            msg = oracle(case)
            if msg:
                return case, msg
    return None
