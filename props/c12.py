"""C12 All function representations answer every protocol query alike and correctly."""
import multiprocessing
import time

from framework.checklib import CorrResult
from framework import coqrun
from harness import funccorr as fc

ID = 'C12'
TRANSLATORS = []
PROPERTY_FILE = 'Properties/C12.v'
THEOREMS = []
PARTIAL = {}
LEVEL_TEXT = ''
LEVEL_NOTE = ''
TECHNIQUE = ''
TRUSTED = []
ASSUMPTIONS = []


def _impl(case):
    return fc.run_impl(case)


def run_all(cases):
    """implementation observations for every case (16 worker processes; the result does not depend on
    the scheduling: each case is run on its own freshly built objects)"""
    if len(cases) < 200:
        return [fc.run_impl(c) for c in cases]
    with multiprocessing.get_context('fork').Pool(16) as pool:
        return pool.map(_impl, cases, chunksize=32)


def build_cases(ctx):
    rng = ctx.rng
    cases = fc.misc_cases(rng, ctx.quick)
    cases += fc.func_cases(rng, ctx.n(3000, 0), not ctx.quick)
    for n, m, k in ((4, 1, ctx.n(40, 400)), (4, 2, ctx.n(40, 400)), (5, 1, ctx.n(6, 60))):
        for _ in range(k):
            cases.append(fc.func_case(n, m, [[rng.random() < 0.5 for _ in range(2 ** n)] for _ in range(m)]))
    cases += fc.model_cases(rng, ctx.n(140, 1400))
    return cases


def correspondence(ctx, model_ok):
    r = CorrResult()
    r.rule = ('EXHAUSTIVE over all functions with (n, m) in {0,1,2,3}x{1,2} except (3,2), which is sampled without '
              'replacement in quick and exhaustive in thorough; random functions with 4 and 5 inputs; for each function the '
              'three classes (Circuit built through the public API from constants / inputs / NOT / shared minterm '
              'ANDs / OR, TruthTable(table), PyFunction(callable)) x every protocol query x every index argument '
              'from 0 to one past the arity (inverse in both values; output sets [], [j], [0,1], [1,0], [0,0], '
              '[0,m]); wrong-length input vectors; results and exception kinds compared with the model. Plus: '
              'input_iterator_with_fixed_sum for n <= 5 (6), all k, with / without / too short negations; '
              'TruthTable construction shapes; TruthTableModel / PyFunctionModel check, check_at, '
              'get_model_truth_table and define with complete, redundant and incomplete definitions over '
              "don't-care densities 0..1; from_int_unary/binary_func for all in_len <= 3 (2), out_len <= 4, both "
              'endiannesses incl. values that overflow out_len; core/utils index conversions. '
              'non-trivial = every case; distinct = hash of the case')
    cases = build_cases(ctx)
    t0 = time.time()
    impls = run_all(cases)
    r.notes.append(f'implementation runs: {time.time() - t0:.1f}s')
    terms, kept = [], []
    for case, impl in zip(cases, impls):
        if case['kind'] == 'func':
            fc._IMPL_CACHE[fc.case_key(case)] = impl
            r.count('function_shape', f'n={case["n"]},m={case["m"]}')
            if isinstance(impl, dict) and 'answers' in impl:
                for cls in fc.CLASSES:
                    a = impl['answers'][cls]
                    if isinstance(a, tuple):
                        r.count('constructor_errors', f'{cls}:{a[1]}')
                        continue
                    for q, x in zip(impl['queries'], a):
                        r.count('queries', q[0])
                        if x[0] == 'err':
                            r.count('error_kinds', f'{cls}:{x[1]}')
                if impl['circuit']:
                    r.count('circuit_gates', len(impl['circuit']['gates']) // 4 * 4)
        r.count('case_kind', case['kind'])
        r.add_case(case, True)
        try:
            terms.append(fc.case_term(case, impl))
            kept.append(case)
        except Exception as e:  # noqa: BLE001
            r.disagreements.append({'name': 'implementation run not expressible: ' + str(e)[:200], 'case': case})
    r._cases = cases
    if model_ok:
        t0 = time.time()
        bad = coqrun.run_cases(ID, 'func', fc.HEADER, terms, 'check_fcase', fc.CASE_TYPE, shard_bytes=400000)
        r.notes.append(f'model evaluation: {time.time() - t0:.1f}s')
        for i in bad[:20]:
            r.disagreements.append({'name': 'function protocol (' + kept[i]['kind'] + '): model vs implementation',
                                    'case': kept[i]})
    return r


def oracle_cases(ctx, corr):
    return list(getattr(corr, '_cases', []))


def oracle(case):
    return fc.oracle(case)


def classify(case, msg):
    return msg.split(':')[0]


def search(ctx, budget_s):
    t0 = time.time()
    rng = ctx.rng
    while time.time() - t0 < budget_s:
        n = rng.choice([3, 3, 4, 4, 5])
        m = rng.choice([1, 2, 3])
        case = fc.func_case(n, m, [[rng.random() < 0.5 for _ in range(2 ** n)] for _ in range(m)])
        msg = oracle(case)
        if msg:
            return case, msg
        for case in fc.model_cases(rng, 7):
            msg = oracle(case)
            if msg:
                return case, msg
    return None
