"""C09 Subtraction, division, sqrt, comparison and gadget generators are exact."""
import json
import multiprocessing
import random
import time

from framework.checklib import CorrResult
from framework import coqrun
from harness import arithcorr as ac
from translator import t1_operators, t4_arith, t14_arith_gen

ID = 'C09'
TRANSLATORS = [t1_operators.translate, t4_arith.translate, t14_arith_gen.translate]
PROPERTY_FILE = 'Properties/C09.v'
THEOREMS = [
    'C09_truth_table_gate_types', 'C09_every_generator_only_extends', 'C09_extension_meaning',
    'C09_gate_from_tt_step',
    'C09_sub_exact', 'C09_sub_with_compare_exact', 'C09_div_mod_exact', 'C09_sqrt_exact',
    'C09_sum_two_numbers_exact', 'C09_equal_exact',
    'C09_plus_one_exact', 'C09_if_then_else_exact', 'C09_pairwise_if_then_else_exact',
    'C09_pairwise_xor_exact',
    'C09_generate_sub_two_numbers', 'C09_generate_div_mod', 'C09_generate_sqrt', 'C09_generate_equal',
    'C09_generate_plus_one', 'C09_generate_if_then_else', 'C09_generate_pairwise_if_then_else',
    'C09_generate_pairwise_xor',
    'C09_sub_works', 'C09_sub_with_compare_works', 'C09_div_mod_works', 'C09_sqrt_works', 'C09_equal_works',
    'C09_plus_one_works', 'C09_if_then_else_works', 'C09_pairwise_if_then_else_works',
    'C09_pairwise_xor_works',
    'C09_generators_regenerated',
]
PARTIAL = {}
LEVEL_TEXT = ('every generator of the property (subtraction, subtract-with-compare, div-mod incl. b = 0, sqrt, '
              'equality with a constant, plus-one, if-then-else, pairwise xor / if-then-else, and the eight '
              'generate_* wrappers) is proved exact for ALL operand widths, both endiannesses, every host circuit, '
              'every choice of operand gates and every add_outputs / result_labels option, by ripple / loop '
              'invariants over the builder model; "only fresh gates, old gates keep their function, inputs '
              'unchanged, outputs appended only when asked" is proved once for every builder program; the model '
              'is tied to /repo by regenerating binary_tt_to_type and the straight-line cells (translator T4), by '
              'regenerating the ALGORITHM of every add_* generator and generate_* wrapper statement by statement '
              '(translator T14) with a proof that each regenerated program runs exactly like the hand model for '
              'all arguments (C09_generators_regenerated), and by netlist-equality correspondence on every run')
LEVEL_NOTE = ('Coq kernel + vm_compute; translators T1, T4, T14 (T14: Python ints as Z, list mutation as rebinding '
              'under an ownership discipline, the Python built-ins as the fixed prelude Model/PyPrims.v; '
              'add_sum_two_numbers inside add_sqrt stays the hand model of C07; the only side condition of the tie is '
              'size_of_input_a >= 0 for generate_sub_two_numbers); correspondence harness (label renaming by creation index); '
              'each value theorem is stated for a model run that returns Ok; that the run does return Ok for existing '
              'operand gates, documented widths and new, distinct caller-chosen labels is proved separately '
              '(C09_*_works) for every injective naming function of the uuid counter (pairwise if-then-else: result '
              'labels not of the uuid shape); add_equal is stated for at least one input bit; the model is of the '
              'repaired code (fixes/D8, D9, D10)')
TECHNIQUE = ('Coq proof: generators as programs of a deep-embedded builder monad over the Circuit model; one generic '
             'extension theorem by induction on programs + a step lemma per added gate; value theorems by induction '
             'on operand lists with borrow/carry invariants, restoring-division and digit-by-digit square-root '
             'invariants (lia/nia); regenerated truth-table dictionary and cells; generator algorithms regenerated '
             'from the source as builder programs and proved extensionally equal to the model (index loops vs '
             'structural recursion, in-place stores vs list construction, bin/zfill digits vs const_bits); netlist-equality correspondence '
             'under vm_compute; direct oracle through Circuit.evaluate_full_circuit')
TRUSTED = ['uuid4 is modelled as a counter with a naming function that is universally quantified in every theorem; '
           'freshness of each new label is established by the modelled has_gate retry loop, not assumed',
           'the oracle treats caller-chosen result labels of the uuid shape new_<32 hex> as outside the property '
           '(they can clash with labels generated later)']
ASSUMPTIONS = ['the spelling of the input / result labels built by the generate_* wrappers is supplied by the harness '
               '(it does not matter for the property)']


def _oracle_worker(blob):
    case = json.loads(blob)
    try:
        return ac.oracle(case, random.Random(1), limit_bits=case.get('_limit', 14))
    except RecursionError:
        raise
    except Exception as e:  # noqa: BLE001
        return 'oracle crashed: ' + repr(e)


_CACHE = {}


def _key(case):
    return json.dumps(case, sort_keys=True)


def _precompute(cases, limit_bits):
    blobs = []
    for c in cases:
        d = dict(c)
        d['_limit'] = limit_bits
        blobs.append(json.dumps(d, sort_keys=True))
    ctx = multiprocessing.get_context('fork')
    with ctx.Pool(16) as pool:
        msgs = pool.map(_oracle_worker, blobs, chunksize=4)
    for c, m in zip(cases, msgs):
        _CACHE[_key(c)] = m


def correspondence(ctx, model_ok):
    r = CorrResult()
    r.rule = ('NETLIST EQUALITY after renaming the uuid labels by creation index: for each call the returned '
              'labels, the full circuit state (gate map in order with types and operand order, users index, '
              'inputs, outputs, blocks) and the uuid counter of the implementation are compared with the '
              'model run inside Coq (vm_compute); error kinds are compared when the call raises. Cases: '
              'every generator x every width 1..W x bare circuit / random host circuit with operands drawn '
              'among arbitrary existing gates (repetitions allowed) x both endiannesses x add_outputs '
              'on/off x result_labels given/None (incl. clashing, duplicated, wrong-length labels), '
              'unequal operand widths, empty operands, hosts that already contain an upcoming uuid label; '
              'all 16 truth-table strings through add_gate_from_tt; the generate_* wrappers. '
              'non-trivial = the call added at least one gate; distinct = hash of the case')
    cases = ac.quick_cases(ctx.rng, max_w=ctx.n(12, 16), reps=1,
                           extra_widths=ctx.n((), (20, 24, 32)), heavy_cap=ctx.n(12, 16))
    gcases = ac.gen_cases(ctx.rng, max_w=ctx.n(8, 12))
    terms, results = [], []
    for c in cases:
        res, _ = ac.run_impl(c)
        results.append(res)
        terms.append(ac.case_term(c, res))
        kind = c['call'][0]
        r.add_case(c, res[0] == 'ok' and len(res[1][1]['gates']) > len(c['host']['gates']))
        r.count('call', kind)
        r.count('result', 'ok' if res[0] == 'ok' else res[1])
        r.count('host', 'bare' if not c['host']['gates'] or c['host']['gates'][0][0] == '0' else 'host')
        widths = [len(x) for x in c['call'][1:] if isinstance(x, list)]
        r.count('width', max(widths) if widths else 0)
        if res[0] == 'ok':
            r.count('gates_added', (len(res[1][1]['gates']) - len(c['host']['gates'])) // 50 * 50)
    gterms, gresults = [], []
    for c in gcases:
        res, _ = ac.run_gen(c)
        gresults.append(res)
        gterms.append(ac.gen_case_term(c, res))
        r.add_case(c, res[0] == 'ok')
        r.count('call', c['gen'][0])
        r.count('result', 'ok' if res[0] == 'ok' else res[1])
    r._cases = cases + gcases
    if model_ok:
        bad = coqrun.run_cases(ID, 'arith', ac.HEADER, terms, 'check_arith_case', ac.CASE_TYPE)
        for i in bad:
            r.disagreements.append({'name': f'netlist of {cases[i]["call"][0]}: model vs implementation',
                                    'case': cases[i]})
        bad = coqrun.run_cases(ID, 'gen', ac.HEADER, gterms, 'check_gen_case', ac.GEN_CASE_TYPE)
        for i in bad:
            r.disagreements.append({'name': f'circuit of {gcases[i]["gen"][0]}: model vs implementation',
                                    'case': gcases[i]})
    t0 = time.time()
    _precompute(r._cases, ctx.n(14, 16))
    r.notes.append(f'direct oracle precomputed in parallel in {time.time() - t0:.1f}s')
    return r


def oracle_cases(ctx, corr):
    # wide equality gadgets (17-70 bits), oracle only: the constant itself and all its single-bit neighbours
    wide = []
    for w in (17, 24, 31, 33, 70):
        for num in ((1 << w) - 1, (1 << (w - 1)) + 5, ctx.rng.getrandbits(w)):
            wide.append(ac.make_call(ctx.rng, 'equal', w, False, 1000, variant=num))
    return wide + list(getattr(corr, '_cases', []))


def oracle(case):
    k = _key(case)
    if k in _CACHE:
        return _CACHE[k]
    return ac.oracle(case, random.Random(1), limit_bits=14)


def classify(case, msg):
    kind = (case.get('call') or case.get('gen'))[0]
    head = msg.split(' at {')[0].split(':')[0]
    return f'{kind}: {head}'[:80]


def search(ctx, budget_s):
    t0 = time.time()
    while time.time() - t0 < budget_s:
        cases = ac.quick_cases(ctx.rng, max_w=6) + ac.gen_cases(ctx.rng, max_w=5)
        for c in cases:
            msg = ac.oracle(c, random.Random(1), limit_bits=12)
            if msg:
                return c, msg
    return None


def shrink(case, msg):
    """lower the width / simplify the host while the oracle still fails with the same class"""
    key = classify(case, msg)
    if 'call' not in case:
        return case, msg
    best, best_msg = case, msg

    def size(c):
        return sum(len(x) for x in c['call'][1:] if isinstance(x, list)) * 100 + len(c['host']['gates'])
    rng = random.Random(0)
    kind = case['call'][0]
    for w in range(1, 8):
        for on_host in (False, True):
            for be in (False, True):
                for _ in range(6):
                    try:
                        variant = None
                        if kind == 'plusone':
                            variant = ('none' if case['call'][2] is None else 'ok',
                                       None if case['call'][2] is None else len(case['call'][2]), case['call'][3])
                        elif kind == 'equal':
                            variant = case['call'][2] if abs(case['call'][2]) < (1 << w) + 3 else None
                        elif kind in ('sub', 'subcmp', 'sum2'):
                            variant = 'uneq'
                        c = ac.make_call(rng, kind, w, on_host, 1, be=be, variant=variant)
                    except Exception:  # noqa: BLE001
                        continue
                    if size(c) >= size(best):
                        continue
                    m = ac.oracle(c, random.Random(1), limit_bits=12)
                    if m and classify(c, m) == key:
                        best, best_msg = c, m
        if best is not case:
            break
    return best, best_msg
