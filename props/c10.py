"""C10 Circuit composition computes the documented functional composition."""
import time

from framework.checklib import CorrResult
from harness import gen, histcorr, semoracle

from translator import t9_circuit_core, t10_circuit_algos

ID = 'C10'
TRANSLATORS = [t9_circuit_core.translate, t10_circuit_algos.translate]
PROPERTY_FILE = 'Properties/C10.v'
THEOREMS = ['C10_result_wf', 'C10_result_arities_accepted', 'C10_result_evaluates', 'C10_connect_left', 'C10_left_induced_assignment', 'C10_connect_right',
            'C10_mapping_pairs', 'C10_connectors_distinct', 'C10_no_pair_dropped', 'C10_mapping_keys', 'C10_new_labels_fresh',
            'C10_connect_left_wrapper', 'C10_connect_right_wrapper', 'C10_connect_inputs_wrapper',
            'C10_extend_circuit_left', 'C10_extend_circuit_right', 'C10_add_circuit',
            'C10_block_extract', 'C10_nub_first_nodup', 'C10_block_into_circuit_spec',
            'C10_connect_left_total', 'C10_prefix_injective',
            'C10_example_left', 'C10_example_right']
PARTIAL = {}
LEVEL_TEXT = ('proved for the model of connect_circuit in both directions and for connect_left / connect_right / '
              'connect_inputs / extend_circuit / add_circuit as instances, over the relational three-valued semantics '
              'Eval (all assignments, partial ones included), for every normal return: the result is well formed and has '
              'accepted operand counts when both constituents have (so evaluate / get_truth_table return on it with exactly '
              'the Eval values described here: completeness of the evaluators, C01); its '
              'inputs are the base inputs that are still INPUT gates followed by the renamed unconnected inputs of the '
              'attached circuit, its outputs the base outputs that are not connectors followed by the renamed '
              'unconnected outputs of the attached circuit; LEFT: every base gate keeps its value and every gate l of '
              'the attached circuit has, under its new label, the value it has in the attached circuit when connector '
              'oc_i is given the value of base gate tc_i (repeated base gates allowed) and an unconnected input the '
              'value of its new label; RIGHT: every gate of the attached circuit (connectors written over base inputs '
              'included, internal connectors allowed) has the value it has in the attached circuit, and every base '
              'gate the value it has in base when the base input mapping[o] is given the value of gate o; the output '
              'vector is the concatenation of the two constituents\' kept output vectors; the labels of the copied '
              'gates are not labels of base; when a block name is given, the block exists, Block.into_circuit returns a '
              'well formed circuit whose inputs/outputs are the renamed inputs/outputs of the attached circuit and in '
              'which every gate of the attached circuit (its outputs in particular) has the value it has in the '
              'attached circuit, as a function of the attached circuit\'s inputs (both directions); a LEFT connection is total: it returns normally whenever the arguments pass the documented checks and no copied gate label or block name clashes with one of base. The attached '
              'circuit is unmodified because the model is purely functional; the implementation side of that '
              'statement, and the tie model = code, come from the exact state correspondence after every call of '
              'generated composition histories and from the brute-force oracle')
LEVEL_NOTE = ('Coq kernel + vm_compute (examples); connect_circuit, its five wrappers, Block.into_circuit and top_sort are '
              'also regenerated from circuit.py by translator T10 and proved equal to the model (Properties/C02.v '
              'C02_algorithms_regenerated; needs the gate-map keys of the attached circuit unique, part of WF); '
              'hand-written model Model/Connect.v (connect_circuit with the D1/D17/D18 '
              'repairs: users index updated when a base input is overwritten, re-typed connectors listed in the block, '
              'Block.into_circuit skips inputs already present), Model/Sem.v (Eval), Model/Traverse.v (top_sort), '
              'Proofs/WFConnect*.v (C02) for well-formedness. Hypotheses: WF base, WF other (only these for the '
              'semantic statements); inputs_nullary base additionally for WF of a right connection; inputs_nullary of '
              'both for block extraction (through C02). The semantic theorems speak about normal returns: a label clash, '
              'a missing connector, etc. give Err in the model and an exception in the code; totality is proved for the left '
              'connection (C10_connect_left_total), not for the right one. In a '
              'right connection with a repeated connector of the attached circuit only its LAST pair is connected (Python '
              'dict semantics of `mapping`); the theorem is stated through build_mapping and is exact about that')
TECHNIQUE = ('Coq proof: loop invariant over top_sort(other) with the processed prefix (structure theorem: which gate '
             'is stored under which label), then one simulation lemma for the relational semantics (a circuit embedded '
             'by a label map, INPUT gates read any label with the right value) instantiated for left/right/block; '
             'model tied to /repo by full-state correspondence over composition histories and by the truth-table oracle')
TRUSTED = []
ASSUMPTIONS = []
ALLOW = ['connect'] * 4 + ['connect_left', 'connect_right', 'connect_inputs', 'extend', 'extend', 'add_circuit',
                            'emplace', 'block_into_circuit', 'copy']


def gen_connect_case(rng):
    base = gen.random_circuit(rng, n_inputs=rng.choice([1, 2, 2, 3]), n_gates=rng.randint(0, 7), with_blocks=False,
                              allow_const_ops=True)
    other = gen.random_circuit(rng, n_inputs=rng.choice([0, 1, 2, 2, 3]), n_gates=rng.randint(0, 6),
                               labels_prefix=rng.choice([None, 'q']), with_blocks=rng.random() < 0.2)
    if not other['outputs'] and other['gates']:
        other['outputs'] = [other['gates'][-1][0]]
    bl = [g[0] for g in base['gates']]
    ol = [g[0] for g in other['gates']]
    right = rng.random() < 0.5
    if right:
        k = rng.randint(0, min(len(base['inputs']), 3))
        tc = rng.sample(base['inputs'], k)
        oc = [rng.choice(ol) for _ in tc] if ol else []
        if rng.random() < 0.85:      # a repeated gate of `other` is refused (it cannot replace two base inputs)
            oc = list(dict.fromkeys(oc))
        tc = tc[:len(oc)]
    else:
        k = rng.randint(0, len(other['inputs']))
        oc = rng.sample(other['inputs'], k)
        tc = [rng.choice(bl) for _ in oc] if bl else []
        oc = oc[:len(tc)]
    name = rng.choice(['', 'N1', 'N1', 'blk'])
    return {'base': base, 'other': other, 'tc': tc, 'oc': oc, 'right': right, 'name': name,
            'add_prefix': rng.random() < 0.8}


def correspondence(ctx, model_ok):
    gen.HOSTILE_P = 0.03     # unusual but legal labels: '', '@', 'a@b', mutual prefixes, case pairs
    r = CorrResult()
    r.rule = ('histories of composition calls (connect_circuit in both directions with internal-gate connectors, '
              'repeated base connectors, partial connector lists; connect_left/right/inputs, extend_circuit, '
              'add_circuit; naming/prefix options; repeated composition; block extraction; copy) - full state '
              'compared with the model after every call and wfb evaluated on it; non-trivial = a call returned normally')
    histcorr.run(ctx, ID, r, ctx.n(300, 4000), ALLOW, steps=lambda: ctx.rng.randint(1, 5), model_ok=model_ok)
    return r


def gen_wrapper_case(rng):
    c = gen_connect_case(rng)
    kind = rng.choice(['connect_left', 'connect_right', 'connect_inputs', 'add_circuit', 'extend', 'extend', 'extend'])
    w = {'wrapper': kind, 'base': c['base'], 'other': c['other'], 'name': c['name'], 'add_prefix': c['add_prefix']}
    bl = [g[0] for g in c['base']['gates']]
    ol = [g[0] for g in c['other']['gates']]
    if kind == 'connect_left':
        w['tc'] = [rng.choice(bl) for _ in c['other']['inputs']] if bl else []
    elif kind == 'connect_right':
        n_in = len(c['base']['inputs'])
        w['oc'] = ((rng.sample(ol, n_in) if len(ol) >= n_in and rng.random() < 0.8
                    else [rng.choice(ol) for _ in range(n_in)]) if ol else [])
    elif kind == 'extend':
        w['right'] = rng.random() < 0.5
        r = rng.random()
        if r < 0.35:
            w['tc'], w['oc'] = None, None
        elif r < 0.6:
            w['tc'], w['oc'] = [], []                 # explicit empty lists: side by side
        elif r < 0.8:
            w['tc'], w['oc'] = c['tc'], c['oc']
        else:
            w['tc'], w['oc'] = (c['tc'], None) if rng.random() < 0.5 else (None, c['oc'])
    return w


# minimal failing input of the repaired defect D40 (fails the oracle on the unrepaired library)
_B = {'inputs': ['p', 'q'], 'outputs': ['g'], 'gates': [('p', 'INPUT', []), ('q', 'INPUT', []), ('g', 'AND', ['p', 'q'])],
      'users': [('p', ['g']), ('q', ['g'])], 'blocks': []}
_O = {'inputs': ['a'], 'outputs': ['z'], 'gates': [('a', 'INPUT', []), ('z', 'NOT', ['a'])], 'users': [('a', ['z'])],
      'blocks': []}
REGRESSIONS = [{'base': _B, 'other': _O, 'tc': ['p', 'q'], 'oc': ['z', 'z'], 'right': True, 'name': '', 'add_prefix': False},
               {'base': _B, 'other': _O, 'tc': ['p', 'q'], 'oc': ['z', 'z'], 'right': True, 'name': 'N1', 'add_prefix': True}]


def oracle_cases(ctx, corr):
    return [dict(c) for c in REGRESSIONS] + [gen_connect_case(ctx.rng) for _ in range(ctx.n(400, 5000))] + \
           [gen_wrapper_case(ctx.rng) for _ in range(ctx.n(300, 3000))]


def oracle(case):
    if 'wrapper' in case:
        return semoracle.oracle_wrapper(case)
    return semoracle.oracle_connect(case)


def classify(case, msg):
    return msg.split(':')[0][:60]


def search(ctx, budget_s):
    t0 = time.time()
    while time.time() - t0 < budget_s:
        c = gen_connect_case(ctx.rng) if ctx.rng.random() < 0.5 else gen_wrapper_case(ctx.rng)
        msg = oracle(c)
        if msg:
            return c, msg
    return None
