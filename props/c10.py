"""C10 Circuit composition computes the documented functional composition."""
import time

from framework.checklib import CorrResult
from harness import gen, histcorr, semoracle

ID = 'C10'
TRANSLATORS = []
PROPERTY_FILE = 'Properties/C10.v'
THEOREMS = []
PARTIAL = {}
LEVEL_TEXT = 'pending'
LEVEL_NOTE = 'pending'
TECHNIQUE = 'pending'
TRUSTED = []
ASSUMPTIONS = []
ALLOW = ['connect'] * 4 + ['connect_left', 'connect_right', 'connect_inputs', 'extend', 'extend', 'add_circuit',
                            'emplace', 'block_into_circuit', 'copy']


def gen_connect_case(rng):
    base = gen.random_circuit(rng, n_inputs=rng.choice([1, 2, 2, 3]), n_gates=rng.randint(0, 7), with_blocks=False,
                              allow_const_ops=True)
    other = gen.random_circuit(rng, n_inputs=rng.choice([0, 1, 2, 2, 3]), n_gates=rng.randint(0, 6),
                               labels_prefix=rng.choice([None, 'q']), with_blocks=rng.random() < 0.2)
    if not other['outputs'] and other['gates']:
        other['outputs'] = [other['gates'][-1][0]]
    bl = [g[0] for g in base['gates']]
    ol = [g[0] for g in other['gates']]
    right = rng.random() < 0.5
    if right:
        k = rng.randint(0, min(len(base['inputs']), 3))
        tc = rng.sample(base['inputs'], k)
        oc = [rng.choice(ol) for _ in tc] if ol else []
        if rng.random() < 0.7:
            oc = list(dict.fromkeys(oc))
        tc = tc[:len(oc)]
    else:
        k = rng.randint(0, len(other['inputs']))
        oc = rng.sample(other['inputs'], k)
        tc = [rng.choice(bl) for _ in oc] if bl else []
        oc = oc[:len(tc)]
    name = rng.choice(['', 'N1', 'N1', 'blk'])
    return {'base': base, 'other': other, 'tc': tc, 'oc': oc, 'right': right, 'name': name,
            'add_prefix': rng.random() < 0.8}


def correspondence(ctx, model_ok):
    r = CorrResult()
    r.rule = ('histories of composition calls (connect_circuit in both directions with internal-gate connectors, '
              'repeated base connectors, partial connector lists; connect_left/right/inputs, extend_circuit, '
              'add_circuit; naming/prefix options; repeated composition; block extraction; copy) - full state '
              'compared with the model after every call and wfb evaluated on it; non-trivial = a call returned normally')
    histcorr.run(ctx, ID, r, ctx.n(300, 4000), ALLOW, steps=lambda: ctx.rng.randint(1, 5), model_ok=model_ok)
    return r


def oracle_cases(ctx, corr):
    return [gen_connect_case(ctx.rng) for _ in range(ctx.n(400, 5000))]


def oracle(case):
    return semoracle.oracle_connect(case)


def classify(case, msg):
    return msg.split(':')[0][:60]


def search(ctx, budget_s):
    t0 = time.time()
    while time.time() - t0 < budget_s:
        c = gen_connect_case(ctx.rng)
        msg = oracle(c)
        if msg:
            return c, msg
    return None
