"""C02 Circuits stay well formed under every history of public mutations."""
import time

from framework.checklib import CorrResult
from framework import coqrun
from harness import coqterm as ct, env, gen, wforacle
from translator import t1_operators, t6_converters, t9_circuit_core

ID = 'C02'
TRANSLATORS = [t1_operators.translate, t6_converters.translate, t9_circuit_core.translate]
PROPERTY_FILE = 'Properties/C02.v'
THEOREMS = ['C02_empty_wf', 'C02_step_wf', 'C02_history_wf', 'C02_history_wf_from_empty', 'C02_into_bench_regenerated_wf',
            'C02_wfb_sound', 'C02_wfb_complete', 'C02_core_methods_regenerated',
            'C02_core_methods_regenerated_2', 'C02_core_removal_regenerated_wf', 'C02_example']
PARTIAL = {}
LEVEL_TEXT = ('proved for every modelled public mutator (all 24 constructors of History.op: add_gate/emplace_gate, '
              'add_inputs, remove_gate, rename_gate, mark_as_output, set_outputs, set_inputs, order_inputs, '
              'order_outputs, replace_inputs, make_block, make_block_from_slice, delete_block, remove_block, '
              'connect_circuit + 5 wrappers, replace_subcircuit, into_bench, copy, Block.into_circuit) and lifted to '
              'arbitrary histories by induction: the invariant WF /\\ inputs_nullary holds after every call that '
              'returns normally; the executable check wfb used on dumped implementation states is proved equivalent '
              'to WF; code tie by exact correspondence of the full state after every call of generated histories; '
              'in addition the simple mutators/validators are regenerated from the source by translator T9 and proved '
              'equal to the model (C02_core_methods_regenerated, C02_core_methods_regenerated_2: 35 functions of '
              'validation.py / utils.py / circuit.py incl. rename_gate and Block._rename_gate)')
LEVEL_NOTE = ('Coq kernel + vm_compute; hand-written model (Model/Circuit.v, Connect.v, Traverse.v, History.v); translator T1; '
              'the rewrite rules of into_bench are regenerated from converters.py by translator T6 and proved to have the same '
              'normal returns as the model (C02_into_bench_regenerated_wf, Properties/C14.v C14_rules_regenerated); '
              'the simple mutators/validators are regenerated from the source by translator T9 and proved equal to the '
              'model (has_gate get_gate get_gate_users get_block, the five check_* of validation.py, order_list, '
              '_add_user _remove_user _emplace_gate _add_gate emplace_gate add_gate add_inputs mark_as_output set_outputs '
              'set_inputs order_inputs order_outputs replace_inputs delete_block make_block _remove_gate remove_gate '
              '_remove_block remove_block rename_gate Block._rename_gate input_at_index output_at_index index_of_input '
              'all_indexes_of_output; the four removal methods under "block-dict keys unique", part of WF), so for '
              'these the trusted part is T9 (statement-level Python-ast -> Gallina, fail closed, with an aliasing '
              'discipline) instead of a hand transcription; make_block_from_slice, connect*, '
              'replace_subcircuit, copy remain hand-written and tied by correspondence only; '
              'correspondence harness. Hypotheses of the theorems (op_ok): the start state satisfies WF and '
              '"INPUT gates have no operands" (companion invariant, forced: replace_inputs / into_bench / right '
              'connection break WF otherwise); an emplaced INPUT gate has no operands; circuit arguments of '
              'connect*/replace_subcircuit satisfy the same invariant; for into_bench the comparison-like gates '
              '(LT LEQ GT GEQ LIFF RIFF LNOT RNOT) have at most two operands. Calls that raise are outside the '
              'statement (the model returns Err and the history stops); fuel exhaustion of the model loops is Err too')
TECHNIQUE = ('the simple mutators/validators are regenerated from the source by translator T9 and proved equal to the '
             'model (equality lemma per method, Proofs/CircuitCoreGen.v); Coq proof by per-operation invariant preservation (one lemma per public mutator: users-index '
             'multiset bookkeeping with count, explicit rank for acyclicity, relaxed loop invariants WFmod / WFpre / '
             'WFcore / Jinv for the mutators whose intermediate states are not well formed, cycle-check soundness '
             'for replace_subcircuit) + induction over the history; model tied to /repo by correspondence of the '
             'FULL state after every call of generated histories and by evaluating the reflected invariant wfb '
             '(proved equivalent to WF) on every reached state inside Coq')
TRUSTED = ['hypotheses of C02_step_wf / C02_history_wf (op_ok, Proofs/WFStep.v): INPUT gates have no operands '
           '(start state, emplaced gates, circuit arguments); circuit arguments are WF; into_bench: comparison-like '
           'gates have <= 2 operands. Each is witnessed necessary by a proved counterexample '
           '(Proofs/WFBench.v cex_nullary_breaks, cex_ternary_breaks; Proofs/WFConnect.v cex_*)']
ASSUMPTIONS = ['histories with invalid arguments (8% of the generated calls) and the states they produce are covered by the '
               'correspondence and the oracle only, not by the theorem']

HEADER = ('Require Import Cirbo.Model.Base Cirbo.Model.Gate Cirbo.Model.Circuit Cirbo.Model.Connect '
          'Cirbo.Model.History Cirbo.Model.WF.\n'
          "Definition chk (x : circuit * list op * list (res circuit)) := let '(c, os, ex) := x in "
          'run_history c os ex && (negb (wfb c) || forallb wfb (history_states c os)).')
CASE_TYPE = 'circuit * list op * list (res circuit)'


def gen_histories(ctx, n, r=None):
    hs = []
    for _ in range(n):
        h = gen.run_history(ctx.rng, env.uuid_counter, p_invalid=0.08)
        hs.append(h)
        if r is not None:
            ok = sum(1 for x in h['results'] if x[0] == 'ok')
            r.add_case({'start': h['start'], 'ops': [list(o[:1]) + [str(a)[:60] for a in o[1:]] for o in h['ops']]},
                       ok > 0)
            r.count('history_length', len(h['ops']))
            for o, res in zip(h['ops'], h['results']):
                r.count('operations', o[0])
                r.count('results', 'ok' if res[0] == 'ok' else res[1])
    return hs


def correspondence(ctx, model_ok):
    gen.HOSTILE_P = 0.03     # unusual but legal labels: '', '@', 'a@b', mutual prefixes, case pairs
    r = CorrResult()
    r.rule = ('seeded histories of 1-25 public mutator calls (24 kinds, all connect wrappers, replace_subcircuit, '
              'into_bench, copy, block extraction) on random well-formed start circuits, ~8% deliberately invalid '
              'arguments; after EVERY call the full implementation state (gate map order, every users list in order, '
              'inputs, outputs, blocks) is compared with the model state and the reflected invariant wfb is evaluated '
              'on it inside Coq; non-trivial = at least one call returned normally; distinct = hash of start + ops')
    hs = gen_histories(ctx, ctx.n(400, 6000), r)
    r._cases = hs
    if model_ok:
        bad = coqrun.run_cases(ID, 'hist', HEADER, [gen.history_term(h) for h in hs], 'chk', CASE_TYPE)
        for i in bad:
            r.disagreements.append({'name': 'history: model state / invariant vs implementation',
                                    'case': {'start': hs[i]['start'], 'ops': hs[i]['ops']}})
    return r


def oracle_cases(ctx, corr):
    return [{'start': h['start'], 'ops': h['ops']} for h in getattr(corr, '_cases', [])]


def oracle(case):
    """replay the history on the implementation; after every normal return the state must be well formed"""
    c = ct.build_circuit(case['start'])
    if wforacle.wf_violation(c):
        return None  # start state not well formed: outside the property
    for i, op in enumerate(case['ops']):
        op = tuple(op)
        try:
            c = gen.apply_op(c, op, env.uuid_counter)
        except gen.AliasingViolation as e:
            return f'aliasing: {e} (call {i}: {op[0]})'
        except Exception:  # noqa: BLE001
            return None
        msg = wforacle.wf_violation(c)
        if msg:
            return f'after call {i} ({op[0]}): {msg}'
    msg = wforacle.copy_violation(c)
    if msg:
        return f'copy: {msg}'
    return None


def has_input_with_operands(case):
    return any(t == 'INPUT' and ops for _, t, ops in case['start']['gates']) or \
        any(o[0] == 'emplace' and o[2] == 'INPUT' and o[3] for o in case['ops'])


def classify(case, msg):
    import re
    if has_input_with_operands(case):
        # INPUT gates carrying operands are a recorded degenerate case (DESIGN 6.4 D24)
        m = re.match(r'after call \d+ \((\w+)\)', msg)
        return 'input-with-operands:' + (m.group(1) if m else msg.split(':')[0])
    m = re.match(r'after call \d+ \((\w+)\): (users of|the operand graph|top_sort|users index|input list|operand|output|block|gate stored)', msg)
    if m:
        return f'{m.group(1)}:{m.group(2)}'
    return msg.split(':')[0]


def shrink(case, msg):
    """drop trailing calls after the failing one, then try deleting earlier calls"""
    import re
    m = re.match(r'after call (\d+)', msg)
    ops = list(case['ops'])
    if m:
        ops = ops[:int(m.group(1)) + 1]
    key = classify(case, msg)
    best = ({'start': case['start'], 'ops': ops}, msg)
    i = 0
    while i < len(best[0]['ops']) - 1:
        cand = {'start': case['start'], 'ops': best[0]['ops'][:i] + best[0]['ops'][i + 1:]}
        try:
            m2 = oracle(cand)
        except Exception:  # noqa: BLE001
            m2 = None
        if m2 and classify(cand, m2) == key:
            best = (cand, m2)
        else:
            i += 1
    return best


def search(ctx, budget_s):
    t0 = time.time()
    while time.time() - t0 < budget_s:
        h = gen.run_history(ctx.rng, env.uuid_counter, p_invalid=0.05)
        case = {'start': h['start'], 'ops': h['ops']}
        msg = oracle(case)
        if msg:
            return case, msg
    return None
