"""C06 Exact synthesis is sound and complete for the requested size and basis."""
import time

from framework import coqrun
from framework.checklib import CorrResult
from harness import searchcorr as sc
from translator import t1_operators, t3_search, t17_search_enc

ID = 'C06'
TRANSLATORS = [t1_operators.translate, t3_search.translate, t17_search_enc.translate]
PROPERTY_FILE = 'Properties/C06.v'
THEOREMS = ['C06_tt_to_gate_type_denotes', 'C06_tt_to_gate_type_injective', 'C06_operation_tables',
            'C06_operation_tables_operator', 'C06_operation_decodes_to_its_type', 'C06_bases_duplicate_free',
            'C06_bases_within_full', 'C06_full_is_all_operations', 'C06_operation_values_distinct',
            'C06_exactly_one_sound', 'C06_exactly_one_complete',
            'C06_soundness', 'C06_completeness', 'C06_soundness_typed', 'C06_completeness_typed',
            'C06_find_circuit_returns_valid', 'C06_no_solution_iff_none_exists', 'C06_find_circuit_total',
            'C06_solver_hypotheses_satisfiable', 'C06_validb_decides', 'C06_encoder_regenerated']
PARTIAL = {}
LEVEL_TEXT = ('soundness and completeness of the CNF encoding (every clause family, fix_gate, forbid_wire, '
              'need_normalized, don\'t-cares) and of the decoder are proved for all input/output counts, gate '
              'budgets, bases, constraint lists and don\'t-care patterns; find_circuit returns a circuit of the '
              'class and reports NoSolutionError iff the class is empty for every sound and complete solver; the '
              'Operation/Basis/_tt_to_gate_type tables are regenerated from the source and re-proved; the ENCODER '
              '(constructor, the four variable-name helpers, _is_dont_cares_input, _add_exactly_one_of, '
              '_init_default_cnf_formula with all seven clause families, fix_gate, forbid_wire, get_cnf) and the '
              'DECODER _get_circuit_by_model are regenerated statement by statement from the source on every run and '
              'proved EQUAL to the hand model (clause list in order, flags, error raised; the decoded Circuit on every '
              'model list a solver can return: C06_encoder_regenerated); encoder and decoder models are also tied to '
              'the code clause-for-clause / circuit-for-circuit by correspondence')
LEVEL_NOTE = ('Coq kernel + vm_compute; translators T1, T3, T17 (T17: the encoder of CircuitFinderSat over the fixed '
              'prelude Model/SearchPy.v - ints as naturals, the IDPool as the structured variables of Model/Search.v by '
              'the naming scheme the harness inverts, CNF() as its clause list, a FunctionModel as (input_size, '
              'output_size, table); side conditions of the equality: the model truth table has 2^n cells per row and '
              'output_size rows; the basis resolution and the order of the forbidden-operation set are parameters of '
              'the regenerated constructor; the decoder equality holds for model lists that mention every predecessor '
              'variable, set no output variable at an input gate and select a pair for every gate - outside them the '
              'hand model answers before a circuit is built while the source fails inside Circuit.add_gate, compared by '
              'correspondence only; the Circuit API under the decoder is the hand model of C02; find_circuit stays '
              'hand-modelled); '
              'correspondence harness and pysat shim; the SAT solver is a '
              'hypothesis (sound and complete), so is the time limit path (same answer or SolverTimeOutError, exercised '
              'once per run); model is of the code repaired by fixes/D14.patch; "two-input gate reading inputs or '
              'earlier gates" is read as two DISTINCT predecessors a < b (the encoding has no variable for a = b); a '
              'lone first_/second_predecessor means "is one of the two predecessors" (pinned test); the circuit-'
              'database shortcut is excluded by the property text')
TECHNIQUE = ('Coq proof: the CNF over structured variables is characterised family by family; soundness by strong '
             'induction on the gate index (x-variables equal the decoded circuit\'s values on every row that is not '
             'an all-don\'t-care row), completeness by reading the assignment off the circuit; exactly-one lemmas for '
             'the pairwise encoding; transport to gate types through the regenerated _tt_to_gate_type table; model '
             'tied to /repo by regenerating the tables (T3) and the encoder (T17: loops as folds over the clause list, '
             'equality with the hand model by generic fold lemmas instantiated by unification) and by clause-for-clause comparison of get_cnf() with '
             'encode (IDPool inverted) and of _get_circuit_by_model with decode + build_circuit; direct oracle: '
             'brute-force enumeration of the class')
TRUSTED = ['section hypothesis H-solver: the SAT solver returns a satisfying assignment or reports unsatisfiability '
           'correctly (theorems quantify over every such solver; the shim solver is one instance)',
           'spec_wf: the forbidden-operation list is the complement of the basis (checked on every case by '
           'spec_wfb; holds because Basis.FULL contains all 16 operations, theorem C06_full_is_all_operations) and '
           'every imposed constraint passed fix_gate / forbid_wire argument checking (checked on every case)',
           'the order of `set(FULL) - set(basis)` is taken from the implementation object (hash order of enum members); '
           'the theorems hold for every order']
ASSUMPTIONS = ['the pebble process pool / time limit only chooses between the same answer and SolverTimeOutError '
               '(exercised once per run, not modelled)',
               'a fix_gate call rejected with TypeError / GateTypeNoOperatorError (gate_type without a binary '
               'operator) has already appended its predecessor clauses; such half-imposed calls are outside the '
               'model (the harness records them)']


def systematic_cases():
    """all combinations of {fix_gate, forbid_wire, need_normalized} x named bases x two don't-care patterns"""
    out = []
    for basis in ('AIG', 'XAIG', 'FULL'):
        for tt in (['0110'], ['*1*0', '0**1'], ['****']):
            for fix in (None, ['fix', 3, None, 2, None], ['fix', 2, 0, 1, 'XOR'], ['fix', 3, 1, None, 'AND']):
                for forbid in (None, ['forbid', 0, 3]):
                    for norm in (False, True):
                        cons = [k for k in (fix, forbid) if k]
                        out.append({'tt': tt, 'r': 2, 'basis': {'kind': 'enum', 'name': basis}, 'norm': norm,
                                    'pre': cons[:1], 'post': cons[1:]})
    return out


def case_stats(r, case, shape):
    r.count('inputs', shape.n)
    r.count('outputs', shape.m)
    r.count('gates', shape.r)
    b = case['basis']
    r.count('basis', b['name'].upper() if b['kind'] != 'list' else f'custom[{len(set(b["ops"]))}]')
    r.count('basis_kind', b['kind'])
    r.count('need_normalized', case['norm'])
    cells = ''.join(case['tt'])
    dens = cells.count('*') / max(len(cells), 1)
    r.count('dont_care_density', 'none' if dens == 0 else 'all' if dens == 1 else '<=1/3' if dens <= 1 / 3
            else '<=2/3' if dens <= 2 / 3 else '<1')
    rows = 1 << shape.n
    r.count('function_model', case.get('model', 'tt'))
    alldc = sum(all(row[t] == '*' for row in case['tt']) for t in range(rows))
    r.count('all_dont_care_rows', 'none' if alldc == 0 else 'all' if alldc == rows else 'some')
    for k in case['pre'] + case['post']:
        if k[0] == 'forbid':
            r.count('constraints', 'forbid_wire')
        else:
            kind = ('both' if k[2] is not None and k[3] is not None else 'first' if k[2] is not None else 'second')
            r.count('constraints', f'fix_gate[{kind}{"+type" if k[4] else ""}]')
    if not case['pre'] and not case['post']:
        r.count('constraints', 'none')
    if case['post']:
        r.count('constraints', 'imposed after get_cnf()')


def correspondence(ctx, model_ok):
    import harness.env  # noqa: F401
    from cirbo.synthesis import circuit_search as cs
    r = CorrResult()
    r.rule = ('corpus (D14 inputs, pinned-test shapes) + systematic sweep {fix_gate kinds x forbid_wire x '
              'need_normalized x AIG/XAIG/FULL x don\'t-care patterns} + seeded random specs: n in 0..3 inputs, 1..2 '
              'outputs, 0..4 gates, bases as enum / str (any case) / custom Operation lists (0..16 members, '
              'duplicates), don\'t-care density 0 .. 1 incl. all-don\'t-care rows and tables, 0..3 accepted '
              'constraints split before/after get_cnf(), 65% of the tables realisable by a hidden circuit; per spec: '
              'get_cnf() vs encode clause for clause (order included); _get_circuit_by_model vs decode+build_circuit '
              'on the shim solver\'s model and on structured / random total assignments (full Circuit state or '
              'error kind, plus Python validity verdict vs validb); fix_gate/forbid_wire argument checks on random '
              'calls; non-trivial = at least one gate; distinct = hash of the case')
    cases = list(sc.CORPUS) + systematic_cases()
    n_random = ctx.n(280, 3000)
    big = ctx.n(14, 150)
    while len(cases) < len(sc.CORPUS) + 144 + n_random:
        c = sc.random_case(ctx.rng)
        sh = sc.shape_of(c)
        if sh.n == 3 and sh.r == 4:
            if big <= 0:
                continue
            big -= 1
        cases.append(c)
    cnf_terms, dec_terms, dec_src, cons_terms, cons_src = [], [], [], [], []
    notes = []
    for case in cases:
        shape = sc.shape_of(case)
        case_stats(r, case, shape)
        r.add_case(case, shape.r > 0)
        term, nclauses = sc.cnf_case_term(case)
        cnf_terms.append(term)
        r.count('cnf_clauses', '0' if nclauses == 0 else f'<{10 ** len(str(nclauses))}')
        # decoding: the solver's model and random assignments
        f = sc.make_finder(case)
        clauses = f.get_cnf()
        models = []
        if [] not in clauses:
            m = cs._solve_cnf('cadical195', clauses)
            r.count('shim_solver', 'sat' if m is not None else 'unsat')
            if m is not None:
                models.append(('solver', m))
        else:
            m = None
            r.count('shim_solver', 'empty clause')
        if m is None:
            ex = shape.exists()
            r.count('unsat_cases_enumeration', 'class enumerated: empty' if ex is False else
                    'a circuit exists' if ex else 'enumeration budget exhausted (completeness not decided)')
        models += sc.model_lists(ctx.rng, f, ctx.n(2, 4))
        for kind, m in models:
            f2 = sc.make_finder(case)
            t, res = sc.decode_case_term(case, f2, m, lambda c: shape.check(c) is None)
            dec_terms.append(t)
            dec_src.append(case)
            r.count('decode_' + kind, 'valid circuit' if res == ('ok', True) else 'circuit outside the class'
                    if res[0] == 'ok' else res[1])
            if kind == 'solver' and res != ('ok', True):
                notes.append(f'decoding the solver model: {res} for {case}')
        # argument checks
        for _ in range(2):
            k = sc.random_bad_constraint(ctx.rng, shape.n, shape.r) if ctx.rng.random() < 0.7 else \
                sc.random_constraint(ctx.rng, shape.n, shape.r)
            if k is None:
                continue
            t, err, note = sc.cons_case_term(case, k)
            cons_terms.append(t)
            cons_src.append((case, k))
            r.count('constraint_calls', err or 'accepted')
            if note:
                r.disagreements.append({'name': 'rejected constraint call mutated the clause list', 'case': case,
                                        'detail': note})
    r._cases = cases
    # the time limit path (pebble pool), once satisfiable and once not
    for case in (sc.CORPUS[4], sc.CORPUS[6]):
        t0 = time.time()
        msg = sc.oracle(case, time_limit=60)
        r.count('time_limit_path', 'ok' if not msg else msg.split(':')[0])
        if msg:
            r.disagreements.append({'name': 'find_circuit(time_limit=60)', 'case': case, 'detail': msg})
        notes.append(f'time_limit path exercised in {time.time() - t0:.2f}s')
    r.notes = notes[:20]
    if model_ok:
        ops, bases, tts, extra = sc.table_cases()
        for e in extra:
            r.disagreements.append({'name': 'generated tables vs live objects', 'detail': e})
        for name, terms, fn, ty in (('ops', ops, 'check_operation_case', 'string * tt4'),
                                    ('bases', bases, 'check_basis_case', 'string * list string'),
                                    ('tts', tts, 'check_tt_case', 'tt4 * gtype')):
            for i in coqrun.run_cases(ID, name, sc.HEADER, terms, fn, ty):
                r.disagreements.append({'name': f'generated table ({name}) vs live Python object',
                                        'detail': terms[i]})
        for i in coqrun.run_cases(ID, 'cnf', sc.HEADER, cnf_terms, 'check_cnf_case', 'cnf_case'):
            r.disagreements.append({'name': 'get_cnf() vs encode: clause lists differ', 'case': cases[i]})
        for i in coqrun.run_cases(ID, 'decode', sc.HEADER, dec_terms, 'check_decode_case', 'decode_case'):
            r.disagreements.append({'name': '_get_circuit_by_model vs decode', 'case': dec_src[i]})
        for i in coqrun.run_cases(ID, 'cons', sc.HEADER, cons_terms, 'check_cons_case', 'cons_case'):
            r.disagreements.append({'name': 'fix_gate / forbid_wire argument check vs check_constraint',
                                    'case': cons_src[i][0], 'detail': str(cons_src[i][1])})
    r.evaluations += len(dec_terms) + len(cons_terms)
    return r


def oracle_cases(ctx, corr):
    cases = list(getattr(corr, '_cases', sc.CORPUS))
    # a timed-out search followed by another search on the same finder (satisfiable and unsatisfiable classes)
    again = [dict(c, timeout_first=True) for c in (sc.CORPUS[4], sc.CORPUS[6], sc.CORPUS[0])]
    # function models whose callable returns the ints 0 / 1 (equal to False / True)
    ints = [dict(c, model='pyint') for c in sc.CORPUS[:8]]
    wide = [sc.pinned_wide_case(ctx.rng, 3, r, k) for r, k in ((17, 2), (18, 3), (21, 1), (24, 2))]
    # refused constraint calls before the search on the same finder
    refused = [sc.with_rejected_calls(ctx.rng, c)
               for c in (list(sc.CORPUS[:8]) + [sc.random_case(ctx.rng) for _ in range(ctx.n(100, 800))])
               if not c.get('after')]
    return again + ints + wide + refused + cases


def oracle(case):
    return sc.oracle(case)


def classify(case, msg):
    return msg.split(':')[0]


def search(ctx, budget_s):
    t0 = time.time()
    for case in sc.CORPUS:
        msg = oracle(case)
        if msg:
            return case, msg
    while time.time() - t0 < budget_s:
        case = sc.random_case(ctx.rng)
        msg = oracle(case)
        if msg:
            return case, msg
    return None


def shrink(case, msg):
    return sc.shrink(case, msg)
