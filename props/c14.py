"""C14 Conversion to the bench basis preserves the function."""
import time

from framework.checklib import CorrResult
from harness import gen, histcorr, semoracle

ID = 'C14'
TRANSLATORS = []
PROPERTY_FILE = 'Properties/C14.v'
THEOREMS = []
PARTIAL = {}
LEVEL_TEXT = 'pending'
LEVEL_NOTE = 'pending'
TECHNIQUE = 'pending'
TRUSTED = []
ASSUMPTIONS = []
ALLOW = ['into_bench'] * 3 + ['emplace', 'make_block', 'rename']


def gen_case(rng):
    return gen.random_circuit(rng, n_inputs=rng.choice([1, 2, 3, 4]), n_gates=rng.randint(0, 14), with_blocks=True)


def correspondence(ctx, model_ok):
    r = CorrResult()
    r.rule = ('histories mixing into_bench with gate additions, block creation and renaming on circuits over all gate '
              'types (comparison gates with identical operands, L*/R* gates, constants with and without operands, '
              'gates that are outputs or block members); full state compared with the model after every call')
    histcorr.run(ctx, ID, r, ctx.n(300, 4000), ALLOW, steps=lambda: ctx.rng.randint(1, 4), model_ok=model_ok)
    return r


def oracle_cases(ctx, corr):
    return [gen_case(ctx.rng) for _ in range(ctx.n(400, 5000))]


def oracle(dump):
    return semoracle.oracle_into_bench(dump)


def classify(case, msg):
    return msg.split(':')[0][:60]


def search(ctx, budget_s):
    t0 = time.time()
    while time.time() - t0 < budget_s:
        c = gen_case(ctx.rng)
        msg = oracle(c)
        if msg:
            return c, msg
    return None
