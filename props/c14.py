"""C14 Conversion to the bench basis preserves the function."""
import time

from framework.checklib import CorrResult
from harness import gen, histcorr, semoracle
from translator import t6_converters, t9_circuit_core, t10_circuit_algos

ID = 'C14'
TRANSLATORS = [t6_converters.translate, t9_circuit_core.translate, t10_circuit_algos.translate]
PROPERTY_FILE = 'Properties/C14.v'
THEOREMS = ['C14_into_bench_regenerated', 'C14_rules_denotation', 'C14_rules_three_valued_refine', 'C14_rules_regenerated',
            'C14_rules_regenerated_eq', 'C14_rules_error_kind_corner', 'C14_interface_unchanged', 'C14_well_formed',
            'C14_function_preserved', 'C14_total_assignments', 'C14_truth_table_preserved',
            'C14_arities_accepted', 'C14_evaluate', 'C14_get_truth_table', 'C14_get_truth_table_returns', 'C14_bench_basis',
            'C14_helpers_in_blocks', 'C14_partial_assignments_differ', 'C14_arity_needed', 'C14_example']
PARTIAL = {}
LEVEL_TEXT = ('proved for every circuit satisfying the C02 invariant (WF and INPUT gates without operands) whose operand '
              'counts are accepted by the operators, and for every list of fresh labels: whenever into_bench returns, '
              'inputs and outputs are unchanged, the result is well formed, every gate of the original circuit (hence '
              'every output, hence the truth table) has the same value in the relational semantics Eval under every '
              'total assignment; at the entry points, as equalities of results: evaluate on every Boolean vector and '
              'get_truth_table of the converted circuit return exactly what they return on the original, and both return '
              '(the converted circuit is again well formed with accepted arities, so the evaluators are total on it: '
              'completeness half of C01); only INPUT/NOT/AND/OR/NAND/NOR/XOR/NXOR/IFF gates remain, old gates survive, blocks '
              'keep name, order, inputs and outputs and only gain helper gates, and every new gate is the helper '
              '(operand, label prefix+l+fresh) of a rewritten gate l and lies in every block that has l among its '
              'gates; each of the ten rewrite rules is also proved locally on Den.den; code tie by exact '
              'correspondence of the full state after every call of generated histories and by the truth-table '
              'oracle on the implementation')
LEVEL_NOTE = ('Coq kernel + vm_compute; hand-written model (Model/Connect.v into_bench/convert_gate, Circuit.v, Sem.v), '
              'generated operator tables (T1); correspondence harness. The ten rewrite rules are regenerated from '
              'converters.py by translator T6 (Generated/Converters.v: every _convert_* function statement by statement, '
              'the _convertors dict, _add_new_gate_to_blocks, the set of rules drawing a uuid4) and proved equal to the '
              'model the theorems are about (C14_rules_regenerated; equal except for the error KIND in one corner where '
              'both fail: LT/LEQ with a single operand whose helper cannot be emplaced raises CircuitValidationError in '
              'the source, PyIndexError in the hand model, witness C14_rules_error_kind_corner; normal returns coincide, '
              'so every theorem transfers); the driver loop of into_bench stays hand-written. Hypotheses: Inv c (C02), arity_ok c. "At '
              'least one input" is not needed (without inputs a constant gate makes into_bench raise, the theorems '
              'speak about normal returns); no freshness assumption (emplace_gate rejects an existing label). The '
              'function is preserved for TOTAL assignments only: with a partial assignment a rewritten comparison gate '
              'can be more defined than the original (GT(U,1)=U but AND(U,NOT 1)=0; proved witness '
              'C14_partial_assignments_differ; on three-valued states the rules refine, '
              'C14_rules_three_valued_refine). arity_ok is needed too: a comparison gate with three operands has no value but '
              'its conversion has one (proved witness C14_arity_needed). Statements are about Eval and, through the soundness and completeness of the evaluators (C01), about evaluate / get_truth_table')
TECHNIQUE = ('the ten rewrite rules are regenerated from converters.py by translator T6 and proved equal to the model the '
             'theorems are about (case analysis on the operand list, associativity of string append); Coq proof: shape lemma for one convert_gate (three kinds of steps), forward simulation of Eval per step by '
             'a congruence lemma (Eval_redefine: induction on derivations, no rank needed), induction over the snapshot '
             'loop with invariants indexed by the unvisited entries, converse direction from existence '
             '(WF + arity_ok) and functionality of Eval; WF from C02; entry points: arity_ok of the result from '
             'existence of values (every helper is an operand of an old gate), then completeness of evaluate (C01) on both sides')
TRUSTED = []
ASSUMPTIONS = []
ALLOW = ['into_bench'] * 3 + ['emplace', 'make_block', 'rename']


def gen_case(rng):
    return gen.random_circuit(rng, n_inputs=rng.choice([1, 2, 3, 4]), n_gates=rng.randint(0, 14), with_blocks=True)


def correspondence(ctx, model_ok):
    gen.HOSTILE_P = 0.03     # unusual but legal labels: '', '@', 'a@b', mutual prefixes, case pairs
    r = CorrResult()
    r.rule = ('histories mixing into_bench with gate additions, block creation and renaming on circuits over all gate '
              'types (comparison gates with identical operands, L*/R* gates, constants with and without operands, '
              'gates that are outputs or block members); full state compared with the model after every call')
    histcorr.run(ctx, ID, r, ctx.n(300, 4000), ALLOW, steps=lambda: ctx.rng.randint(1, 4), model_ok=model_ok)
    return r


def oracle_cases(ctx, corr):
    return [gen_case(ctx.rng) for _ in range(ctx.n(400, 5000))]


def oracle(dump):
    return semoracle.oracle_into_bench(dump)


def classify(case, msg):
    return msg.split(':')[0][:60]


def search(ctx, budget_s):
    t0 = time.time()
    while time.time() - t0 < budget_s:
        c = gen_case(ctx.rng)
        msg = oracle(c)
        if msg:
            return c, msg
    return None
