"""C03 Simplification passes preserve the function, the interface and their argument."""
import time

from framework.checklib import CorrResult
from framework import coqrun
from harness import gen, passcorr
from translator import t1_operators, t15_passes

ID = 'C03'
TRANSLATORS = [t1_operators.translate, t15_passes.translate]
PROPERTY_FILE = 'Properties/C03.v'
THEOREMS = ['C03_remove_redundant_gates', 'C03_remove_redundant_gates_inputs', 'C03_merge_unary_operators',
            'C03_merge_duplicate_gates', 'C03_merge_equivalent_gates', 'C03_pipeline', 'C03_cleanup',
            'C03_rebuild_with_remap', 'C03_pipeline_truth_table', 'C03_pipeline_truth_table_returns', 'C03_pipeline_evaluate',
            'C03_cleanup_truth_table', 'C03_cleanup_truth_table_returns', 'C03_cleanup_evaluate',
            'C03_remove_redundant_gates_total', 'C03_merge_unary_operators_total', 'C03_merge_duplicate_gates_total',
            'C03_merge_equivalent_gates_total', 'C03_pipeline_total', 'C03_cleanup_total',
            'C03_merge_equivalent_gates_three_valued_refuted', 'C03_merge_unary_operators_arity_needed',
            'C03_passes_regenerated', 'C03_example_hypotheses', 'C03_example_runs']
PARTIAL = {}
LEVEL_TEXT = ('every clause of the property is a Coq theorem about the executable model of the four passes and of the '
              'Transformer pipeline machinery, for ALL well-formed circuits with accepted operand counts: each of '
              'RemoveRedundantGates (both flags), MergeUnaryOperators, MergeDuplicateGates, MergeEquivalentGates, every '
              'nested composition (linearisation, implied post passes, removal of repeated idempotent passes) and cleanup '
              '(light and heavy) returns a well-formed circuit with the same inputs in the same order (with input removal: '
              'exactly the inputs reachable from the outputs, original order, and the removed inputs provably cannot '
              'matter), the same number of outputs, the same value at every output position under every three-valued '
              'assignment (MergeEquivalentGates and pipelines containing it: under every total assignment, i.e. an '
              'identical truth table - shown to be the best possible by a refutation of the three-valued statement), an '
              'equal get_truth_table result when inputs are kept (equality of the two results, and both calls return; likewise '
              'evaluate on every Boolean vector), and no more gates than the argument; in addition the passes and '
              'all pipelines are total (never raise) on such circuits. "The argument is not modified" holds by construction '
              'in the immutable model and is checked on the implementation by the harness (dump before/after). The '
              'hand-written model is tied to /repo on every run by comparing the complete output circuit (gate order, '
              'labels, operands, users, inputs, outputs) of every pass and of random pipelines on generated circuits; and the '
              'pass ALGORITHMS are regenerated from the source on every run: translator T15 turns every _transform of '
              'minimization/simplification/*.py (closures with nonlocal state, the consume(circuit.dfs(hooks)) idiom, the '
              'signature dict of MergeDuplicateGates, the grouping and the shared _Keep objects of MergeEquivalentGates) '
              'into Gallina statement by statement (likewise cleanup, the reduction loop of '
              'Transformer.linearize_reduce_transformers and the class tables of the transformers), and '
              'C03_passes_regenerated proves each regenerated function equal to the hand model for every circuit')
LEVEL_NOTE = ('Coq kernel + vm_compute; model of the four passes (Model/Passes.v) proved equal to the functions that translator '
              'T15 regenerates from minimization/simplification/*.py on every run (trusted: the translator, its fixed prelude '
              '- sorted as insertion sort by String.leb, dicts as association lists, a heap for the _Keep dataclass - and the '
              'reading of consume(circuit.dfs(hooks)) as a fold of the hooks over the event log of the traversal model, '
              'which T10 regenerates and C20 proves); pipeline machinery: cleanup, the reduction loop of '
              'linearize_reduce_transformers, the __idempotent__ flags and the pre / post transformer lists of the '
              'constructors are regenerated too (Generated/PipelineGen.v) and the model is proved consistent with them, '
              'while linearize_transformers / as_distinct / apply_transformers / transform / the pipe operator / the '
              '__eq__ methods of transformer.py remain hand-modelled (dynamic dispatch over classes, recursive '
              'generators, reflected __eq__: correspondence only); hand-written model of the '
              'traversals (C20 theorems are used for the emission order) and of evaluation (C01 soundness and completeness are used for '
              'MergeEquivalentGates and get_truth_table); correspondence harness. Hypotheses: WF c (the C02 invariant) and '
              'arity_ok c (every non-INPUT gate has an operand count its operator accepts; without it evaluation raises and '
              'MergeUnaryOperators can turn a non-evaluable circuit into an evaluable one: C03_merge_unary_operators_arity_'
              'needed). Semantics = the relational three-valued Eval of C01; the executable get_truth_table / evaluate '
              'statements are equalities of results, unconditional (completeness of the evaluators, C01). Circuits with blocks: the passes drop blocks (model and implementation), '
              'which the property does not mention')
TECHNIQUE = ('Coq proof: one generic rebuild-with-remap lemma (rank induction on the rebuilt circuit) instantiated per pass '
             'with a fold invariant (identity / parity-parent dictionaries / first gate with the same canonical signature / '
             'truth-table group representative), C20 post-order for totality, induction on the linearised pipeline; exact '
             'output-circuit correspondence with the implementation; source-to-Gallina regeneration of the pass algorithms '
             '(T15) with equality proofs (simulation of the signature dict / the _Keep heap against the model tables)')
TRUSTED = []
ASSUMPTIONS = []


def gen_dump(rng):
    r = rng.random()
    if r < 0.15:
        return passcorr.unary_chain_circuit(rng, 'NOT')
    if r < 0.25:
        return passcorr.unary_chain_circuit(rng, 'IFF')
    if r < 0.40:
        return passcorr.near_duplicate_circuit(rng)
    return gen.random_circuit(rng, n_inputs=rng.choice([0, 1, 2, 3, 3, 4, 5]), with_blocks=False)


def correspondence(ctx, model_ok):
    gen.HOSTILE_P = 0.03     # unusual but legal labels: '', '@', 'a@b', mutual prefixes, case pairs
    r = CorrResult()
    r.rule = ('random circuits over all gate types (n-ary gates, L*/R* pseudo-unary gates, constants, outputs that are '
              'inputs or repeated, dead logic), chains of unary gates, families of near-duplicate gates (permuted / repeated / swapped operands, other type); per circuit every pass alone (_transform) and 3 random pipelines '
              '(nested compositions, pipe operator, implied post passes, repeated idempotent passes); the OUTPUT '
              'CIRCUIT is compared exactly (gate order, labels, operands, users, inputs, outputs) with the model, and '
              'the argument is checked to be unmodified; non-trivial = at least one non-INPUT gate')
    cases = []
    for _ in range(ctx.n(200, 3000)):
        d = gen_dump(ctx.rng)
        case = passcorr.make_case(ctx.rng, d)
        cases.append(case)
        r.add_case({'circuit': d, 'pipelines': [x['ts'] for x in case['runs']]},
                   any(t != 'INPUT' for _, t, _ in d['gates']))
        r.count('gates', len(d['gates']) // 5 * 5)
        for x in case['runs']:
            r.count('results', 'ok' if x['result'][0] == 'ok' else x['result'][1])
            if not x['untouched']:
                r.disagreements.append({'name': 'a pass modified its argument', 'case': {'circuit': d, 'ts': x['ts']}})
    r._cases = cases
    if model_ok:
        bad = coqrun.run_cases(ID, 'pass', passcorr.HEADER, [passcorr.case_term(c) for c in cases],
                               'check_pass_case', passcorr.CASE_TYPE)
        for i in bad:
            r.disagreements.append({'name': 'pass output: model vs implementation',
                                    'case': {'circuit': cases[i]['circuit'], 'ts': [['RR', False]]}})
    return r


def oracle_cases(ctx, corr):
    out = []
    for c in getattr(corr, '_cases', []):
        for x in c['runs']:
            out.append({'circuit': c['circuit'], 'ts': x['ts']})
        # statelessness of transformer objects: first a sibling circuit, then this one, same objects
        for leaf in passcorr.LEAVES:
            if leaf == ['ME'] and len(c['circuit']['inputs']) > 5:
                continue
            out.append({'circuit': c['circuit'], 'ts': [leaf],
                        'first': passcorr.sibling_variant(ctx.rng, c['circuit'])})
        out.append({'circuit': c['circuit'], 'ts': [], 'cleanup': len(c['circuit']['inputs']) <= 5})
        out.append({'circuit': c['circuit'], 'ts': [], 'cleanup': False})
    return out


def oracle(case):
    return passcorr.oracle_c03(case)


def classify(case, msg):
    return msg.split(':')[0][:60]


def search(ctx, budget_s):
    t0 = time.time()
    while time.time() - t0 < budget_s:
        d = gen_dump(ctx.rng)
        for leaf in passcorr.LEAVES:
            case = {'circuit': d, 'ts': [leaf]}
            msg = oracle(case)
            if msg:
                return case, msg
    return None
