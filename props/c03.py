"""C03 Simplification passes preserve the function, the interface and their argument."""
import time

from framework.checklib import CorrResult
from framework import coqrun
from harness import gen, passcorr
from translator import t1_operators

ID = 'C03'
TRANSLATORS = [t1_operators.translate]
PROPERTY_FILE = 'Properties/C03.v'
THEOREMS = []
PARTIAL = {}
LEVEL_TEXT = 'pending'
LEVEL_NOTE = 'pending'
TECHNIQUE = 'pending'
TRUSTED = []
ASSUMPTIONS = []


def gen_dump(rng):
    return gen.random_circuit(rng, n_inputs=rng.choice([0, 1, 2, 3, 3, 4, 5]), with_blocks=False)


def correspondence(ctx, model_ok):
    r = CorrResult()
    r.rule = ('random circuits over all gate types (n-ary gates, L*/R* pseudo-unary gates, constants, outputs that are '
              'inputs or repeated, dead logic); per circuit every pass alone (_transform) and 3 random pipelines '
              '(nested compositions, pipe operator, implied post passes, repeated idempotent passes); the OUTPUT '
              'CIRCUIT is compared exactly (gate order, labels, operands, users, inputs, outputs) with the model, and '
              'the argument is checked to be unmodified; non-trivial = at least one non-INPUT gate')
    cases = []
    for _ in range(ctx.n(200, 3000)):
        d = gen_dump(ctx.rng)
        case = passcorr.make_case(ctx.rng, d)
        cases.append(case)
        r.add_case({'circuit': d, 'pipelines': [x['ts'] for x in case['runs']]},
                   any(t != 'INPUT' for _, t, _ in d['gates']))
        r.count('gates', len(d['gates']) // 5 * 5)
        for x in case['runs']:
            r.count('results', 'ok' if x['result'][0] == 'ok' else x['result'][1])
            if not x['untouched']:
                r.disagreements.append({'name': 'a pass modified its argument', 'case': {'circuit': d, 'ts': x['ts']}})
    r._cases = cases
    if model_ok:
        bad = coqrun.run_cases(ID, 'pass', passcorr.HEADER, [passcorr.case_term(c) for c in cases],
                               'check_pass_case', passcorr.CASE_TYPE)
        for i in bad:
            r.disagreements.append({'name': 'pass output: model vs implementation',
                                    'case': {'circuit': cases[i]['circuit'], 'ts': [['RR', False]]}})
    return r


def oracle_cases(ctx, corr):
    out = []
    for c in getattr(corr, '_cases', []):
        for x in c['runs']:
            out.append({'circuit': c['circuit'], 'ts': x['ts']})
        out.append({'circuit': c['circuit'], 'ts': [], 'cleanup': len(c['circuit']['inputs']) <= 5})
        out.append({'circuit': c['circuit'], 'ts': [], 'cleanup': False})
    return out


def oracle(case):
    return passcorr.oracle_c03(case)


def classify(case, msg):
    return msg.split(':')[0][:60]


def search(ctx, budget_s):
    t0 = time.time()
    while time.time() - t0 < budget_s:
        d = gen_dump(ctx.rng)
        for leaf in passcorr.LEAVES:
            case = {'circuit': d, 'ts': [leaf]}
            msg = oracle(case)
            if msg:
                return case, msg
    return None
