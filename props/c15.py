"""C15 Evaluation under partial assignments is sound and monotone."""
from framework.checklib import CorrResult
from framework import coqrun
from harness import evalcorr, gen
from translator import t1_operators, t9_circuit_core, t10_circuit_algos

ID = 'C15'
TRANSLATORS = [t1_operators.translate, t9_circuit_core.translate, t10_circuit_algos.translate]
PROPERTY_FILE = 'Properties/C15.v'
THEOREMS = ['C15_evaluators_regenerated', 'C15_operator_monotone', 'C15_semantics_monotone', 'C15_defined_is_stable',
            'C15_total_is_defined', 'C15_full_evaluation_reports_semantics',
            'C15_stack_evaluation_reports_semantics',
            'C15_full_evaluation_total', 'C15_stack_evaluation_total',
            'C15_full_evaluation_monotone', 'C15_full_evaluation_defined_stable',
            'C15_stack_evaluation_monotone', 'C15_stack_evaluation_defined_stable',
            'C15_outputs_evaluation_monotone', 'C15_outputs_evaluation_defined_stable',
            'C15_full_evaluation_total_defined', 'C15_stack_evaluation_total_defined',
            'C15_outputs_evaluation_total_defined', 'C15_evaluate_boolean']
PARTIAL = {}
LEVEL_TEXT = ('proved in Coq: monotonicity and stability under completion for every netlist and every pair of '
              'assignments over the regenerated three-valued tables; and directly for the evaluators on well-formed '
              'circuits: evaluate_full_circuit / evaluate_circuit / evaluate_circuit_outputs are total for every '
              'partial assignment, every value they report is refined (a True/False is reported identically) under '
              'every assignment with more information, and under a total assignment no gate (whole circuit), no '
              'requested output (stack evaluator) and no output is Undefined; code tie by regeneration + '
              'correspondence over all 4^n partial assignments of generated circuits')
LEVEL_NOTE = ('Coq kernel + vm_compute; translator T1; correspondence harness; hypotheses of the evaluator-level '
              'theorems: WF c, assignment keys are inputs (both assignments), arity_ok c where totality / completeness '
              'of the second run is used (full circuit and outputs dictionary; the stack evaluator theorem needs no '
              'arity hypothesis because both runs are assumed to return); gates the stack evaluator did not evaluate are '
              'reported Undefined by design, so its totality statement speaks about the requested outputs')
TECHNIQUE = ('Coq proof: monotonicity of the regenerated 3-valued operator tables (case analysis + induction on the '
             'fold), lifted by induction over the relational netlist semantics; evaluators tied to the semantics by '
             'soundness + completeness theorems (C01) and a lemma that the set of labels the stack evaluator visits '
             'does not depend on values; model tied to /repo by regenerating the tables (translator T1) and by '
             'vm_compute correspondence of all evaluation entry points on generated circuits x partial assignments')
TRUSTED = ['hypotheses of the evaluator theorems: WF c, arity_ok c, the assignment assigns inputs only '
           '(assignments that pre-assign internal gates are exercised by the correspondence only)']
ASSUMPTIONS = []


def correspondence(ctx, model_ok):
    gen.HOSTILE_P = 0.03     # unusual but legal labels: '', '@', 'a@b', mutual prefixes, case pairs
    r = CorrResult()
    r.rule = ('seeded random DAGs over all 19 gate types (n-ary 2-5 operands, constants with 0/2 operands, repeated '
              'operands, dead logic, outputs that are inputs, repeated outputs); per circuit all 4^n assignments '
              '(True/False/Undefined/omitted per input) when 4^n <= budget else sampled; all three dict-valued '
              'evaluators + evaluate/evaluate_at/truth tables compared exactly incl. key order and error kind; '
              'non-trivial = at least one non-INPUT gate; distinct = hash of the case')
    n = ctx.n(150, 1500)
    cases = []
    for _ in range(n):
        dump = gen.random_circuit(ctx.rng, with_blocks=False)
        if ctx.rng.random() < 0.12:
            dump = gen.malformed_variant(ctx.rng, dump)   # separate malformed stream: error paths
            r.count('stream', 'malformed')
        else:
            r.count('stream', 'well-formed')
        case = evalcorr.make_case(ctx.rng, dump, n_assign=ctx.n(64, 256), n_vec=ctx.n(4, 16))
        cases.append(case)
        r.add_case(case, any(t != 'INPUT' for _, t, _ in dump['gates']))
        r.count('gates', len(dump['gates']) // 5 * 5)
        r.count('inputs', len(dump['inputs']))
        for _, t, _ in dump['gates']:
            r.count('gate_types', t)
        for x in case['acs']:
            r.count('full_result', x['full'][1] if x['full'][0] == 'err' else 'ok')
    if not ctx.quick:
        # thorough: EXHAUSTIVE enumeration of all netlists with <= 2 inputs and <= 2 gates over a reduced type set
        for dump in gen.tiny_netlists():
            case = evalcorr.make_case(ctx.rng, dump, n_assign=16, n_vec=4)
            cases.append(case)
            r.add_case(case, any(t != 'INPUT' for _, t, _ in dump['gates']))
            r.count('stream', 'exhaustive-tiny')
        r.notes.append('thorough tier enumerated all 908 netlists with <= 2 inputs and <= 2 gates over ' + str(gen.TINY_TYPES))
    r._cases = cases
    if model_ok:
        bad = coqrun.run_cases(ID, 'eval', evalcorr.HEADER, [evalcorr.case_term(c) for c in cases],
                               'check_eval_case', evalcorr.CASE_TYPE)
        for i in bad:
            r.disagreements.append({'name': 'evaluation entry points: model vs implementation',
                                    'case': cases[i]['circuit']})
    return r


def oracle_cases(ctx, corr):
    return [c['circuit'] for c in getattr(corr, '_cases', [])]


def oracle(dump):
    # soundness under total assignments (a special case of the property) also on ONE object that is edited between
    # evaluations: a reported True / False must be the value of the circuit as it is then
    return evalcorr.oracle_c15(dump) or evalcorr.oracle_after_edits(dump)


def classify(case, msg):
    return msg.split(':')[0]


def search(ctx, budget_s):
    import time
    t0 = time.time()
    while time.time() - t0 < budget_s:
        dump = gen.random_circuit(ctx.rng, with_blocks=False)
        msg = oracle(dump)
        if msg:
            return dump, msg
    return None
