"""C19 Local rewrites keep or specialise the function exactly as documented."""
import time

from framework.checklib import CorrResult
from harness import gen, histcorr, semoracle

from translator import t9_circuit_core, t10_circuit_algos

ID = 'C19'
TRANSLATORS = [t9_circuit_core.translate, t10_circuit_algos.translate]
PROPERTY_FILE = 'Properties/C19.v'
THEOREMS = ['C19_replace_subcircuit_regenerated', 'C19_rename_outcome', 'C19_rename_ok_iff', 'C19_rename_references', 'C19_rename_semantics',
            'C19_rename_semantics_renamed_assignment', 'C19_rename_truth_table',
            'C19_rename_evaluate', 'C19_rename_get_truth_table', 'C19_rename_get_truth_table_returns',
            'C19_replace_inputs_state', 'C19_replace_inputs_well_formed', 'C19_replace_inputs_cofactor',
            'C19_replace_inputs_cofactor_assignment', 'C19_replace_inputs_evaluate', 'C19_replace_inputs_truth_table',
            'C19_replace_inputs_arities_accepted', 'C19_replace_inputs_entry_example',
            'C19_remove_gate_outcome', 'C19_no_users_iff', 'C19_remove_gate_state', 'C19_remove_gate_well_formed',
            'C19_remove_gate_semantics',
            'C19_replace_subcircuit_renaming', 'C19_replace_subcircuit_well_formed', 'C19_replace_subcircuit_semantics',
            'C19_replace_subcircuit_truth_table', 'C19_replace_subcircuit_arities_accepted',
            'C19_replace_subcircuit_outputs', 'C19_replace_subcircuit_evaluate', 'C19_replace_subcircuit_entry_example',
            'C19_replace_subcircuit_errors',
            'C19_replace_subcircuit_arity_needed', 'C19_replace_subcircuit_example',
            'C19_example']
PARTIAL = {}
LEVEL_TEXT = ('proved over the relational semantics Eval, for all well-formed circuits and all assignments: rename_gate - exact '
              'outcome (Ok iff old present and new absent, otherwise exactly CircuitGateIsAbsentError / '
              'CircuitGateAlreadyExistsError), gate map, operands, users index, inputs, outputs and blocks are the images '
              'under the renaming, the value of every gate is transported along the renaming, hence the output function is '
              'unchanged, and at the entry points evaluate (every value vector) and get_truth_table return EQUAL results '
              '(values and errors) before and after, for every well-formed circuit, no arity hypothesis; replace_inputs - remaining inputs in original order, chosen gates become operand-free constants, '
              'every gate value equals the value in the original circuit under the assignment extended by T->1, F->0 (the '
              'cofactor), and at the entry points evaluate on the result equals evaluate on the original with the constants '
              'filled in positionally (as results) and the truth table of the result is the corresponding sub-table of the '
              'original one (both calls return; WF, INPUT gates without operands and accepted arities assumed); remove_gate - Ok iff the gate exists and nobody uses it (else exactly CircuitValidationError / '
              'GateHasUsersError), it disappears from gate map, inputs and outputs, blocks mentioning it are dropped, every '
              'other gate keeps its value; replace_subcircuit - on Ok the state is well formed (C02) and, if the replacement '
              'reproduces at the mapped outputs the host values from the host values of the mapped inputs, every surviving '
              'gate and the whole output vector keep their values modulo the renaming of the mapped gates, the result has '
              'accepted arities when host and replacement have, and evaluate / get_truth_table return equal results when no '
              'primary input is removed; on failure the '
              'error is one of the seven documented kinds (never OutOfFuel: fuel adequacy of the slice loop and of the cycle '
              'check proved); code tie by exact correspondence of the full state after every call of generated histories '
              'and by the truth-table oracle on the implementation')
LEVEL_NOTE = ('Coq kernel + vm_compute; hand-written model (Model/Circuit.v rename_gate/replace_inputs/remove_gate, '
              'Connect.v replace_subcircuit, Sem.v), generated operator tables (T1); correspondence harness. Hypotheses: WF c '
              '(rename, replace_inputs, remove_gate: inputs_nullary is NOT needed for the semantic statements); '
              'replace_subcircuit: Inv c, Inv sub (as C02) and arity_ok c (needed: a replacement may read a mapped input the '
              'replaced slice ignored; if that host gate has no value (operator arity TypeError) the outputs lose their value: proved witness '
              'C19_replace_subcircuit_arity_needed); '
              'the equivalence hypothesis of replace_subcircuit is stated per host assignment ("sub maps the host values of '
              'the cut to the host values of the mapped outputs"), which is implied by functional equality on all cut '
              'assignments. Statements are about Eval and, for rename_gate and replace_inputs, also about the entry points '
              'evaluate / get_truth_table: rename_gate by a lock-step simulation of the stack evaluator (no arity hypothesis, '
              'errors included), replace_inputs through soundness and completeness of the evaluators (C01; hypotheses Inv c, '
              'arity_ok c). replace_subcircuit at the entry points (C19_replace_subcircuit_evaluate) needs in addition arity_ok sub and '
              'inputs c\' = the renamed inputs of c (an input that is itself a replaced output is removed from the input '
              'list, so the positional vectors would have different lengths)')
TECHNIQUE = ('Coq proof: generic simulation lemmas for Eval (Proofs/SemExt.v: simulation along a renaming restricted to an '
             'operand-closed set, agreement, extension, restriction, congruence, existence from WF + arity); rename: equational '
             'normal form of rename_gate + loop lemmas for success, structural image, two simulations, lock-step simulation '
             'of eval_stack_loop with dictionaries related along the renaming (equal fuel: sum of arities is invariant); replace_inputs / '
             'remove_gate: state characterisation + simulation both ways; replace_subcircuit: composite renaming, gate-map '
             'characterisation of removal and re-insertion, splice argument by strong induction on the rank of the result '
             'with a nested induction on the derivation in the replacement, backward direction from existence + '
             'functionality; error kinds by staged case analysis with fuel adequacy of the slice loop; WF from C02')
TRUSTED = []
ASSUMPTIONS = []
ALLOW = ['rename'] * 3 + ['replace_inputs'] * 2 + ['remove_gate'] * 2 + ['replace_subcircuit'] * 4 + ['emplace', 'make_block']


def gen_case(rng):
    dump = gen.random_circuit(rng, n_inputs=rng.choice([1, 2, 3, 4]), n_gates=rng.randint(1, 12), with_blocks=rng.random() < 0.3)
    labels = [g[0] for g in dump['gates']]
    kind = rng.choice(['rename', 'replace_inputs', 'remove_gate', 'replace_subcircuit', 'replace_subcircuit'])
    if kind == 'rename':
        new = rng.choice(labels) if rng.random() < 0.1 else gen.fresh_label(rng, set(labels))
        old = rng.choice(labels) if rng.random() < 0.9 else 'absent'
        return {'kind': kind, 'circuit': dump, 'old': old, 'new': new}
    if kind == 'replace_inputs':
        ins = list(dump['inputs'])
        rng.shuffle(ins)
        k = rng.randint(0, len(ins))
        j = rng.randint(0, k)
        return {'kind': kind, 'circuit': dump, 'to_true': ins[:j], 'to_false': ins[j:k]}
    if kind == 'remove_gate':
        return {'kind': kind, 'circuit': dump, 'label': rng.choice(labels)}
    from harness import coqterm as ct
    c = ct.build_circuit(dump)
    non_in = [l for l, t, _ in dump['gates'] if t != 'INPUT']
    if not non_in:
        return {'kind': 'remove_gate', 'circuit': dump, 'label': rng.choice(labels)}
    outs = list(dict.fromkeys(rng.choice(non_in) for _ in range(rng.randint(1, 2))))
    ins = [i for i in gen.slice_inputs(rng, c, outs, False) if i not in outs]
    rep = semoracle.equivalent_replacement(rng, dump, ins, outs)
    if rep is None:
        return {'kind': 'remove_gate', 'circuit': dump, 'label': rng.choice(labels)}
    sub, imap, omap = rep
    if rng.random() < 0.15:
        # an internal gate of the replacement carries the label of a host gate outside the replaced region:
        # the call has to refuse (documented error) - it must never overwrite the host gate
        region = set(semoracle.cone(dump, ins, outs)) | set(ins)
        mapped = {b for _, b in imap} | {b for _, b in omap}
        cand = [l for l, t, _ in sub['gates'] if t != 'INPUT' and l not in mapped]
        host = [l for l in labels if l not in region and l not in {g[0] for g in sub['gates']}]
        if cand and host:
            sub = gen.rename_dump(sub, {rng.choice(cand): rng.choice(host)})
    return {'kind': kind, 'circuit': dump, 'sub': sub, 'imap': imap, 'omap': omap, 'equivalent': True}


def correspondence(ctx, model_ok):
    gen.HOSTILE_P = 0.03     # unusual but legal labels: '', '@', 'a@b', mutual prefixes, case pairs
    r = CorrResult()
    r.rule = ('histories of rename_gate, replace_inputs, remove_gate, replace_subcircuit (cut-bounded slices with shared '
              'fan-out and outputs inside the slice, arbitrary replacement circuits, ~8% invalid arguments) mixed with '
              'gate additions and block creation; full state compared with the model after every call')
    histcorr.run(ctx, ID, r, ctx.n(300, 4000), ALLOW, steps=lambda: ctx.rng.randint(1, 6), model_ok=model_ok)
    return r


def _dump(inputs, outputs, gates):
    users = {}
    for l, _, ops in gates:
        for o in ops:
            users.setdefault(o, []).append(l)
    return {'inputs': list(inputs), 'outputs': list(outputs), 'gates': [(l, t, list(o)) for l, t, o in gates],
            'users': list(users.items()), 'blocks': []}


def cycle_closing_replacements():
    """an equivalent replacement whose new gates read a gate OUTSIDE the region that depends on a replaced output
    (o1 = AND(NOT a, OR(m, NOT m)) while m = NOT(o1) stays): the result would have the cycle o1 -> t -> m -> o1, so
    the call must raise - whether or not the region feeds an output of the circuit (dangling regions included)"""
    sub = _dump(['a', 'm'], ['o1', 'o2'],
                [('a', 'INPUT', []), ('m', 'INPUT', []), ('na', 'NOT', ['a']), ('nm', 'NOT', ['m']),
                 ('t', 'OR', ['m', 'nm']), ('o1', 'AND', ['na', 't']), ('o2', 'NOT', ['m'])])
    out = []
    for outs in (['z'], ['z', 'o2'], ['z', 'm']):
        c = _dump(['a', 'b'], outs, [('a', 'INPUT', []), ('b', 'INPUT', []), ('z', 'AND', ['a', 'b']),
                                     ('o1', 'NOT', ['a']), ('m', 'NOT', ['o1']), ('o2', 'NOT', ['m'])])
        out.append({'kind': 'replace_subcircuit', 'circuit': c, 'sub': sub, 'imap': [['a', 'a'], ['m', 'm']],
                    'omap': [['o1', 'o1'], ['o2', 'o2']], 'equivalent': True})
    return out


def oracle_cases(ctx, corr):
    return cycle_closing_replacements() + [gen_case(ctx.rng) for _ in range(ctx.n(500, 6000))]


def oracle(case):
    return {'rename': semoracle.oracle_rename, 'replace_inputs': semoracle.oracle_replace_inputs,
            'remove_gate': semoracle.oracle_remove_gate,
            'replace_subcircuit': semoracle.oracle_replace_subcircuit}[case['kind']](case)


def classify(case, msg):
    return case['kind'] + ':' + msg.split(':')[0][:60]


def search(ctx, budget_s):
    t0 = time.time()
    while time.time() - t0 < budget_s:
        c = gen_case(ctx.rng)
        msg = oracle(c)
        if msg:
            return c, msg
    return None
