"""C19 Local rewrites keep or specialise the function exactly as documented."""
import time

from framework.checklib import CorrResult
from harness import gen, histcorr, semoracle

ID = 'C19'
TRANSLATORS = []
PROPERTY_FILE = 'Properties/C19.v'
THEOREMS = ['C19_rename_outcome', 'C19_rename_ok_iff', 'C19_rename_references', 'C19_rename_semantics',
            'C19_rename_semantics_renamed_assignment', 'C19_rename_truth_table',
            'C19_replace_inputs_state', 'C19_replace_inputs_well_formed', 'C19_replace_inputs_cofactor',
            'C19_replace_inputs_cofactor_assignment',
            'C19_remove_gate_outcome', 'C19_no_users_iff', 'C19_remove_gate_state', 'C19_remove_gate_well_formed',
            'C19_remove_gate_semantics', 'C19_example']
PARTIAL = {}
LEVEL_TEXT = 'pending'
LEVEL_NOTE = 'pending'
TECHNIQUE = 'pending'
TRUSTED = []
ASSUMPTIONS = []
ALLOW = ['rename'] * 3 + ['replace_inputs'] * 2 + ['remove_gate'] * 2 + ['replace_subcircuit'] * 4 + ['emplace', 'make_block']


def gen_case(rng):
    dump = gen.random_circuit(rng, n_inputs=rng.choice([1, 2, 3, 4]), n_gates=rng.randint(1, 12), with_blocks=rng.random() < 0.3)
    labels = [g[0] for g in dump['gates']]
    kind = rng.choice(['rename', 'replace_inputs', 'remove_gate', 'replace_subcircuit', 'replace_subcircuit'])
    if kind == 'rename':
        new = rng.choice(labels) if rng.random() < 0.1 else gen.fresh_label(rng, set(labels))
        old = rng.choice(labels) if rng.random() < 0.9 else 'absent'
        return {'kind': kind, 'circuit': dump, 'old': old, 'new': new}
    if kind == 'replace_inputs':
        ins = list(dump['inputs'])
        rng.shuffle(ins)
        k = rng.randint(0, len(ins))
        j = rng.randint(0, k)
        return {'kind': kind, 'circuit': dump, 'to_true': ins[:j], 'to_false': ins[j:k]}
    if kind == 'remove_gate':
        return {'kind': kind, 'circuit': dump, 'label': rng.choice(labels)}
    from harness import coqterm as ct
    c = ct.build_circuit(dump)
    non_in = [l for l, t, _ in dump['gates'] if t != 'INPUT']
    if not non_in:
        return {'kind': 'remove_gate', 'circuit': dump, 'label': rng.choice(labels)}
    outs = list(dict.fromkeys(rng.choice(non_in) for _ in range(rng.randint(1, 2))))
    ins = [i for i in gen.slice_inputs(rng, c, outs, False) if i not in outs]
    rep = semoracle.equivalent_replacement(rng, dump, ins, outs)
    if rep is None:
        return {'kind': 'remove_gate', 'circuit': dump, 'label': rng.choice(labels)}
    sub, imap, omap = rep
    return {'kind': kind, 'circuit': dump, 'sub': sub, 'imap': imap, 'omap': omap, 'equivalent': True}


def correspondence(ctx, model_ok):
    r = CorrResult()
    r.rule = ('histories of rename_gate, replace_inputs, remove_gate, replace_subcircuit (cut-bounded slices with shared '
              'fan-out and outputs inside the slice, arbitrary replacement circuits, ~8% invalid arguments) mixed with '
              'gate additions and block creation; full state compared with the model after every call')
    histcorr.run(ctx, ID, r, ctx.n(300, 4000), ALLOW, steps=lambda: ctx.rng.randint(1, 6), model_ok=model_ok)
    return r


def oracle_cases(ctx, corr):
    return [gen_case(ctx.rng) for _ in range(ctx.n(500, 6000))]


def oracle(case):
    return {'rename': semoracle.oracle_rename, 'replace_inputs': semoracle.oracle_replace_inputs,
            'remove_gate': semoracle.oracle_remove_gate,
            'replace_subcircuit': semoracle.oracle_replace_subcircuit}[case['kind']](case)


def classify(case, msg):
    return case['kind'] + ':' + msg.split(':')[0][:60]


def search(ctx, budget_s):
    t0 = time.time()
    while time.time() - t0 < budget_s:
        c = gen_case(ctx.rng)
        msg = oracle(c)
        if msg:
            return c, msg
    return None
