# /verif top-level: `make setup` builds everything from files on disk (offline).
.PHONY: setup clean
setup:
	/venv/bin/python -m framework.setup
clean:
	rm -rf coq/Corr coq/Makefile coq/Makefile.conf coq/.Makefile.d
	find coq -name '*.vo' -o -name '*.vos' -o -name '*.vok' -o -name '*.glob' -o -name '.*.aux' | xargs rm -f
