#!/bin/sh
# usage: tools_run_all.sh <tier> <seed> [<seed> ...]   - runs every claimed check, prints one line per run
cd "$(dirname "$0")" || exit 2
tier=$1; shift
props=$(python3 -c "import json; print(' '.join(c['property_id'] for c in json.load(open('MANIFEST.json'))['checks']))")
fail=0
for seed in "$@"; do
  for p in $props; do
    out=$(./check $p --tier $tier --seed $seed 2>&1)
    rc=$?
    line=$(echo "$out" | grep -E "^$p (quick|thorough)" | tail -1)
    echo "rc=$rc $line"
    if [ $rc -ne 0 ]; then fail=1; echo "$out" | grep -E "VIOLATION|no longer checks" | head -3; echo "$out" | grep -A1 VIOLATION | tail -1; fi
  done
done
exit $fail
