#!/usr/bin/env python3
"""Regenerate the machine-written tables of DESIGN.md (between marker comments) from
seeded/RESULTS.json + seeded/*/meta.json and known_findings.json."""
import json
import pathlib
import re

V = pathlib.Path(__file__).resolve().parent


def seeded_table():
    res = json.loads((V / 'seeded' / 'RESULTS.json').read_text())
    rows = ['| seeded change | property | what it needs to manifest (from the author) | check | outcome |', '|---|---|---|---|---|']
    for sid in sorted(res):
        r = res[sid]
        meta = json.loads((V / 'seeded' / sid / 'meta.json').read_text())
        needs = ' '.join(meta.get('summary', meta.get('needs', '')).split())[:160]
        for prop, c in r.get('checks', {}).items():
            if c.get('violation') and not c.get('no_failing_input'):
                out = 'VIOLATION with replay (fails on the change, passes on /repo): ' + ' '.join(c.get('message', [''])[0].split())[:110]
            elif c.get('violation'):
                out = 'VIOLATION no-failing-input-found (a tie broke)'
            else:
                out = 'MISSED'
            if meta.get('status_note'):
                out += ' - NOTE: ' + meta['status_note']
            rows.append(f'| {sid} | {meta.get("property")} | {needs} | {prop} | {out} |')
    return '\n'.join(rows)


def findings_table():
    kf = json.loads((V / 'known_findings.json').read_text())
    rows = ['| kind | property | commit / key | what fails |', '|---|---|---|---|']
    for f in kf['fixed']:
        rows.append(f'| fixed | {f["property"]} | {f["commit"]} | {f["what_failed"]} |')
    for k in kf['known']:
        rows.append(f'| known | {k["property"]} | `{k["key"]}` | {k["description"]} |')
    return '\n'.join(rows)


def status_table():
    import importlib
    import sys
    sys.path.insert(0, str(V))
    rows = ['| property | property theorems | partial / bounded | regenerated fragments (translators) | what the check decides |', '|---|---|---|---|---|']
    for n in range(1, 21):
        pid = f'C{n:02d}'
        f = V / 'props' / f'{pid.lower()}.py'
        if not f.exists():
            rows.append(f'| {pid} | - | - | - | not built |')
            continue
        m = importlib.import_module('props.' + pid.lower())
        th = [t for t in m.THEOREMS if 'example' not in t.lower() and '_ex' not in t.lower()]
        partial = '; '.join(f'`{k}`: {" ".join(v.split())[:140]}' for k, v in getattr(m, 'PARTIAL', {}).items()) or 'none'
        trs = ', '.join(t.__module__.split('.')[-1] for t in getattr(m, 'TRANSLATORS', [])) or '-'
        rows.append(f'| {pid} | {len(th)} (+{len(m.THEOREMS) - len(th)} examples) | {partial} | {trs} | {" ".join(m.LEVEL_TEXT.split())[:420]} |')
    return '\n'.join(rows)


def main():
    p = V / 'DESIGN.md'
    s = p.read_text()
    for name, fn in (('SEEDED', seeded_table), ('FINDINGS', findings_table), ('STATUS', status_table)):
        b, e = f'<!-- {name}-TABLE-BEGIN -->', f'<!-- {name}-TABLE-END -->'
        if b in s:
            s = re.sub(re.escape(b) + '.*?' + re.escape(e), lambda _m, b=b, e=e, fn=fn: b + '\n' + fn() + '\n' + e, s, flags=re.S)
    p.write_text(s)


if __name__ == '__main__':
    main()
