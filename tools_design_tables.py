#!/usr/bin/env python3
"""Regenerate the machine-written tables of DESIGN.md (between marker comments) from
seeded/RESULTS.json + seeded/*/meta.json and known_findings.json."""
import json
import pathlib
import re

V = pathlib.Path(__file__).resolve().parent


def seeded_table():
    res = json.loads((V / 'seeded' / 'RESULTS.json').read_text())
    rows = ['| seeded change | property | what it needs to manifest (from the author) | check | outcome |', '|---|---|---|---|---|']
    for sid in sorted(res):
        r = res[sid]
        meta = json.loads((V / 'seeded' / sid / 'meta.json').read_text())
        needs = ' '.join(meta.get('summary', meta.get('needs', '')).split())[:160]
        for prop, c in r.get('checks', {}).items():
            if c.get('violation') and not c.get('no_failing_input'):
                out = 'VIOLATION with replay (fails on the change, passes on /repo): ' + ' '.join(c.get('message', [''])[0].split())[:110]
            elif c.get('violation'):
                out = 'VIOLATION no-failing-input-found (a tie broke)'
            else:
                out = 'MISSED'
            rows.append(f'| {sid} | {meta.get("property")} | {needs} | {prop} | {out} |')
    return '\n'.join(rows)


def findings_table():
    kf = json.loads((V / 'known_findings.json').read_text())
    rows = ['| kind | property | commit / key | what fails |', '|---|---|---|---|']
    for f in kf['fixed']:
        rows.append(f'| fixed | {f["property"]} | {f["commit"]} | {f["what_failed"]} |')
    for k in kf['known']:
        rows.append(f'| known | {k["property"]} | `{k["key"]}` | {k["description"]} |')
    return '\n'.join(rows)


def main():
    p = V / 'DESIGN.md'
    s = p.read_text()
    for name, fn in (('SEEDED', seeded_table), ('FINDINGS', findings_table)):
        b, e = f'<!-- {name}-TABLE-BEGIN -->', f'<!-- {name}-TABLE-END -->'
        if b in s:
            s = re.sub(re.escape(b) + '.*?' + re.escape(e), b + '\n' + fn() + '\n' + e, s, flags=re.S)
    p.write_text(s)


if __name__ == '__main__':
    main()
