"""T7: cirbo/core/parser/bench.py + cirbo/core/circuit/gate.py -> Generated/BenchDispatch.v

What is regenerated (everything else of the parser is hand-modelled in Model/Bench.v and tied
by the correspondence run):

  * VDD_NAME / BUFF_NAME                                  module-level string constants
  * AbstractBenchParser.__init__:  self._processings = { <key>: self._process_x, ... }
        <key> ::= gate.T.name | VDD_NAME | BUFF_NAME      (gate.T.name resolved in gate.py)
  * BenchToCircuit._process_x(self, out, a1, .., an[, *args]):
        return self._add_gate(out, gate.T, a1, .., an[, *args])
    -> handler = (gate type, number of named operands, accepts more)
  * BenchToCircuit._add_gate must be the plain call of Circuit._emplace_gate(label=out,
    gate_type=gate_type, operands=(*args,)) followed by `return []`
  * the keywords / slice offsets / strip sets that classify and cut declaration lines:
        line.upper().startswith('INPUT') / ('OUTPUT'),  line[6:].strip(') \\n'), line[7:].strip(') \\n'),
        _body[:3].upper() == VDD_NAME
  * Gate.format_gate: a chain of `if self.gate_type == T: return f"..."` and a final `return f"..."`,
    the f-strings built from literal text, {self._label}, {self.gate_type.name} and
    {', '.join(self._operands)}

Anything outside this grammar raises TranslatorError (fail closed).
"""
import ast

from .common import TranslatorError, fail, parse, strip_docstring, top_level_assigns, write_if_changed

GTYPES = ['INPUT', 'ALWAYS_TRUE', 'ALWAYS_FALSE', 'AND', 'GEQ', 'GT', 'IFF', 'LEQ', 'LIFF', 'LNOT',
          'LT', 'NAND', 'NOR', 'NOT', 'NXOR', 'OR', 'RIFF', 'RNOT', 'XOR']


def coq_string(x: str, node=None) -> str:
    """Coq term for a Python string; printable ASCII as a literal, anything else by character code"""
    if not all(ord(ch) < 128 for ch in x):
        fail(node, f'non-ASCII string constant {x!r}')
    parts, cur = [], ''
    for ch in x:
        if 32 <= ord(ch) < 127:
            cur += '""' if ch == '"' else ch
        else:
            if cur:
                parts.append(f'"{cur}"')
                cur = ''
            parts.append(f'(String (ascii_of_nat {ord(ch)}) "")')
    if cur or not parts:
        parts.append(f'"{cur}"')
    return parts[0] if len(parts) == 1 else '(' + ' ++ '.join(parts) + ')%string'


def coq_chars(x: str) -> str:
    return '[' + '; '.join(f'ascii_of_nat {ord(ch)}' for ch in x) + ']'


def class_def(mod, name):
    for n in mod.body:
        if isinstance(n, ast.ClassDef) and n.name == name:
            return n
    raise TranslatorError(f'class {name} not found')


def methods(cls):
    return {n.name: n for n in cls.body if isinstance(n, ast.FunctionDef)}


def is_attr(node, *path):
    """node is  path[0].path[1]....  (Names / Attributes)"""
    for p in reversed(path[1:]):
        if not (isinstance(node, ast.Attribute) and node.attr == p):
            return False
        node = node.value
    return isinstance(node, ast.Name) and node.id == path[0]


def gate_type_ref(node):
    """gate.T -> 'T'"""
    if isinstance(node, ast.Attribute) and isinstance(node.value, ast.Name) and node.value.id == 'gate' \
            and node.attr in GTYPES:
        return node.attr
    return None


def str_const(node):
    if isinstance(node, ast.Constant) and isinstance(node.value, str):
        return node.value
    return None


def int_const(node):
    if isinstance(node, ast.Constant) and type(node.value) is int:
        return node.value
    return None


# ------------------------------------------------------------------ gate.py
def gate_registry(gmod):
    reg = {}
    for name, val in top_level_assigns(gmod).items():
        if isinstance(val, ast.Call) and isinstance(val.func, ast.Name) and val.func.id == 'GateType':
            if len(val.args) != 3 or val.keywords or str_const(val.args[0]) is None:
                fail(val, 'GateType(...) shape')
            reg[name] = str_const(val.args[0])
    if sorted(reg) != sorted(GTYPES):
        raise TranslatorError(f'gate.py registry differs from the 19 modelled types: {sorted(reg)}')
    return reg


def fstring_term(node, selfname):
    """JoinedStr -> Coq string expression over l (the label) and g (the gate)"""
    if isinstance(node, ast.Constant) and isinstance(node.value, str):
        return coq_string(node.value, node)
    if not isinstance(node, ast.JoinedStr):
        fail(node, 'format_gate must return an f-string')
    parts = []
    for v in node.values:
        if isinstance(v, ast.Constant) and isinstance(v.value, str):
            if '\n' in v.value:
                fail(v, 'newline inside a gate line')
            parts.append(coq_string(v.value, v))
            continue
        if not isinstance(v, ast.FormattedValue) or v.conversion != -1 or v.format_spec is not None:
            fail(v, 'f-string part')
        e = v.value
        if is_attr(e, selfname, '_label') or is_attr(e, selfname, 'label'):
            parts.append('l')
        elif is_attr(e, selfname, 'gate_type', 'name') or is_attr(e, selfname, '_gate_type', 'name'):
            parts.append('gname (gtyp g)')
        elif (isinstance(e, ast.Call) and isinstance(e.func, ast.Attribute) and e.func.attr == 'join'
              and str_const(e.func.value) is not None and len(e.args) == 1 and not e.keywords
              and (is_attr(e.args[0], selfname, '_operands') or is_attr(e.args[0], selfname, 'operands'))):
            parts.append(f'String.concat {coq_string(str_const(e.func.value), e)} (gops g)')
        else:
            fail(e, 'f-string expression')
    return '(' + ' ++ '.join(parts) + ')%string' if parts else '""'


def format_gate_def(gmod):
    cls = class_def(gmod, 'Gate')
    f = methods(cls).get('format_gate')
    if f is None or len(f.args.args) != 1 or f.args.vararg or f.args.kwarg or f.args.kwonlyargs:
        fail(f or cls, 'Gate.format_gate(self)')
    selfname = f.args.args[0].arg
    body = strip_docstring(f.body)
    lines = ['Definition format_gate (l : label) (g : gate) : string :=']
    indent = '  '
    for i, st in enumerate(body):
        last = i == len(body) - 1
        if last:
            if not isinstance(st, ast.Return) or st.value is None:
                fail(st, 'format_gate must end in a return')
            lines.append(f'{indent}{fstring_term(st.value, selfname)}.')
            break
        ok = (isinstance(st, ast.If) and not st.orelse and len(st.body) == 1 and isinstance(st.body[0], ast.Return)
              and isinstance(st.test, ast.Compare) and len(st.test.ops) == 1 and isinstance(st.test.ops[0], ast.Eq)
              and (is_attr(st.test.left, selfname, 'gate_type') or is_attr(st.test.left, selfname, '_gate_type'))
              and isinstance(st.test.comparators[0], ast.Name) and st.test.comparators[0].id in GTYPES)
        if not ok:
            fail(st, 'format_gate statement')
        t = st.test.comparators[0].id
        lines.append(f'{indent}if gtype_beq (gtyp g) {t} then {fstring_term(st.body[0].value, selfname)} else')
    return '\n'.join(lines)


# ------------------------------------------------------------------ bench.py
def processings(bmod, reg, consts):
    cls = class_def(bmod, 'AbstractBenchParser')
    init = methods(cls).get('__init__')
    table = None
    for st in (init.body if init else []):
        tgt = val = None
        if isinstance(st, ast.AnnAssign):
            tgt, val = st.target, st.value
        elif isinstance(st, ast.Assign) and len(st.targets) == 1:
            tgt, val = st.targets[0], st.value
        if tgt is not None and is_attr(tgt, 'self', '_processings'):
            if table is not None:
                fail(st, '_processings assigned twice')
            table = val
    if not isinstance(table, ast.Dict):
        fail(table or cls, 'self._processings must be a dict display in __init__')
    # no other writes to _processings anywhere in the module
    for n in ast.walk(bmod):
        if isinstance(n, (ast.Assign, ast.AugAssign, ast.AnnAssign, ast.Delete)):
            tgts = n.targets if isinstance(n, (ast.Assign, ast.Delete)) else [n.target]
            for t in tgts:
                for sub in ast.walk(t):
                    if isinstance(sub, ast.Attribute) and sub.attr == '_processings' and \
                            not (isinstance(n, ast.AnnAssign) and n.value is table) and \
                            not (isinstance(n, ast.Assign) and n.value is table):
                        fail(n, 'second write to _processings')
    impl = methods(class_def(bmod, 'BenchToCircuit'))
    out = []
    seen = set()
    for k, v in zip(table.keys, table.values):
        if k is None:
            fail(table, 'dict unpacking in _processings')
        if isinstance(k, ast.Attribute) and k.attr == 'name' and gate_type_ref(k.value):
            key = reg[gate_type_ref(k.value)]
        elif isinstance(k, ast.Name) and k.id in consts:
            key = consts[k.id]
        else:
            fail(k, '_processings key')
        if key in seen:
            fail(k, f'duplicate _processings key {key}')
        seen.add(key)
        if not (isinstance(v, ast.Attribute) and isinstance(v.value, ast.Name) and v.value.id == 'self'):
            fail(v, '_processings value must be self._process_x')
        h = impl.get(v.attr)
        if h is None:
            fail(v, f'BenchToCircuit does not define {v.attr}')
        out.append((key,) + handler(h))
    return out


def handler(f):
    a = f.args
    if a.kwonlyargs or a.kwarg or a.defaults or a.posonlyargs or len(a.args) < 2 or f.decorator_list:
        fail(f, 'handler signature')
    names = [x.arg for x in a.args]
    body = strip_docstring(f.body)
    if len(body) != 1 or not isinstance(body[0], ast.Return) or not isinstance(body[0].value, ast.Call):
        fail(f, 'handler body must be `return self._add_gate(...)`')
    c = body[0].value
    if not is_attr(c.func, names[0], '_add_gate') or c.keywords or len(c.args) < 2:
        fail(c, 'handler must call self._add_gate positionally')
    if not (isinstance(c.args[0], ast.Name) and c.args[0].id == names[1]):
        fail(c, 'first argument of _add_gate must be the out label')
    t = gate_type_ref(c.args[1])
    if t is None or t == 'INPUT':
        fail(c, 'second argument of _add_gate must be gate.T')
    passed = c.args[2:]
    expect = names[2:]
    if a.vararg:
        if not (passed and isinstance(passed[-1], ast.Starred) and isinstance(passed[-1].value, ast.Name)
                and passed[-1].value.id == a.vararg.arg):
            fail(c, 'handler must forward *args last')
        passed = passed[:-1]
    if len(passed) != len(expect) or any(not (isinstance(p, ast.Name) and p.id == e) for p, e in zip(passed, expect)):
        fail(c, 'handler must forward its operands in order')
    return t, len(expect), bool(a.vararg)


def check_add_gate(bmod):
    f = methods(class_def(bmod, 'BenchToCircuit')).get('_add_gate')
    if f is None:
        raise TranslatorError('BenchToCircuit._add_gate not found')
    a = f.args
    names = [x.arg for x in a.args]
    if len(names) != 3 or a.vararg is None or a.kwarg or a.kwonlyargs or a.defaults:
        fail(f, '_add_gate(self, out, gate_type, *args)')
    body = strip_docstring(f.body)
    ok = len(body) == 2 and isinstance(body[0], ast.Expr) and isinstance(body[0].value, ast.Call) \
        and isinstance(body[1], ast.Return) and isinstance(body[1].value, ast.List) and not body[1].value.elts
    if not ok:
        fail(f, '_add_gate body')
    c = body[0].value
    if not is_attr(c.func, names[0], '_circuit', '_emplace_gate') or c.args:
        fail(c, '_add_gate must call self._circuit._emplace_gate with keywords')
    kw = {k.arg: k.value for k in c.keywords}
    ops = kw.get('operands')
    ok = (set(kw) == {'label', 'gate_type', 'operands'}
          and isinstance(kw['label'], ast.Name) and kw['label'].id == names[1]
          and isinstance(kw['gate_type'], ast.Name) and kw['gate_type'].id == names[2]
          and isinstance(ops, ast.Tuple) and len(ops.elts) == 1 and isinstance(ops.elts[0], ast.Starred)
          and isinstance(ops.elts[0].value, ast.Name) and ops.elts[0].value.id == a.vararg.arg)
    if not ok:
        fail(c, '_emplace_gate(label=out, gate_type=gate_type, operands=(*args,))')


def startswith_kw(test):
    """line.upper().startswith('KW')  [and '=' not in line]  ->  (KW, has_eq_guard)"""
    guard = False
    if isinstance(test, ast.BoolOp) and isinstance(test.op, ast.And) and len(test.values) == 2:
        g = test.values[1]
        ok = (isinstance(g, ast.Compare) and len(g.ops) == 1 and isinstance(g.ops[0], ast.NotIn)
              and str_const(g.left) == '=' and isinstance(g.comparators[0], ast.Name)
              and g.comparators[0].id == 'line')
        if not ok:
            fail(test, 'second conjunct of a declaration test must be `\'=\' not in line`')
        guard = True
        test = test.values[0]
    ok = (isinstance(test, ast.Call) and isinstance(test.func, ast.Attribute) and test.func.attr == 'startswith'
          and len(test.args) == 1 and str_const(test.args[0]) is not None
          and isinstance(test.func.value, ast.Call) and isinstance(test.func.value.func, ast.Attribute)
          and test.func.value.func.attr == 'upper' and not test.func.value.args
          and isinstance(test.func.value.func.value, ast.Name) and test.func.value.func.value.id == 'line')
    if not ok:
        fail(test, 'declaration test must be line.upper().startswith(KW)')
    return str_const(test.args[0]), guard


def line_constants(bmod):
    abs_m = methods(class_def(bmod, 'AbstractBenchParser'))
    impl = methods(class_def(bmod, 'BenchToCircuit'))
    f = abs_m.get('_process_line')
    body = [s for s in strip_docstring(f.body) if not (isinstance(s, ast.Expr) and isinstance(s.value, ast.Call))]
    if len(body) != 1 or not isinstance(body[0], ast.If):
        fail(f, '_process_line must be one if/elif chain')
    chain = []
    node = body[0]
    while True:
        chain.append((node.test, node.body))
        if len(node.orelse) == 1 and isinstance(node.orelse[0], ast.If):
            node = node.orelse[0]
        else:
            chain.append((None, node.orelse))
            break
    if len(chain) != 4:
        fail(f, '_process_line must have the branches skip / INPUT / OUTPUT / operator')

    def ret_call(stmts, meth):
        ok = (len(stmts) == 1 and isinstance(stmts[0], ast.Return) and isinstance(stmts[0].value, ast.Call)
              and is_attr(stmts[0].value.func, 'self', meth) and len(stmts[0].value.args) == 1
              and isinstance(stmts[0].value.args[0], ast.Name) and stmts[0].value.args[0].id == 'line')
        if not ok:
            fail(stmts[0] if stmts else f, f'branch must be `return self.{meth}(line)`')
    # branch 0: line == '' or line == '\n' or line[0] == '#'
    t0 = chain[0][0]
    ok = isinstance(t0, ast.BoolOp) and isinstance(t0.op, ast.Or) and len(t0.values) == 3
    if ok:
        a, b, c = t0.values
        ok = (isinstance(a, ast.Compare) and isinstance(a.ops[0], ast.Eq) and str_const(a.comparators[0]) == ''
              and isinstance(b, ast.Compare) and isinstance(b.ops[0], ast.Eq) and str_const(b.comparators[0]) == '\n'
              and isinstance(c, ast.Compare) and isinstance(c.ops[0], ast.Eq)
              and isinstance(c.left, ast.Subscript) and int_const(c.left.slice) == 0
              and str_const(c.comparators[0]) is not None and len(str_const(c.comparators[0])) == 1)
    if not ok:
        fail(t0, "skip test must be line == '' or line == '\\n' or line[0] == <char>")
    comment = str_const(t0.values[2].comparators[0])
    in_kw, in_guard = startswith_kw(chain[1][0])
    ret_call(chain[1][1], '_process_input_gate')
    out_kw, out_guard = startswith_kw(chain[2][0])
    ret_call(chain[2][1], '_process_output_gate')
    ret_call(chain[3][1], '_process_operator_gate')

    def cut(meth):
        g = impl.get(meth)
        if g is None:
            raise TranslatorError(f'BenchToCircuit.{meth} not found')
        for st in strip_docstring(g.body):
            if isinstance(st, ast.Assign) and isinstance(st.value, ast.Call) \
                    and isinstance(st.value.func, ast.Attribute) and st.value.func.attr == 'strip':
                sub = st.value.func.value
                ok = (isinstance(sub, ast.Subscript) and isinstance(sub.value, ast.Name) and sub.value.id == 'line'
                      and isinstance(sub.slice, ast.Slice) and int_const(sub.slice.lower) is not None
                      and sub.slice.upper is None and sub.slice.step is None
                      and len(st.value.args) == 1 and str_const(st.value.args[0]) is not None)
                if not ok:
                    fail(st, f'{meth}: label must be line[k:].strip(chars)')
                return int_const(sub.slice.lower), str_const(st.value.args[0])
        fail(g, f'{meth}: no line[k:].strip(chars)')
    in_cut = cut('_process_input_gate')
    out_cut = cut('_process_output_gate')
    # _body[:k].upper() == VDD_NAME
    g = abs_m.get('_process_operator_gate')
    vdd_len = None
    for n in ast.walk(g):
        if isinstance(n, ast.Compare) and isinstance(n.comparators[0], ast.Name) and n.comparators[0].id == 'VDD_NAME':
            l = n.left
            ok = (isinstance(l, ast.Call) and isinstance(l.func, ast.Attribute) and l.func.attr == 'upper'
                  and isinstance(l.func.value, ast.Subscript) and isinstance(l.func.value.slice, ast.Slice)
                  and l.func.value.slice.lower is None and int_const(l.func.value.slice.upper) is not None)
            if not ok or vdd_len is not None:
                fail(n, 'vdd test must be _body[:k].upper() == VDD_NAME (once)')
            vdd_len = int_const(l.func.value.slice.upper)
    if vdd_len is None:
        fail(g, 'no vdd test in _process_operator_gate')
    # the constant special case:  (op == ALWAYS_FALSE.name or op == ALWAYS_TRUE.name) [and _operands == ['']]
    const_guard = None
    for n in ast.walk(g):
        if isinstance(n, ast.If) and any(isinstance(x, ast.Attribute) and x.attr == 'name' and
                                         gate_type_ref(x.value) in ('ALWAYS_TRUE', 'ALWAYS_FALSE')
                                         for x in ast.walk(n.test)):
            t = n.test
            guarded = False
            if isinstance(t, ast.BoolOp) and isinstance(t.op, ast.And) and len(t.values) == 2:
                e = t.values[1]
                ok = (isinstance(e, ast.Compare) and isinstance(e.ops[0], ast.Eq)
                      and isinstance(e.left, ast.Name) and e.left.id == '_operands'
                      and isinstance(e.comparators[0], ast.List) and len(e.comparators[0].elts) == 1
                      and str_const(e.comparators[0].elts[0]) == '')
                if not ok:
                    fail(t, "guard of the constant case must be _operands == ['']")
                guarded = True
                t = t.values[0]
            ok = isinstance(t, ast.BoolOp) and isinstance(t.op, ast.Or) and len(t.values) == 2
            names = set()
            if ok:
                for e in t.values:
                    ok = ok and (isinstance(e, ast.Compare) and isinstance(e.ops[0], ast.Eq)
                                 and isinstance(e.left, ast.Name) and e.left.id == '_operator'
                                 and isinstance(e.comparators[0], ast.Attribute) and e.comparators[0].attr == 'name'
                                 and gate_type_ref(e.comparators[0].value) is not None)
                    if ok:
                        names.add(gate_type_ref(e.comparators[0].value))
            if not ok or names != {'ALWAYS_TRUE', 'ALWAYS_FALSE'} or const_guard is not None:
                fail(n, 'constant special case shape')
            const_guard = guarded
    if const_guard is None:
        fail(g, 'no constant special case in _process_operator_gate')
    return {'comment': comment, 'in_kw': in_kw, 'out_kw': out_kw, 'in_guard': in_guard, 'out_guard': out_guard,
            'in_cut': in_cut, 'out_cut': out_cut, 'vdd_len': vdd_len, 'const_guard': const_guard}


def extract():
    gmod = parse('cirbo/core/circuit/gate.py')
    bmod = parse('cirbo/core/parser/bench.py')
    reg = gate_registry(gmod)
    consts = {}
    for name, val in top_level_assigns(bmod).items():
        if name in ('VDD_NAME', 'BUFF_NAME'):
            if str_const(val) is None:
                fail(val, f'{name} must be a string literal')
            consts[name] = str_const(val)
    if set(consts) != {'VDD_NAME', 'BUFF_NAME'}:
        raise TranslatorError('VDD_NAME / BUFF_NAME not found in bench.py')
    check_add_gate(bmod)
    table = processings(bmod, reg, consts)
    lc = line_constants(bmod)
    fg = format_gate_def(gmod)
    return reg, consts, table, lc, fg


def translate():
    reg, consts, table, lc, fg = extract()
    b = lambda x: 'true' if x else 'false'
    out = ['(* GENERATED by translator/t7_bench.py from cirbo/core/parser/bench.py and',
           '   cirbo/core/circuit/gate.py. DO NOT EDIT. *)',
           'Require Import Cirbo.Model.Base Cirbo.Model.Gate Cirbo.Generated.GateTypes.', '',
           f'Definition VDD_NAME : string := {coq_string(consts["VDD_NAME"])}.',
           f'Definition BUFF_NAME : string := {coq_string(consts["BUFF_NAME"])}.', '',
           '(* a handler _process_x(self, out, a1..an[, *args]) = _add_gate(out, gate.T, a1..an[, *args]) *)',
           'Record handler : Type := mkHandler { htype : gtype; hnamed : nat; hvarargs : bool }.', '',
           '(* AbstractBenchParser._processings with the handlers of BenchToCircuit, in dict order *)',
           'Definition processings : list (string * handler) :=', '  [']
    rows = [f'   ({coq_string(k)}, mkHandler {t} {n} {b(v)})' for k, t, n, v in table]
    out.append(';\n'.join(rows))
    out += ['  ].', '',
            '(* _process_line / _process_input_gate / _process_output_gate / the vdd test *)',
            f'Definition comment_char : ascii := ascii_of_nat {ord(lc["comment"])}.',
            f'Definition input_kw : string := {coq_string(lc["in_kw"])}.',
            f'Definition output_kw : string := {coq_string(lc["out_kw"])}.',
            f'Definition input_eq_guard : bool := {b(lc["in_guard"])}.     (* `and \'=\' not in line` present *)',
            f'Definition output_eq_guard : bool := {b(lc["out_guard"])}.',
            f'Definition input_cut : nat := {lc["in_cut"][0]}.',
            f'Definition input_strip : list ascii := {coq_chars(lc["in_cut"][1])}.',
            f'Definition output_cut : nat := {lc["out_cut"][0]}.',
            f'Definition output_strip : list ascii := {coq_chars(lc["out_cut"][1])}.',
            f'Definition vdd_prefix_len : nat := {lc["vdd_len"]}.',
            f'Definition const_keeps_operands : bool := {b(lc["const_guard"])}.  (* `and _operands == [\'\']` present *)',
            '', '(* Gate.format_gate *)', fg, '']
    changed = write_if_changed('Generated/BenchDispatch.v', '\n'.join(out))
    return {'Generated/BenchDispatch.v': changed}


if __name__ == '__main__':
    print(translate())
