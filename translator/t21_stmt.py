"""T21 (part 4 of 4): statements and loops.  See translator/t21_subcircuit_alg.py for the grammar and the conventions."""
import ast

from .common import fail
from .t21_expr import known, unify
from .t21_types import (BOOL, ST, FUEL, GLABEL, INT, LABEL, NAT, TL, Val, Var, assigned_names, atom, base_name, coq_ty,
                        has_break, has_exit, has_return, ind, key_eqb, loaded_names, pty, terminates, tuple_code,
                        tuple_pat, tuple_ty, while_nodes)


class Flow:
    def __init__(self, fall, cont=None, brk=None, ret=None):
        self.fall, self.cont, self.brk, self.ret = fall, cont, brk, ret


class StmtMixin:
    # ------------------------------------------------------------ guards of observed defaultdicts
    @staticmethod
    def drop_guards(env, name):
        g = env.get('<guards>')
        if g is None:
            return
        keep = {(d, k) for d, k in g.code if d != name
                and name not in {n.id for n in ast.walk(ast.parse(k, mode='eval')) if isinstance(n, ast.Name)}}
        if keep != g.code:
            env['<guards>'] = Var(keep, None)

    @staticmethod
    def add_guard(env, d, key):
        g = env.get('<guards>')
        env['<guards>'] = Var((g.code if g else set()) | {(d, key)}, None)

    def rebind(self, env, name, var):
        env[name] = var
        self.drop_guards(env, name)

    def check_mutable(self, name, node):
        if name in self.root.frozen:
            fail(node, f'{name!r} is an alias of / aliased by another variable and may not be updated in place')

    # ------------------------------------------------------------ blocks
    def block(self, stmts, env, fl):
        if not stmts:
            return fl.fall(env)
        s, rest = stmts[0], stmts[1:]
        env = dict(env)

        def k(e):
            return self.block(rest, e, fl)
        if isinstance(s, ast.Pass):
            return k(env)
        if isinstance(s, ast.Expr) and isinstance(s.value, ast.Constant) and isinstance(s.value.value, str):
            return k(env)
        if isinstance(s, ast.Continue):
            if fl.cont is None:
                fail(s, 'continue outside grammar here')
            return fl.cont(env)
        if isinstance(s, ast.Break):
            if fl.brk is None:
                fail(s, 'break outside grammar here')
            return fl.brk(env)
        if isinstance(s, ast.Return):
            if fl.ret is None:
                fail(s, 'return outside grammar here')
            if s.value is None:
                return fl.ret(Val('tt', 'unit'), [])
            pre = []
            v = self.expr(s.value, env, pre)
            self.escape(s.value, s)
            return fl.ret(v, pre)
        if isinstance(s, (ast.Assign, ast.AnnAssign)):
            lines = self.assign(s, env)
        elif isinstance(s, ast.AugAssign):
            lines = self.augassign(s, env)
        elif isinstance(s, ast.Expr) and isinstance(s.value, ast.Call):
            lines = self.call_stmt(s.value, env)
        elif isinstance(s, ast.If):
            return self.if_(s, rest, env, fl)
        elif isinstance(s, ast.For):
            return self.for_(s, k, env, fl)
        elif isinstance(s, ast.While):
            return self.while_(s, k, env, fl)
        elif isinstance(s, ast.FunctionDef):
            self.closure(s, env)
            return k(env)
        else:
            fail(s, 'statement outside grammar')
        return '\n'.join(lines + [k(env)])

    # ------------------------------------------------------------ places (things that can be updated)
    def place(self, node, env, pre):
        """-> (type, code of the current value, function new-code -> lines that store it)"""
        if isinstance(node, ast.Name):
            if node.id not in env or env[node.id].fn is not None or env[node.id].ty == FUEL:
                fail(node, f'update of the unknown variable {node.id!r}')
            var = env[node.id]

            def write(new):
                self.rebind(env, node.id, Var(var.code, var.ty, observed=var.observed))
                return [f'let {var.code} := {new} in']
            return var.ty, var.code, write
        if isinstance(node, ast.Subscript) and not isinstance(node.slice, ast.Slice):
            cty, ccode, cwrite = self.place(node.value, env, pre)
            b = base_name(node)
            self.check_mutable(b, node)
            k = self.expr(node.slice, env, pre)
            if isinstance(cty, tuple) and cty[0] == 'list':
                if k.ty != NAT:
                    fail(node, 'index of an item store must be a non-negative int')

                def read():
                    return self.hoist(pre, f'py_index {atom(ccode)} {atom(k.code)}')

                def write(new):
                    t = self.fresh()
                    return [f'do {t} <- py_setitem {atom(ccode)} {atom(k.code)} {atom(new)};'] + cwrite(t)
                return cty[1], read, write
            if isinstance(cty, tuple) and cty[0] == 'dict':
                _, kty, vty, dflt = cty
                if not (kty == k.ty or {kty, k.ty} == {LABEL, GLABEL}):
                    fail(node, f'dict key of type {k.ty}, expected {kty}')

                def read():
                    return self.dict_read(node, Val(ccode, cty), k, env, pre).code

                def write(new):
                    if kty == LABEL:
                        return cwrite(f'dset {atom(ccode)} {atom(k.code)} {atom(new)}')
                    return cwrite(f'py_adict_set {key_eqb(kty, node)} {atom(ccode)} {atom(k.code)} {atom(new)}')
                return vty, read, write
        fail(node, 'update target outside grammar')

    @staticmethod
    def cur(code):
        return code() if callable(code) else code

    # ------------------------------------------------------------ simple statements
    def assign(self, s, env):
        if isinstance(s, ast.Assign):
            if len(s.targets) != 1:
                fail(s, 'multiple assignment targets')
            tgt, ann = s.targets[0], None
        else:
            if s.value is None:
                fail(s, 'declaration without value')
            tgt, ann = s.target, s.annotation
        pre = []
        if isinstance(tgt, ast.Name):
            aty = self.ann_type(ann, s) if ann is not None else None
            # a dict of gate states built from bool constants: the constants are states
            self.root.bools_are_states = (isinstance(aty, tuple) and aty[0] == 'dict' and aty[2] == ST
                                          and isinstance(s.value, ast.DictComp)
                                          and isinstance(s.value.value, ast.Constant))
            try:
                v = self.expr(s.value, env, pre)
            finally:
                self.root.bools_are_states = False
            ty = v.ty
            if ann is not None:
                ty = INT if (aty == NAT and v.ty == INT) else unify(aty, v.ty, s)
            if tgt.id in env:
                old = env[tgt.id]
                if old.fn is not None or old.ty == FUEL:
                    fail(s, f'{tgt.id!r} rebinds a function')
                ty = unify(old.ty, ty, s) if not (old.ty in (NAT, INT) and ty in (NAT, INT)) else ty
                if ty != old.ty and known(old.ty):
                    fail(s, f'{tgt.id!r} changes its type from {old.ty} to {ty}')
            if not known(ty):
                fail(s, f'the type of {tgt.id!r} is not determined (add an annotation)')
            self.alias_check(tgt.id, s.value, ty, s)
            code = self.vname(tgt, tgt.id)
            self.rebind(env, tgt.id, Var(code, ty, maxpat=v.maxpat, observed=tgt.id in self.root.observed))
            return pre + [f'let {code} := {v.code} in']
        if isinstance(tgt, ast.Subscript):
            v = self.expr(s.value, env, pre)
            ty, _, write = self.place(tgt, env, pre)
            if ty == ST and v.ty == BOOL:
                v = Val(f'(inj {atom(v.code)})', ST)
            unify(ty, v.ty, s)
            return pre + write(v.code)
        if isinstance(tgt, ast.Attribute) and isinstance(tgt.value, ast.Name) and tgt.value.id in env \
                and isinstance(env[tgt.value.id].ty, tuple) and env[tgt.value.id].ty[0] == 'obj':
            name = tgt.value.id
            if name not in self.root.obj_loop_vars:
                fail(s, 'attribute store outside grammar (only through the variable of a loop over a list of objects)')
            var = env[name]
            rec = self.u.records[var.ty[1]]
            if tgt.attr not in rec.fields:
                fail(s, f'unknown attribute {tgt.attr}')
            v = self.expr(s.value, env, pre)
            unify(rec.fields[tgt.attr], v.ty, s)
            self.rebind(env, name, Var(var.code, var.ty))
            return pre + [f'let {var.code} := {rec.setter(tgt.attr)} {var.code} {atom(v.code)} in']
        fail(s, 'assignment target outside grammar')

    def alias_check(self, name, value, ty, node):
        """`y = <expression that returns an existing object>` for a container type: neither side may be updated
        in place afterwards (the functional reading would lose the sharing)"""
        if not (isinstance(ty, tuple) and ty[0] in ('list', 'set', 'dict', 'obj')):
            return
        src = value
        fresh = isinstance(src, (ast.ListComp, ast.DictComp, ast.List, ast.BinOp)) or (
            isinstance(src, ast.Call) and not (isinstance(src.func, ast.Attribute) and src.func.attr in
                                               ('get_gate_users', 'get_gate', 'pop', 'popleft')))
        if fresh:
            return
        for n in sorted({name, src.id if isinstance(src, ast.Name) else None} - {None}):
            if n in self.root.mutated:
                fail(node, f'{n!r} is updated in place but shares its value with another variable')
            self.root.frozen.add(n)

    def augassign(self, s, env):
        pre = []
        e = self.expr(s.value, env, pre)
        ty, cur, write = self.place(s.target, env, pre)
        op = type(s.op)
        if ty == NAT and e.ty == NAT and op in (ast.Add, ast.RShift, ast.LShift, ast.BitAnd, ast.BitOr, ast.BitXor):
            f = {ast.Add: 'N.add', ast.RShift: 'N.shiftr', ast.LShift: 'N.shiftl', ast.BitAnd: 'N.land',
                 ast.BitOr: 'N.lor', ast.BitXor: 'N.lxor'}[op]
            c = self.cur(cur)
            return pre + write(f'{f} {atom(c)} {atom(e.code)}')
        if ty == INT and e.ty in (NAT, INT) and op in (ast.Add, ast.Sub):
            c = self.cur(cur)
            return pre + write(f'({c} {"+" if op is ast.Add else "-"} {self.as_Z(e)})%Z')
        fail(s, f'augmented assignment outside grammar on {ty} / {e.ty}')

    def call_stmt(self, call, env):
        f = call.func
        pre = []
        if isinstance(f, ast.Attribute) and isinstance(f.value, ast.Name) and f.value.id == 'logger' \
                and self.m.is_logger('logger') and f.attr in ('debug', 'info', 'warning', 'error'):
            # no effect on the translated state; the arguments must be harmless
            self.root.nostate += 1
            try:
                for a in call.args:
                    parts = a.values if isinstance(a, ast.JoinedStr) else [a]
                    for p in parts:
                        if isinstance(p, ast.FormattedValue):
                            if p.format_spec is not None or p.conversion != -1:
                                fail(call, 'format specification in a log message')
                            self.pure(p.value, env, 'a value in a log message')
                        elif not (isinstance(p, ast.Constant) and isinstance(p.value, str)):
                            fail(call, 'log message outside grammar')
            finally:
                self.root.nostate -= 1
            if call.keywords:
                fail(call, 'log call with keywords')
            return []
        if isinstance(f, ast.Attribute) and f.attr in ('append', 'add', 'update') and len(call.args) == 1 \
                and not call.keywords:
            v = self.expr(call.args[0], env, pre)
            b = base_name(f.value)
            if b is not None:
                self.check_mutable(b, call)
            ty, cur, write = self.place(f.value, env, pre)
            if f.attr == 'append' and isinstance(v.ty, tuple) and v.ty[0] in ('list', 'set', 'dict', 'obj'):
                self.escape(call.args[0], call)
            if f.attr == 'append' and isinstance(ty, tuple) and ty[0] == 'list':
                unify(ty[1], v.ty, call)
                return pre + write(f'{atom(self.cur(cur))} ++ [{v.code}]')
            if f.attr == 'add' and isinstance(ty, tuple) and ty[0] == 'set' and v.ty in (LABEL, GLABEL):
                return pre + write(f'py_set_add {atom(self.cur(cur))} {atom(v.code)}')
            if f.attr == 'update' and isinstance(ty, tuple) and ty[0] == 'set' and isinstance(v.ty, tuple) \
                    and v.ty[0] == 'set':
                return pre + write(f'py_set_update {atom(self.cur(cur))} {atom(v.code)}')
            fail(call, f'.{f.attr} on type {ty} outside grammar')
        if isinstance(f, ast.Attribute) and f.attr == 'sort' and isinstance(f.value, ast.Name) and not call.args \
                and len(call.keywords) == 1 and call.keywords[0].arg == 'key':
            self.check_mutable(f.value.id, call)
            ty, cur, write = self.place(f.value, env, pre)
            if not (isinstance(ty, tuple) and ty[0] == 'list'):
                fail(call, '.sort on something that is not a list')
            ks = self.lambda_keys(call.keywords[0].value, Val(cur, ty), env, pre)
            return pre + write(f'py_sort_keyed {atom(ks)} {cur}')
        fail(call, 'call statement outside grammar')

    # ------------------------------------------------------------ if
    def if_(self, s, rest, env, fl):
        pre = []
        c = self.expr(s.test, env, pre)
        cc = self.truthy(c, pre, s.test)
        env_t = dict(env)
        t = s.test
        if isinstance(t, ast.Compare) and len(t.ops) == 1 and isinstance(t.ops[0], ast.In) \
                and isinstance(t.comparators[0], ast.Name):
            self.add_guard(env_t, t.comparators[0].id, ast.unparse(t.left))
        if has_exit(s.body, fl.cont is not None or fl.brk is not None) \
                or has_exit(s.orelse, fl.cont is not None or fl.brk is not None):
            a = self.block(list(s.body) + ([] if terminates(s.body) else list(rest)), env_t, fl)
            b = self.block(list(s.orelse) + ([] if terminates(s.orelse) else list(rest)), env, fl)
            return '\n'.join(pre + [f'if {cc} then', ind(a), 'else', ind(b)])
        # no exit inside: join the branches on the variables they change
        asg = assigned_names(s.body) | assigned_names(s.orelse)
        both = assigned_names(s.body) & assigned_names(s.orelse)
        mods = [n for n in env if n in asg and not n.startswith('<')]
        new = sorted(n for n in both if n not in env and self.definitely_assigned(n, s.body)
                     and self.definitely_assigned(n, s.orelse) and n in loaded_names(rest))
        mods += new
        types = {}

        def join(e):
            for n in mods:
                if n not in e:
                    fail(s, f'{n!r} is not bound on every path')
                types[n] = unify(types.get(n), e[n].ty, s)
            return f'Ok {tuple_code([e[n].code for n in mods])}'
        a = self.block(s.body, env_t, Flow(join))
        b = self.block(s.orelse, env, Flow(join))
        env2 = dict(env)
        for n in mods:
            old = env.get(n)
            self.rebind(env2, n, Var(old.code if old else self.vname(s, n), types[n],
                                     observed=n in self.root.observed))
        pat = tuple_pat([env2[n].code for n in mods])
        head = pre + [f'do {pat.lstrip(chr(39))} <-', f'  (if {cc} then', ind(a, 4), '   else', ind(b, 4) + ');']
        return '\n'.join(head + [self.block(rest, env2, fl)])

    @staticmethod
    def definitely_assigned(name, stmts):
        for s in stmts:
            if isinstance(s, (ast.Assign, ast.AnnAssign)):
                tg = s.targets if isinstance(s, ast.Assign) else [s.target]
                if any(isinstance(t, ast.Name) and t.id == name for t in tg):
                    return True
        return False

    # ------------------------------------------------------------ loops
    def captures(self, stmts, extra_nodes, env, state):
        used = loaded_names(stmts)
        for n in extra_nodes:
            used |= {x.id for x in ast.walk(n) if isinstance(x, ast.Name)}
        fuels = {self.root.fuel_of[id(w)] for w in while_nodes(stmts)}
        # a call of a closure needs the variables the closure captures
        more = True
        while more:
            more = False
            for n in list(used):
                if n in env and env[n].fn is not None:
                    for c in env[n].fn.captures:
                        if c not in used:
                            used.add(c)
                            more = True
        caps = [n for n in env if n not in state and env[n].fn is None
                and ((not n.startswith('<') and n in used) or (env[n].ty == FUEL and env[n].code in fuels))]
        return caps

    def binders(self, names, env):
        return ''.join(f' ({env[n].code} : {coq_ty(env[n].ty)})' for n in names)

    def loop_name(self, kind):
        self.root.loopno += 1
        return f'{self.root.coqname}_{kind}{self.root.loopno}'

    def for_(self, s, k, env, fl):
        if s.orelse:
            fail(s, 'for-else')
        name = self.loop_name('for')
        pre = []
        it = self.iterable(s.iter, env, pre)
        ety = it.ty[1]
        if not known(ety):
            fail(s, 'element type of the loop is not determined')
        asg = assigned_names(s.body)
        targets = {n.id for n in ast.walk(s.target) if isinstance(n, ast.Name)}
        for tname in targets:
            if tname in env and tname != '_':
                fail(s, f'the loop variable {tname!r} shadows a variable')
        # the iterated list may only be changed at the position the iteration has passed
        self.check_iterated(s, asg)
        # a loop over a list of objects whose body stores attributes of the loop variable rebuilds the list
        obj_loop = None
        if isinstance(s.target, ast.Name) and isinstance(ety, tuple) and ety[0] == 'obj' and any(
                isinstance(n, ast.Attribute) and isinstance(n.ctx, ast.Store) and isinstance(n.value, ast.Name)
                and n.value.id == s.target.id for st in s.body for n in ast.walk(st)):
            if not isinstance(s.iter, ast.Name) or has_exit(s.body):
                fail(s, 'a loop that updates the objects of a list must run over a variable, without break / return')
            obj_loop = s.iter.id
            asg = asg - {s.target.id}
            if any(isinstance(n, ast.Name) and isinstance(n.ctx, ast.Store) and n.id == s.target.id
                   for st in s.body for n in ast.walk(st)) or s.iter.id in asg:
                fail(s, 'the loop variable / the list of objects is rebound in the loop body')
        if targets & asg:
            fail(s, 'the loop variable is rebound in the loop body')
        state = [n for n in env if n in asg and not n.startswith('<') and env[n].fn is None]
        for n in state:
            if env[n].ty == FUEL:
                fail(s, 'reserved name')
        caps = self.captures(s.body, [], env, state)
        benv = dict(env)
        for n in state:
            self.rebind(benv, n, Var(env[n].code, env[n].ty, observed=env[n].observed))
        pat_x = self.target_pat(s.target, ety, benv, s)
        if obj_loop is not None:
            self.root.obj_loop_vars.add(s.target.id)
        sty = tuple_ty([env[n].ty for n in state])
        acc = 'objs_acc'
        ret_loop = has_return(s.body)
        brk_loop = has_break(s.body)

        def st_code(e):
            codes = [e[n].code for n in state]
            if obj_loop is not None:
                codes = [f'{acc} ++ [{e[s.target.id].code}]'] + codes
            return atom(tuple_code(codes))
        if obj_loop is not None:
            sty = f'{pty(TL(ety))}' + (f' * {sty}' if state else '')
        if ret_loop:
            rty = self.root.ret_ty
            rescode = f'res (ctl ({sty}) {pty(rty)})'
            bfl = Flow(lambda e: f'Ok (LContinue {st_code(e)})', lambda e: f'Ok (LContinue {st_code(e)})',
                       lambda e: f'Ok (LBreak {st_code(e)})',
                       lambda v, p: '\n'.join(p + [f'Ok (LReturn {atom(v.code)})']))
            comb = 'loopM'
        elif brk_loop:
            rescode = f'res (bool * ({sty}))'
            bfl = Flow(lambda e: f'Ok (false, {st_code(e)})', lambda e: f'Ok (false, {st_code(e)})',
                       lambda e: f'Ok (true, {st_code(e)})', None)
            comb = 'loopB'
        else:
            rescode = f'res ({sty})'
            bfl = Flow(lambda e: f'Ok {st_code(e)}', lambda e: f'Ok {st_code(e)}', None, None)
            comb = 'foldM'
        body = self.block(s.body, benv, bfl)
        st_pat = tuple_pat(([acc] if obj_loop is not None else []) + [env[n].code for n in state])
        xpat = pat_x if not pat_x.startswith("'") else pat_x
        text = (f'Definition {name}{self.binders(caps, env)} (acc0 : {sty}) (x : {coq_ty(ety)}) : {rescode} :=\n'
                f'  let {st_pat} := acc0 in\n  let {xpat} := x in\n{ind(body)}.')
        self.root.defs.append(text)
        call = f'{name}' + ''.join(f' {env[n].code}' for n in caps)
        init = tuple_code((['[]'] if obj_loop is not None else []) + [env[n].code for n in state])
        env2 = dict(env)
        for n in state:
            self.rebind(env2, n, Var(env[n].code, env[n].ty, observed=env[n].observed))
        after_names = [env[n].code for n in state]
        if obj_loop is not None:
            after_names = [env[obj_loop].code] + after_names
            self.rebind(env2, obj_loop, Var(env[obj_loop].code, env[obj_loop].ty))
        apat = tuple_pat(after_names)
        if ret_loop:
            r = self.fresh()
            if fl.ret is None:
                fail(s, 'return inside a loop outside grammar here')
            v = self.fresh()
            return '\n'.join(pre + [f'do {r} <- {comb} ({call}) {atom(it.code)} {init};',
                                    f'match {r} with',
                                    f'| inr {v} =>', ind(fl.ret(Val(v, self.root.ret_ty), []), 4),
                                    f'| inl acc0 =>', f'    let {apat} := acc0 in', ind(k(env2), 4), 'end'])
        return '\n'.join(pre + [f'do {apat.lstrip(chr(39))} <- {comb} ({call}) {atom(it.code)} {init};', k(env2)])

    def check_iterated(self, s, asg):
        b = s.iter
        while isinstance(b, ast.Call) and isinstance(b.func, ast.Name) and b.func.id in ('enumerate', 'list', 'tuple') \
                and len(b.args) == 1:
            b = b.args[0]
        if not isinstance(b, ast.Name):
            b2 = base_name(b) if isinstance(b, (ast.Subscript, ast.Attribute)) else None
            if b2 is not None and b2 in asg:
                fail(s, f'the loop body changes {b2!r}, which the loop iterates over')
            return
        if b.id not in asg:
            return
        # allowed: `for j, x in enumerate(l): ... l[j] <op>= e ...` (the iterator has passed position j)
        idx = None
        if isinstance(s.iter, ast.Call) and isinstance(s.iter.func, ast.Name) and s.iter.func.id == 'enumerate' \
                and isinstance(s.target, ast.Tuple) and isinstance(s.target.elts[0], ast.Name):
            idx = s.target.elts[0].id
        for st in s.body:
            for n in ast.walk(st):
                tgt = None
                if isinstance(n, (ast.Subscript, ast.Attribute)) and isinstance(n.ctx, ast.Store):
                    tgt = n
                elif isinstance(n, ast.Name) and isinstance(n.ctx, ast.Store) and n.id == b.id:
                    fail(s, f'the loop body rebinds {b.id!r}, which the loop iterates over')
                elif isinstance(n, ast.Call) and isinstance(n.func, ast.Attribute) and base_name(n.func.value) == b.id \
                        and n.func.attr in ('append', 'add', 'update', 'pop', 'popleft', 'sort'):
                    fail(s, f'the loop body changes the length / order of {b.id!r}, which the loop iterates over')
                if tgt is not None and base_name(tgt) == b.id:
                    ok = (isinstance(tgt, ast.Subscript) and isinstance(tgt.value, ast.Name)
                          and isinstance(tgt.slice, ast.Name) and tgt.slice.id == idx)
                    if not ok:
                        fail(s, f'the loop body changes {b.id!r}, which the loop iterates over, at another position')

    def while_(self, s, k, env, fl):
        if s.orelse or has_exit(s.body):
            fail(s, 'while with else / break / continue / return')
        name = self.loop_name('while')
        fuel = self.root.fuel_of[id(s)]
        asg = assigned_names(s.body) | assigned_names([ast.Expr(s.test)])
        state = [n for n in env if n in asg and not n.startswith('<') and env[n].fn is None]
        caps = [c for c in self.captures(s.body, [s.test], env, state) if c != fuel]
        sty = tuple_ty([env[n].ty for n in state])
        benv = dict(env)
        for n in state:
            self.rebind(benv, n, Var(env[n].code, env[n].ty, observed=env[n].observed))
        pre = []
        c = self.expr(s.test, benv, pre)
        cc = self.truthy(c, pre, s.test)
        capcall = ''.join(f' {env[n].code}' for n in caps)

        def again(e):
            return f'{name} fuel{capcall} {tuple_code([e[n].code for n in state])}'
        body = self.block(s.body, benv, Flow(again))
        st_pat = tuple_pat([env[n].code for n in state])
        inner = '\n'.join(pre + [f'if {cc} then', ind(body), 'else Ok acc0'])
        text = (f'Fixpoint {name} (fuel : nat){self.binders(caps, env)} (acc0 : {sty}) {{struct fuel}} : res ({sty}) :=\n'
                f'  match fuel with\n  | O => Err OutOfFuel\n  | S fuel =>\n    let {st_pat} := acc0 in\n{ind(inner, 4)}\n  end.')
        self.root.defs.append(text)
        env2 = dict(env)
        for n in state:
            self.rebind(env2, n, Var(env[n].code, env[n].ty, observed=env[n].observed))
        init = tuple_code([env[n].code for n in state])
        return '\n'.join([f'do {st_pat.lstrip(chr(39))} <- {name} {fuel}{capcall} {init};', k(env2)])
