"""T13: the ALGORITHM of cirbo/sat/cnf/tseytin.py (function tseytin_transformation and its nested closures)
-> Generated/TseytinAlgGen.v

T2 (translator/t2_tseytin.py) regenerates the per-gate-type clause templates `_process_*` and the dispatch dict
(`template_of`).  T13 regenerates what calls them: `tseytin_transformation(circuit, outputs)` with its closures
(`__register_new_gate`, `get_lit`, `process_gate` in the current source), statement by statement, over the state the
hand model Model/TseytinAlg.v threads (record `tstate`: saved / next_lit / clauses).  Proofs/TseytinAlgGen.v proves
the generated `gen_tseytin_transformation` equal to the hand model `tseytin_fuel` (and so `tseytin`), for ALL
arguments.  Anything outside the grammar raises TranslatorError (the check fails closed).

What is emitted
  - every nested `def` of the function becomes a Gallina function
        gen_<name> [fuel] [<captured parameters of the outer function>] (st : tstate) <its parameters>
              : res (tstate * <type of the returned value>)
    (`st` in, new `st` out: the closure variables live in `st`); a closure that calls itself is a `Fixpoint` on
    `fuel` (Err OutOfFuel at 0, every call in its body - the recursive ones included - gets the predecessor: fuel =
    bound on the recursion DEPTH, as in the hand model); a closure that calls a fuelled closure passes its own fuel on;
  - the function itself becomes
        gen_tseytin_transformation (fuel : nat) <parameters> : res (tstate * list (list Z))
    returning the final closure state and the raw clause list of the returned Cnf object;
  - Circuit methods / properties the source calls (get_gate, output_at_index, inputs, output_size ...) are the
    functions regenerated from circuit.py by T9 (Generated/CircuitCore.v): their signatures (pure? may raise? types)
    are taken from the T9 / T10 translation units, not assumed.  A property that T9 does not emit (output_size) is
    translated by the T10 machinery and emitted here.
  - `<dispatch dict>[<gate type>](<cnf>, <int>, <list of ints>)` is `template_of` of Generated/Tseytin.v (T2: a template
    returns the clauses the Python function appends to its first argument, in order).

Grammar.  Module level of tseytin.py (closed world: anything else is refused): docstring, import / from-import,
`__all__ = [...]`, plain `def`s; common.guard_module on top (no name bound twice, no decorators).

  outer function   def tseytin_transformation(<p>: Circuit, <q>: tp.Optional[list[int]] = None) -> Cnf
                   (parameter names are free; the types are fixed by the annotations)
  closure state    exactly three variables of the outer function, recognised by the FORM of their binding (the names
                   are free), each bound exactly once, as a top-level statement of the outer function:
                     <n> = <int literal>            and `nonlocal <n>` in some closure       -> next_lit st
                     <d>[: T] = collections.defaultdict(<closure without parameters returning an int>)
                                                                                               -> saved st
                     <f>: CnfRaw = []               (annotation resolved through cnf.py)     -> clauses st
                   A use before the binding statement has run (directly or through a closure call) is refused.
  dispatch dict    `_operations[: T] = {<GateType>: <_process_*>, ...}`: all 19 gate types exactly once, values are
                   module-level functions; it may only be used as `_operations[<gtype>](<f>, <int>, <ints>)`.
  closures         top-level `def`s of the outer function, annotated parameters (str / int / Lit / bool), no
                   defaults; they may mention: their parameters and locals, the closure state, parameters of the outer
                   function that are never rebound, the dispatch dict, closures defined earlier, themselves.
                   A local of a closure may not shadow any name of the outer function.
  <stmt> ::= pass | nonlocal <n> | <docstring>
           | <x>[: T] = <expr> | <x>: list[int] = [] | <x>, <y> = <expr>, <expr> | <n> += <int> | <n> -= <int>
           | <d>[<label>] = <int>                                            (store into the defaultdict)
           | <f>.append(<ints>) | <fresh local list>.append(<elem>)
           | <dispatch>[<gtype>](<f>, <int>, <ints>)
           | <closure>(args) | <circuit>.<pure method>(args)                 (value discarded)
           | if <cond>: <stmts> [elif ...] [else: <stmts>]     cond may be `<optional> is [not] None` (narrowing)
           | for <x> in <list>: <stmts>                        -> foldM carrying st and the assigned outer locals;
                                                                  no break / continue / return / else
           | return [<expr>]          (outer function: exactly `return Cnf(<f>)`)
  <expr> ::= names, int / bool literals, - e, not e, e + e, e - e, e * e (ints; lengths are converted), l + l,
             comparisons (== != < <= > >= on ints, == != on labels / gate types / bools), `in` / `not in` (label in
             label list, int in int list, label in <d>), and / or (short circuit kept), a if c else b,
             <d>[<label>]  (defaultdict read: defaultdict_getitem, runs the factory on a missing key),
             l[<int literal >= 0>] on an int list (py_index: Err PyIndexError), l[<int>] on a label list (list_index),
             l[::-1], reversed(l), len(l), list(l), range(n), list(range(n)),
             [a, ...], [e for x in l [if c]]  (map; mapS when e acts on the state or may raise),
             <gate>.operands / .gate_type, <circuit>.inputs / .outputs / <property> / <pure method>(args),
             <closure>(args).

Evaluation order is kept: every sub-expression that acts on the state or may raise is bound (`do`) in Python's
order, and a READ of the closure state is bound to a temporary at the point where Python evaluates it.

Aliasing discipline: only a list that nobody else holds (a display / comprehension / list(...) bound to a local) may
be appended to; it stops being appendable once a list-valued expression that mentions it has been stored into the
clause list, passed to a template, or bound to a name.  Closures take no list parameters.  Parameters are never mutated.
"""
import ast

from .common import TranslatorError, fail, parse, strip_docstring, top_level_assigns, top_level_functions, write_if_changed
from . import t9_circuit_core as t9
from . import t10_circuit_algos as t10
from .t2_tseytin import GTYPES

TSEYTIN_PY = 'cirbo/sat/cnf/tseytin.py'
CNF_PY = 'cirbo/sat/cnf/cnf.py'
CIRCUIT_INIT = 'cirbo/core/circuit/__init__.py'
MAIN = 'tseytin_transformation'
DISPATCH_NAME = '_operations'        # the name T2 reads template_of from
OUT = 'Generated/TseytinAlgGen.v'

COQ_TY = {'circuit': 'circuit', 'label': 'label', 'int': 'Z', 'nat': 'nat', 'bool': 'bool', 'ilist': 'list Z',
          'labels': 'list label', 'optilist': 'option (list Z)', 'gate': 'gate', 'gtype': 'gtype',
          'cnf': 'list (list Z)', 'unit': 'unit'}
ELEM = {'ilist': 'int', 'labels': 'label', 'cnf': 'ilist'}
LIST_OF = {v: k for k, v in ELEM.items()}
# closure state: role -> (projection, setter)
ROLES = {'counter': ('next_lit', 'set_next_lit'), 'memo': ('saved', 'set_saved'), 'cnf': ('clauses', 'set_clauses')}
# names of builtins / modules the grammar gives a meaning to: never usable as a local
RESERVED_PY = {'len', 'list', 'range', 'reversed', 'collections', 'Cnf', 'Circuit', 'True', 'False', 'None',
               'tp', 'typing', 'itertools', DISPATCH_NAME} | set(GTYPES)

PRELUDE = '''(* GENERATED by translator/t13_tseytin_alg.py from cirbo/sat/cnf/tseytin.py (function tseytin_transformation and its
   closures).  DO NOT EDIT.  Proofs/TseytinAlgGen.v proves gen_tseytin_transformation equal to the hand model
   Model/TseytinAlg.v (tseytin_fuel / tseytin).

   Conventions (see the header of translator/t13_tseytin_alg.py):
   - the closure variables of the Python function live in `st : tstate` (Model/TseytinAlg.v: saved / next_lit / clauses);
     every closure takes st and returns the new st paired with its value;
   - a closure that calls itself is a Fixpoint on `fuel` (a bound on the recursion depth);
   - Circuit methods are the functions of Generated/CircuitCore.v (regenerated from circuit.py by T9);
   - `<dispatch dict>[t](cnf, top, lits)` is template_of of Generated/Tseytin.v (regenerated by T2). *)

Require Import Cirbo.Model.Base Cirbo.Model.Gate Cirbo.Model.Circuit Cirbo.Model.Cnf Cirbo.Model.TseytinAlg.
Require Import Cirbo.Generated.CircuitCore Cirbo.Generated.Tseytin.
%(extra_imports)sLocal Open Scope Z_scope.

(* fixed prelude (not derived from the source): the three assignable closure variables, and
   collections.defaultdict.__getitem__ (a missing key: call the factory, THEN store its value under the key) *)
Definition set_saved (st : tstate) (d : dict Z) : tstate := mkT d (next_lit st) (clauses st).
Definition set_next_lit (st : tstate) (n : Z) : tstate := mkT (saved st) n (clauses st).
Definition set_clauses (st : tstate) (f : list (list Z)) : tstate := mkT (saved st) (next_lit st) f.
Definition defaultdict_getitem (factory : tstate -> res (tstate * Z)) (st : tstate) (k : label) : res (tstate * Z) :=
  match dget (saved st) k with
  | Some v => Ok (st, v)
  | None => do (st, v) <- factory st; Ok (set_saved st (dset (saved st) k v), v)
  end.
'''

def znum(n):
    return f'{n}' if n >= 0 else f'({n})'

class V:
    """the value of an expression: Coq code (atomic or parenthesised), type, and whether it is a fresh list"""

    def __init__(self, code, ty, fresh=False):
        self.code, self.ty, self.fresh = code, ty, fresh

class Var:
    """kind: param | local | state | closure | dispatch"""

    def __init__(self, code, ty, kind, appendable=False, role=None, clo=None, optional_of=None):
        self.code, self.ty, self.kind, self.appendable, self.role, self.clo = code, ty, kind, appendable, role, clo

    def frozen(self):
        return Var(self.code, self.ty, self.kind, False, self.role, self.clo)

class Closure:
    def __init__(self, name, node):
        self.name, self.node = name, node
        self.coqname = 'gen_' + name
        self.params = []            # (python name, type)
        self.ret_ty = None
        self.captures = []          # parameters of the outer function, in its parameter order
        self.fuelled = False
        self.recursive = False
        self.needs = set()          # roles of the closure state it touches (transitively)
        self.text = ''

def names_stored(nodes):
    """names bound by assignment / loop / comprehension / nested def inside the statements (nested defs not entered)"""
    out = []

    def add(n):
        if n not in out:
            out.append(n)

    def walk(node):
        if isinstance(node, (ast.FunctionDef, ast.AsyncFunctionDef, ast.ClassDef, ast.Lambda)):
            if hasattr(node, 'name'):
                add(node.name)
            return
        if isinstance(node, ast.Name) and isinstance(node.ctx, (ast.Store, ast.Del)):
            add(node.id)
        for c in ast.iter_child_nodes(node):
            walk(c)
    for n in nodes:
        walk(n)
    return out

def own_nodes(fn):
    """every node of the body of fn that is not inside a nested def"""
    out = []

    def walk(node):
        out.append(node)
        if isinstance(node, (ast.FunctionDef, ast.AsyncFunctionDef, ast.ClassDef, ast.Lambda)):
            return
        for c in ast.iter_child_nodes(node):
            walk(c)
    for s in fn.body:
        walk(s)
    return out

class Translator:
    FORBIDDEN = (ast.Yield, ast.YieldFrom, ast.Await, ast.Try, ast.With, ast.While, ast.Global, ast.Lambda,
                 ast.NamedExpr, ast.Starred, ast.ClassDef, ast.AsyncFunctionDef, ast.AsyncFor, ast.AsyncWith,
                 ast.Delete, ast.Import, ast.ImportFrom, ast.Break, ast.Continue, ast.Raise, ast.Assert,
                 ast.DictComp, ast.SetComp, ast.GeneratorExp, ast.JoinedStr, ast.Set)

    def __init__(self):
        self.mod = parse(TSEYTIN_PY)
        self.funcs = top_level_functions(self.mod)          # guard_module
        self.check_module()
        self.unit = CircuitUnit()
        self.main = self.funcs.get(MAIN)
        if self.main is None:
            raise TranslatorError(f'{MAIN} not found')
        self.closures = {}          # name -> Closure (filled in source order)
        self.local_fns = []         # T9/T10 Fn objects emitted in this file
        self.extra_imports = []
        self.tmp = 0
        self.cur = None             # Closure being translated | None (outer function)
        self.loop_depth = 0
        self.inited = set()         # roles bound so far (outer function only)
    # ------------------------------------------------------------------ module-level facts

    def check_module(self):
        imp = t9.Unit.collect_imports(self.mod)
        for st in self.mod.body:
            if isinstance(st, (ast.Import, ast.ImportFrom, ast.FunctionDef)):
                continue
            if isinstance(st, ast.Expr) and isinstance(st.value, ast.Constant) and isinstance(st.value.value, str):
                continue
            if isinstance(st, ast.Assign) and len(st.targets) == 1 and isinstance(st.targets[0], ast.Name) \
                    and st.targets[0].id == '__all__' and isinstance(st.value, (ast.List, ast.Tuple)) \
                    and all(isinstance(e, ast.Constant) and isinstance(e.value, str) for e in st.value.elts):
                continue
            fail(st, 'module-level statement of tseytin.py outside the closed world '
                     '(docstring / import / __all__ / def)')
        for st in self.mod.body:
            if isinstance(st, ast.ImportFrom) and (st.level or any(a.name == '*' for a in st.names)):
                fail(st, 'relative or star import')
        want = {'collections': ('collections', None), 'Circuit': ('cirbo.core.circuit', 'Circuit'),
                'Cnf': ('cirbo.sat.cnf.cnf', 'Cnf')}
        for g in GTYPES:
            want[g] = ('cirbo.core.circuit', g)
        for n, w in want.items():
            if imp.get(n) != w:
                raise TranslatorError(f'tseytin.py: the name {n!r} must be bound once, by the import of {w}; found {imp.get(n)}')
        self.imports = imp
        ci = t9.Unit.collect_imports(parse(CIRCUIT_INIT))
        if ci.get('Circuit') != ('cirbo.core.circuit.circuit', 'Circuit'):
            raise TranslatorError('cirbo/core/circuit/__init__.py: Circuit must come from circuit.py')
        for g in GTYPES:
            if ci.get(g) != ('cirbo.core.circuit.gate', g):
                raise TranslatorError(f'cirbo/core/circuit/__init__.py: {g} must come from gate.py')
        # cnf.py: the type aliases and the constructor of Cnf
        cmod = parse(CNF_PY)
        top_level_functions(cmod)       # guard_module
        self.cnf_aliases = {}
        assigns = top_level_assigns(cmod)
        cimp = t9.Unit.collect_imports(cmod)
        for n in ('Lit', 'Clause', 'CnfRaw'):
            if cimp.get(n) != ('<assign>', n) or n not in assigns:
                raise TranslatorError(f'cnf.py: {n} must be a module-level alias bound once')
            self.cnf_aliases[n] = assigns[n]
        classes = [n for n in cmod.body if isinstance(n, ast.ClassDef) and n.name == 'Cnf']
        if len(classes) != 1 or cimp.get('Cnf') != ('<local>', 'Cnf') or classes[0].decorator_list \
                or classes[0].bases or classes[0].keywords:
            raise TranslatorError('cnf.py: class Cnf must be a single plain class definition')
        self.check_cnf_class(classes[0])

    @staticmethod
    def check_cnf_class(cls):
        """Cnf(x) for a list x keeps x itself as the raw clause list, and get_raw returns it"""
        meths = {}
        for n in cls.body:
            if isinstance(n, ast.FunctionDef):
                if n.name in meths:
                    fail(n, f'Cnf.{n.name} defined twice')
                meths[n.name] = n
            elif isinstance(n, ast.Expr) and isinstance(n.value, ast.Constant):
                continue
            else:
                fail(n, 'statement in class Cnf outside grammar')
        init = meths.get('__init__')
        if init is None or init.decorator_list:
            raise TranslatorError('Cnf.__init__ not found')
        a = init.args
        if a.posonlyargs or a.kwonlyargs or a.vararg or a.kwarg or len(a.args) != 2:
            fail(init, 'Cnf.__init__ signature must be (self, cnf=None)')
        s, p = a.args[0].arg, a.args[1].arg
        body = strip_docstring(init.body)
        want = (f"If(test=Compare(left=Name(id='{p}', ctx=Load()), ops=[Is()], comparators=[Constant(value=None)]), "
                f"body=[Assign(targets=[Attribute(value=Name(id='{s}', ctx=Load()), attr='_cnf', ctx=Store())], "
                f"value=List(elts=[], ctx=Load()))], "
                f"orelse=[Assign(targets=[Attribute(value=Name(id='{s}', ctx=Load()), attr='_cnf', ctx=Store())], "
                f"value=Name(id='{p}', ctx=Load()))])")
        if len(body) != 1 or ast.dump(body[0]) != want:
            fail(init, 'Cnf.__init__ must be `if cnf is None: self._cnf = [] else: self._cnf = cnf`')
        gr = meths.get('get_raw')
        if gr is None or gr.decorator_list or len(gr.args.args) != 1:
            raise TranslatorError('Cnf.get_raw not found')
        body = strip_docstring(gr.body)
        s = gr.args.args[0].arg
        if len(body) != 1 or ast.dump(body[0]) != \
                f"Return(value=Attribute(value=Name(id='{s}', ctx=Load()), attr='_cnf', ctx=Load()))":
            fail(gr, 'Cnf.get_raw must be `return self._cnf`')

    def ann_type(self, node, depth=0):
        """type of an annotation | None"""
        if node is None or depth > 6:
            return None
        if isinstance(node, ast.Constant) and isinstance(node.value, str):
            try:
                return self.ann_type(ast.parse(node.value, mode='eval').body, depth + 1)
            except SyntaxError:
                return None
        if isinstance(node, ast.Name):
            if node.id == 'str':
                return 'label'
            if node.id in ('int', 'bool'):
                return node.id
            if node.id == 'Circuit':
                return 'circuit'
            if node.id == 'Cnf':
                return 'cnfobj'
            if node.id in self.cnf_aliases and self.imports.get(node.id) == ('cirbo.sat.cnf.cnf', node.id):
                return self.ann_type(self.cnf_aliases[node.id], depth + 1)
            # inside cnf.py the aliases refer to each other
            if depth > 0 and node.id in self.cnf_aliases:
                return self.ann_type(self.cnf_aliases[node.id], depth + 1)
            return None
        if isinstance(node, ast.Subscript):
            head = ast.unparse(node.value)
            if head in ('list', 'tp.List', 'typing.List', 'tp.Sequence', 'typing.Sequence'):
                inner = self.ann_type(node.slice, depth + 1)
                return LIST_OF.get(inner)
            if head in ('tp.Optional', 'typing.Optional'):
                inner = self.ann_type(node.slice, depth + 1)
                return 'optilist' if inner == 'ilist' else None
        return None
    # ------------------------------------------------------------------ small helpers

    def fresh(self):
        self.tmp += 1
        return f't{self.tmp}'

    @staticmethod
    def vname(node, name):
        if not (name.isascii() and name.isidentifier()):
            fail(node, f'name {name!r} not usable in the generated file')
        if name in RESERVED_PY:
            fail(node, f'local binding of {name!r}, a name the grammar gives a fixed meaning to')
        return 'v_' + name

    def touch(self, node, role):
        """the closure variable of this role is read or written here"""
        if self.cur is not None:
            self.cur.needs.add(role)
        elif role not in self.inited:
            fail(node, f'closure variable ({ROLES[role][0]}) used before its binding statement')

    def touch_all(self, node, roles):
        for r in sorted(roles):
            self.touch(node, r)

    @staticmethod
    def as_int(v, node):
        if v.ty == 'int':
            return v.code
        if v.ty == 'nat':
            return f'(Z.of_nat {v.code})'
        fail(node, f'expected an int, found {v.ty}')

    def typed(self, node, env, pre, want):
        v = self.expr(node, env, pre)
        if want == 'int' and v.ty == 'nat':
            return V(self.as_int(v, node), 'int')
        if v.ty != want:
            fail(node, f'expected {want}, found {v.ty}')
        return v
    # ------------------------------------------------------------------ expressions

    def expr(self, node, env, pre):
        """-> V.  `pre`: list of lines; bindings of everything that acts on the state / may raise / reads the state,
        appended in Python's evaluation order"""
        if isinstance(node, self.FORBIDDEN):
            fail(node, 'construct outside grammar')
        if isinstance(node, ast.Name):
            if node.id not in env:
                fail(node, 'unknown name')
            var = env[node.id]
            if var.kind in ('param', 'local'):
                if var.ty in ('none',):
                    fail(node, 'value is None here')
                return V(var.code, var.ty)
            if var.kind == 'state' and var.role == 'counter':
                self.touch(node, 'counter')
                t = self.fresh()
                pre.append(f'let {t} := next_lit st in')
                return V(t, 'int')
            fail(node, f'{node.id} ({var.kind}) cannot be used as a value here')
        if isinstance(node, ast.Constant):
            if type(node.value) is bool:
                return V('true' if node.value else 'false', 'bool')
            if type(node.value) is int:
                return V(znum(node.value), 'int')
            fail(node, 'constant outside grammar')
        if isinstance(node, ast.UnaryOp):
            if isinstance(node.op, ast.USub):
                if isinstance(node.operand, ast.Constant) and type(node.operand.value) is int:
                    return V(znum(-node.operand.value), 'int')
                e = self.typed(node.operand, env, pre, 'int')
                return V(f'(- {e.code})', 'int')
            if isinstance(node.op, ast.Not):
                e = self.typed(node.operand, env, pre, 'bool')
                return V(f'(negb {e.code})', 'bool')
            fail(node, 'unary operator outside grammar')
        if isinstance(node, ast.BinOp):
            l = self.expr(node.left, env, pre)
            r = self.expr(node.right, env, pre)
            if isinstance(node.op, ast.Add) and l.ty == r.ty and l.ty in ELEM:
                return V(f'({l.code} ++ {r.code})', l.ty, True)
            ops = {ast.Add: '+', ast.Sub: '-', ast.Mult: '*'}
            if type(node.op) in ops:
                return V(f'({self.as_int(l, node.left)} {ops[type(node.op)]} {self.as_int(r, node.right)})', 'int')
            fail(node, 'binary operator outside grammar')
        if isinstance(node, ast.BoolOp):
            # short circuit: a later operand that reads the state, acts on it or may raise is evaluated only when
            # the operands before it do not decide the result
            is_and = isinstance(node.op, ast.And)
            acc = None
            for e in node.values:
                sub = []
                v = self.typed(e, env, sub, 'bool')
                if acc is None:
                    pre += sub
                    acc = v.code
                elif not sub:
                    acc = f'({acc} && {v.code})' if is_and else f'({acc} || {v.code})'
                else:
                    t = self.fresh()
                    if is_and:
                        pre.append(f'do (st, {t}) <- (if {acc} then')
                        pre += ['    ' + x for x in sub + [f'Ok (st, {v.code})']]
                        pre.append('  else Ok (st, false));')
                    else:
                        pre.append(f'do (st, {t}) <- (if {acc} then Ok (st, true) else')
                        pre += ['    ' + x for x in sub + [f'Ok (st, {v.code}));']]
                    acc = t
            return V(acc, 'bool')
        if isinstance(node, ast.Compare):
            return self.compare(node, env, pre)
        if isinstance(node, ast.IfExp):
            c = self.typed(node.test, env, pre, 'bool')
            pa, pb = [], []
            a = self.expr(node.body, env, pa)
            b = self.expr(node.orelse, env, pb)
            if a.ty != b.ty:
                if {a.ty, b.ty} == {'int', 'nat'}:
                    a, b = V(self.as_int(a, node), 'int'), V(self.as_int(b, node), 'int')
                else:
                    fail(node, f'branches of a conditional expression have types {a.ty} / {b.ty}')
            if not pa and not pb:
                return V(f'(if {c.code} then {a.code} else {b.code})', a.ty, a.fresh and b.fresh)
            t = self.fresh()
            pre.append(f'do (st, {t}) <- (if {c.code} then')
            pre += ['    ' + x for x in pa + [f'Ok (st, {a.code})']]
            pre.append('  else')
            pre += ['    ' + x for x in pb + [f'Ok (st, {b.code}));']]
            return V(t, a.ty, a.fresh and b.fresh)
        if isinstance(node, ast.Subscript):
            return self.subscript(node, env, pre)
        if isinstance(node, ast.Attribute):
            return self.attribute(node, env, pre)
        if isinstance(node, ast.Call):
            return self.call(node, env, pre)
        if isinstance(node, ast.List):
            if not node.elts:
                fail(node, 'empty list display (its type is known only in `<name>: CnfRaw = []`)')
            vals = [self.expr(e, env, pre) for e in node.elts]
            if all(v.ty in ('int', 'nat') for v in vals):
                return V('[' + '; '.join(self.as_int(v, node) for v in vals) + ']', 'ilist', True)
            ty = vals[0].ty
            if any(v.ty != ty for v in vals) or ty not in LIST_OF:
                fail(node, 'list display with elements of different / unsupported types')
            return V('[' + '; '.join(v.code for v in vals) + ']', LIST_OF[ty], True)
        if isinstance(node, ast.ListComp):
            return self.listcomp(node, env, pre)
        fail(node, 'expression outside grammar')

    @staticmethod
    def pure_lines(lines):
        """do the lines neither bind a possibly failing computation nor rebind the state"""
        for ln in lines:
            s = ln.strip()
            if s.startswith('do ') or s.startswith('let st :=') or 'Err ' in s:
                return False
        return True

    def compare(self, node, env, pre):
        if len(node.ops) != 1:
            fail(node, 'chained comparison')
        op, rn = node.ops[0], node.comparators[0]
        if isinstance(op, (ast.In, ast.NotIn)):
            x = self.expr(node.left, env, pre)
            neg = isinstance(op, ast.NotIn)
            if isinstance(rn, ast.Name) and rn.id in env and env[rn.id].kind == 'state' and env[rn.id].role == 'memo':
                if x.ty != 'label':
                    fail(node, 'key of the defaultdict must be a label')
                self.touch(node, 'memo')
                t = self.fresh()
                pre.append(f'let {t} := dmem (saved st) {x.code} in')
                return V(f'(negb {t})' if neg else t, 'bool')
            l = self.expr(rn, env, pre)
            if l.ty == 'labels' and x.ty == 'label':
                c = f'(memb {x.code} {l.code})'
            elif l.ty == 'ilist' and x.ty in ('int', 'nat'):
                c = f'(existsb (Z.eqb {self.as_int(x, node)}) {l.code})'
            else:
                fail(node, f'membership test {x.ty} in {l.ty}')
            return V(f'(negb {c})' if neg else c, 'bool')
        if isinstance(op, (ast.Is, ast.IsNot)):
            fail(node, '`is` outside an `if <optional> is [not] None` test')
        l = self.expr(node.left, env, pre)
        r = self.expr(rn, env, pre)
        zops = {ast.Eq: '=?', ast.Lt: '<?', ast.LtE: '<=?', ast.Gt: '>?', ast.GtE: '>=?'}
        if l.ty in ('int', 'nat') and r.ty in ('int', 'nat'):
            a, b = self.as_int(l, node), self.as_int(r, node)
            if isinstance(op, ast.NotEq):
                return V(f'(negb ({a} =? {b}))', 'bool')
            if type(op) in zops:
                return V(f'({a} {zops[type(op)]} {b})', 'bool')
            fail(node, 'comparison operator')
        if isinstance(op, (ast.Eq, ast.NotEq)) and l.ty == r.ty and l.ty in ('label', 'gtype', 'bool'):
            f = {'label': 'leqb', 'gtype': 'gtype_beq', 'bool': 'Bool.eqb'}[l.ty]
            c = f'({f} {l.code} {r.code})'
            return V(f'(negb {c})' if isinstance(op, ast.NotEq) else c, 'bool')
        fail(node, f'comparison of {l.ty} with {r.ty}')

    def subscript(self, node, env, pre):
        base = node.value
        if isinstance(base, ast.Name) and base.id in env and env[base.id].kind == 'state':
            var = env[base.id]
            if var.role != 'memo':
                fail(node, 'subscript on a closure variable that is not the defaultdict')
            if var.clo is None:
                fail(node, 'the defaultdict is used before its factory is defined')
            k = self.typed(node.slice, env, pre, 'label')
            self.touch(node, 'memo')
            self.touch_all(node, var.clo.needs)
            t = self.fresh()
            pre.append(f'do (st, {t}) <- defaultdict_getitem {var.clo.coqname} st {k.code};')
            return V(t, 'int')
        if isinstance(base, ast.Name) and base.id in env and env[base.id].kind == 'dispatch':
            fail(node, 'the dispatch dict may only be used as <dict>[<gate type>](<cnf>, <int>, <ints>)')
        l = self.expr(base, env, pre)
        sl = node.slice
        if isinstance(sl, ast.Slice):
            if l.ty not in ELEM:
                fail(node, 'slice of a value that is not a list')
            if sl.lower is None and sl.upper is None and isinstance(sl.step, ast.UnaryOp) \
                    and isinstance(sl.step.op, ast.USub) and isinstance(sl.step.operand, ast.Constant) \
                    and sl.step.operand.value == 1 and type(sl.step.operand.value) is int:
                return V(f'(rev {l.code})', l.ty, True)
            def bound(b):
                return isinstance(b, ast.Constant) and type(b.value) is int and b.value >= 0
            if sl.step is None and sl.lower is None and bound(sl.upper):
                return V(f'(firstn {sl.upper.value}%nat {l.code})', l.ty, True)
            if sl.step is None and sl.upper is None and bound(sl.lower):
                return V(f'(skipn {sl.lower.value}%nat {l.code})', l.ty, True)
            fail(node, 'slice outside grammar ([::-1], [:k], [k:] with a literal k >= 0)')
        if l.ty == 'ilist':
            if not (isinstance(sl, ast.Constant) and type(sl.value) is int and sl.value >= 0):
                fail(node, 'index into a list of ints must be a literal >= 0')
            t = self.fresh()
            pre.append(f'do {t} <- py_index {l.code} {sl.value}%nat;')
            return V(t, 'int')
        if l.ty == 'labels':
            i = self.typed(sl, env, pre, 'int')
            t = self.fresh()
            pre.append(f'do {t} <- list_index {l.code} {i.code};')
            return V(t, 'label')
        fail(node, f'subscript on {l.ty}')

    def attribute(self, node, env, pre):
        base = node.value
        if isinstance(base, ast.Name) and base.id in env and env[base.id].kind in ('param', 'local'):
            var = env[base.id]
            if var.ty == 'circuit':
                if node.attr in t9.CIRCUIT_PROPS:      # trivial getters, verified by the T9 unit
                    proj = t9.FIELDS[t9.CIRCUIT_PROPS[node.attr]][0]
                    if node.attr not in ('inputs', 'outputs'):
                        fail(node, 'only the label lists of a circuit are values of this grammar')
                    return V(f'({proj} {var.code})', 'labels')
                fn = self.circuit_fn(node.attr, node, want_property=True)
                return self.apply_circuit_fn(fn, var, [], node, pre)
            if var.ty == 'gate':
                if node.attr == 'operands':
                    return V(f'(gops {var.code})', 'labels')
                if node.attr == 'gate_type':
                    return V(f'(gtyp {var.code})', 'gtype')
                fail(node, 'attribute of a gate outside grammar (the model gate has type and operands only)')
        if isinstance(base, (ast.Call, ast.Subscript, ast.IfExp)):
            b = self.expr(base, env, pre)
            if b.ty == 'gate' and node.attr == 'operands':
                return V(f'(gops {b.code})', 'labels')
            if b.ty == 'gate' and node.attr == 'gate_type':
                return V(f'(gtyp {b.code})', 'gtype')
            fail(node, f'attribute {node.attr} of a {b.ty}: outside grammar')
        if isinstance(base, ast.Name) and base.id not in env and node.attr in GTYPES and base.id == 'gate':
            fail(node, 'gate.<TYPE>: tseytin.py imports the gate types by name')
        fail(node, 'attribute outside grammar')

    def circuit_fn(self, name, node, want_property):
        m = self.unit.circuit_methods.get(name)
        if m is None:
            fail(node, f'Circuit.{name}: not a single plain definition of circuit.py')
        is_prop = len(m.decorator_list) == 1 and isinstance(m.decorator_list[0], ast.Name) \
            and m.decorator_list[0].id == 'property'
        if is_prop != want_property:
            fail(node, f'Circuit.{name} is {"a property" if is_prop else "a method"}')
        fn, where = self.unit.locate(name, node)
        if fn.mutates or fn.self_kind != 'method' or fn.has_kwarg or getattr(fn, 'fuel_names', None):
            fail(node, f'Circuit.{name} is not a pure method without fuel (T9 / T10 signature)')
        if where == 'local':
            if fn not in self.local_fns:
                if fn.closures:
                    fail(node, f'Circuit.{name}: local closures')
                self.local_fns.append(fn)
        elif where == 'algos':
            imp = 'Require Import Cirbo.Generated.CircuitAlgos.'
            if imp not in self.extra_imports:
                self.extra_imports.append(imp)
        return fn

    def apply_circuit_fn(self, fn, recv, args, node, pre):
        conv = {'label': 'label', 'int': 'int', 'nat': 'nat', 'bool': 'bool', 'labels': 'labels', 'gate': 'gate',
                'gtype': 'gtype', 'unit': 'unit'}
        if fn.ret_ty not in conv:
            fail(node, f'Circuit.{fn.name} returns a {fn.ret_ty}: outside the types of this grammar')
        if len(args) != len(fn.params):
            fail(node, f'Circuit.{fn.name}: every parameter must be given positionally')
        codes = []
        for a, (p, ty, _d, needs_label) in zip(args, fn.params):
            if ty not in conv or needs_label:
                fail(node, f'Circuit.{fn.name}: parameter {p} of type {ty} outside grammar')
            if a.ty == 'nat' and ty == 'int':
                a = V(self.as_int(a, node), 'int')
            if a.ty != ty:
                fail(node, f'Circuit.{fn.name}: argument for {p} has type {a.ty}, expected {ty}')
            codes.append(a.code)
        call = ' '.join([fn.coqname, recv.code] + codes)
        if fn.monadic:
            t = self.fresh()
            pre.append(f'do {t} <- {call};')
            return V(t, fn.ret_ty)
        return V(f'({call})', fn.ret_ty)

    def call(self, node, env, pre):
        f = node.func
        if node.keywords:
            fail(node, 'keyword arguments')
        if isinstance(f, ast.Name) and f.id in env:
            var = env[f.id]
            if var.kind != 'closure':
                fail(node, 'call of a local that is not a closure')
            return self.call_closure(var.clo, node, env, pre)
        if isinstance(f, ast.Name):
            if f.id == 'len' and len(node.args) == 1:
                l = self.expr(node.args[0], env, pre)
                if l.ty not in ELEM:
                    fail(node, f'len of {l.ty}')
                return V(f'(length {l.code})', 'nat')
            if f.id == 'range' and len(node.args) == 1:
                n = self.expr(node.args[0], env, pre)
                if n.ty == 'nat':
                    return V(f'(map Z.of_nat (seq 0 {n.code}))', 'ilist', True)
                if n.ty == 'int':
                    return V(f'(map Z.of_nat (seq 0 (Z.to_nat {n.code})))', 'ilist', True)
                fail(node, f'range of {n.ty}')
            if f.id == 'list' and len(node.args) == 1:
                l = self.expr(node.args[0], env, pre)
                if l.ty not in ELEM:
                    fail(node, f'list of {l.ty}')
                return V(l.code, l.ty, True)
            if f.id == 'reversed' and len(node.args) == 1:
                l = self.expr(node.args[0], env, pre)
                if l.ty not in ELEM:
                    fail(node, f'reversed of {l.ty}')
                return V(f'(rev {l.code})', l.ty, True)
            fail(node, f'call of {f.id}: outside grammar')
        if isinstance(f, ast.Attribute) and isinstance(f.value, ast.Name) and f.value.id in env:
            var = env[f.value.id]
            if var.kind in ('param', 'local') and var.ty == 'circuit':
                fn = self.circuit_fn(f.attr, node, want_property=False)
                args = [self.expr(a, env, pre) for a in node.args]
                return self.apply_circuit_fn(fn, var, args, node, pre)
        fail(node, 'call outside grammar')

    def call_closure(self, clo, node, env, pre):
        if len(node.args) != len(clo.params):
            fail(node, f'{clo.name}: every parameter must be given positionally')
        args = []
        for a, (p, ty) in zip(node.args, clo.params):
            v = self.typed(a, env, pre, ty)
            args.append(v.code)
        self.touch_all(node, clo.needs)
        if clo.fuelled:
            if self.cur is not None and not self.cur.fuelled:
                fail(node, 'call of a fuelled closure from a closure that is not fuelled')
        head = [clo.coqname] + (['fuel'] if clo.fuelled else [])
        for c in clo.captures:
            if c not in env or env[c].kind != 'param':
                fail(node, f'{clo.name} captures {c}, which is not visible here')
            head.append(env[c].code)
        t = self.fresh()
        pre.append(f'do (st, {t}) <- {" ".join(head + ["st"] + args)};')
        if clo.ret_ty == 'unit':
            return V('tt', 'unit')
        return V(t, clo.ret_ty)

    def listcomp(self, node, env, pre):
        if len(node.generators) != 1:
            fail(node, 'comprehension with several generators')
        g = node.generators[0]
        if g.is_async or len(g.ifs) > 1 or not isinstance(g.target, ast.Name):
            fail(node, 'comprehension shape')
        it = self.expr(g.iter, env, pre)
        if it.ty not in ELEM:
            fail(g.iter, f'iteration over {it.ty}')
        if g.target.id in env:
            fail(g.target, 'comprehension variable shadows a name')
        x = self.vname(g.target, g.target.id)
        inner = dict(env)
        inner[g.target.id] = Var(x, ELEM[it.ty], 'local')
        src = it.code
        if g.ifs:
            sub = []
            c = self.typed(g.ifs[0], inner, sub, 'bool')
            if sub:
                fail(g.ifs[0], 'comprehension filter that reads the state, acts on it or may raise')
            src = f'(filter (fun {x} => {c.code}) {it.code})'
        sub = []
        self.loop_depth += 1
        e = self.expr(node.elt, inner, sub)
        self.loop_depth -= 1
        if e.ty == 'nat':
            e = V(self.as_int(e, node), 'int')
        if e.ty not in LIST_OF:
            fail(node, f'comprehension element of type {e.ty}')
        if not sub:
            return V(f'(map (fun {x} => {e.code}) {src})', LIST_OF[e.ty], True)
        t = self.fresh()
        self.touch_state_marker()
        pre.append(f'do (st, {t}) <- mapS (fun st {x} =>')
        pre += ['    ' + ln for ln in sub + [f'Ok (st, {e.code})) st {src};']]
        return V(t, LIST_OF[e.ty], True)

    def touch_state_marker(self):
        pass
    # ------------------------------------------------------------------ statements

    def assigned_in(self, stmts):
        """python names assigned / appended to / stored through by the statements (recursively)"""
        out = []
        def add(n):
            if n not in out:
                out.append(n)
        def walk(ss):
            for s in ss:
                if isinstance(s, (ast.Assign, ast.AnnAssign, ast.AugAssign)):
                    tgts = s.targets if isinstance(s, ast.Assign) else [s.target]
                    for t in tgts:
                        for e in (t.elts if isinstance(t, ast.Tuple) else [t]):
                            if isinstance(e, ast.Name):
                                add(e.id)
                            elif isinstance(e, ast.Subscript) and isinstance(e.value, ast.Name):
                                add(e.value.id)
                elif isinstance(s, ast.Expr) and isinstance(s.value, ast.Call) \
                        and isinstance(s.value.func, ast.Attribute) and isinstance(s.value.func.value, ast.Name):
                    add(s.value.func.value.id)
                elif isinstance(s, ast.For):
                    walk(s.body)
                elif isinstance(s, ast.If):
                    walk(s.body)
                    walk(s.orelse)
        walk(stmts)
        return out

    @staticmethod
    def contains_return(stmts):
        for s in stmts:
            for n in ast.walk(s):
                if isinstance(n, ast.Return):
                    return True
        return False

    def block(self, stmts, env, k):
        """lines of a Coq term of type res (...): the statements, then the continuation k(env)"""
        if not stmts:
            return k(env)
        s, rest = stmts[0], stmts[1:]
        def cont(env2):
            return self.block(rest, env2, k)
        if isinstance(s, self.FORBIDDEN):
            fail(s, 'statement outside grammar')
        if isinstance(s, ast.Pass) or isinstance(s, ast.Nonlocal):
            return cont(env)
        if isinstance(s, ast.Expr) and isinstance(s.value, ast.Constant) and isinstance(s.value.value, str):
            return cont(env)
        if isinstance(s, ast.FunctionDef):
            fail(s, 'nested def below the top level of the outer function')
        if isinstance(s, ast.Return):
            if rest:
                fail(rest[0], 'statement after return')
            return self.ret(s, env)
        if isinstance(s, (ast.Assign, ast.AnnAssign)):
            return self.assign(s, env, cont)
        if isinstance(s, ast.AugAssign):
            return self.augassign(s, env, cont)
        if isinstance(s, ast.Expr):
            return self.expr_stmt(s, env, cont)
        if isinstance(s, ast.If):
            return self.if_stmt(s, env, cont)
        if isinstance(s, ast.For):
            return self.for_stmt(s, env, cont)
        fail(s, 'statement outside grammar')

    def ret(self, s, env):
        if self.loop_depth:
            fail(s, 'return inside a loop')
        pre = []
        if self.cur is None:
            v = s.value
            if not (isinstance(v, ast.Call) and isinstance(v.func, ast.Name) and v.func.id == 'Cnf'
                    and 'Cnf' not in env and len(v.args) == 1 and not v.keywords and isinstance(v.args[0], ast.Name)
                    and v.args[0].id in env and env[v.args[0].id].kind == 'state'
                    and env[v.args[0].id].role == 'cnf'):
                fail(s, 'the outer function must end with `return Cnf(<the clause list>)`')
            self.touch(s, 'cnf')
            self.ret_types.append('cnf')
            return ['Ok (st, clauses st)']
        if s.value is None:
            self.ret_types.append('unit')
            return ['Ok (st, tt)']
        v = self.expr(s.value, env, pre)
        if v.ty == 'nat' and self.cur.ret_ty == 'int':
            v = V(self.as_int(v, s), 'int')
        self.ret_types.append(v.ty)
        return pre + [f'Ok (st, {v.code})']

    def bind_local(self, node, name, v, env):
        """env with `name` bound to the value v (a local); lines"""
        if name in env and env[name].kind not in ('param', 'local'):
            fail(node, f'assignment to {name} ({env[name].kind})')
        if name in self.captured_params:
            fail(node, f'{name} is captured by a closure and may not be rebound')
        if self.cur is not None and name not in self.cur_locals:
            fail(node, f'assignment to {name}, which is not a local of this closure')
        if v.ty not in COQ_TY:
            fail(node, f'value of type {v.ty} cannot be bound to a name')
        x = self.vname(node, name)
        env2 = dict(env)
        env2[name] = Var(x, v.ty, 'local', appendable=v.fresh and v.ty in ELEM)
        return [f'let {x} := {v.code} in'], env2

    def freeze_value(self, node, env, ty=None):
        """the list value of the expression `node` is now held by someone else (a second name, the clause list, a
        template ...): every list this function may still append to and that the expression mentions (it may have
        become an element or an alias of the value) loses that right"""
        if ty is not None and ty not in ELEM:
            return env
        out = env
        for n in ast.walk(node):
            if isinstance(n, ast.Name) and n.id in out and out[n.id].kind in ('param', 'local') and out[n.id].appendable:
                if out is env:
                    out = dict(env)
                out[n.id] = out[n.id].frozen()
        return out

    def assign(self, s, env, cont):
        if isinstance(s, ast.Assign):
            if len(s.targets) != 1:
                fail(s, 'chained assignment')
            tgt, val, ann = s.targets[0], s.value, None
        else:
            tgt, val, ann = s.target, s.value, s.annotation
            if val is None:
                fail(s, 'annotation without a value')
        pre = []
        # store into the defaultdict
        if isinstance(tgt, ast.Subscript):
            if not (isinstance(tgt.value, ast.Name) and tgt.value.id in env and env[tgt.value.id].kind == 'state'
                    and env[tgt.value.id].role == 'memo'):
                fail(s, 'item assignment on something that is not the defaultdict')
            v = self.typed(val, env, pre, 'int')            # Python evaluates the value first
            kk = self.typed(tgt.slice, env, pre, 'label')
            self.touch(s, 'memo')
            return pre + [f'let st := set_saved st (dset (saved st) {kk.code} {v.code}) in'] + cont(env)
        if isinstance(tgt, ast.Tuple):
            if not (isinstance(val, ast.Tuple) and len(val.elts) == len(tgt.elts) and len(tgt.elts) >= 2
                    and all(isinstance(e, ast.Name) for e in tgt.elts)
                    and len({e.id for e in tgt.elts}) == len(tgt.elts)):
                fail(s, 'tuple assignment must be <names> = <as many expressions>')
            vals = [self.expr(e, env, pre) for e in val.elts]
            for e, v in zip(val.elts, vals):
                env = self.freeze_value(e, env, v.ty)
            lines = list(pre)
            tmps = []
            for v in vals:
                t = self.fresh()
                lines.append(f'let {t} := {v.code} in')
                tmps.append(V(t, v.ty, False))
            for e, v in zip(tgt.elts, tmps):
                ls, env = self.bind_local(e, e.id, v, env)
                lines += ls
            return lines + cont(env)
        if not isinstance(tgt, ast.Name):
            fail(s, 'assignment target outside grammar')
        name = tgt.id
        if name in env and env[name].kind == 'state':
            var = env[name]
            if var.role == 'counter':
                v = self.typed(val, env, pre, 'int')
                if self.cur is None and self.depth == 0:
                    self.inited.add('counter')
                self.touch(s, 'counter')
                return pre + [f'let st := set_next_lit st {v.code} in'] + cont(env)
            # the binding statement of the defaultdict / the clause list (outer function, top level, once)
            if self.cur is not None or self.depth != 0 or s is not self.state_decl[name]:
                fail(s, f'{name} (a closure variable) may only be bound by its one binding statement')
            if var.role == 'memo':
                if self.factory not in self.closures:
                    fail(s, 'the factory of the defaultdict is defined after the defaultdict is created')
                self.inited.add('memo')
                return ['let st := set_saved st [] in'] + cont(env)
            self.inited.add('cnf')
            return ['let st := set_clauses st [] in'] + cont(env)
        if name in env and env[name].kind == 'dispatch':
            if s is not self.dispatch_decl:
                fail(s, 'the dispatch dict is bound twice')
            return ['(* the dispatch dict: template_of (Generated/Tseytin.v, translator T2) *)'] + cont(env)
        if name in env and env[name].kind == 'closure':
            fail(s, 'assignment to the name of a closure')
        if isinstance(val, ast.List) and not val.elts and ann is not None and self.ann_type(ann) in ('ilist', 'labels'):
            v = V('[]', self.ann_type(ann), True)       # `<x>: list[int] = []`: the annotation types the empty list
        else:
            v = self.expr(val, env, pre)
        if ann is not None:
            at = self.ann_type(ann)
            if at is not None and at != v.ty and not (at == 'int' and v.ty == 'nat'):
                fail(s, f'annotation says {at}, the value is a {v.ty}')
            if at == 'int' and v.ty == 'nat':
                v = V(self.as_int(v, s), 'int')
        env = self.freeze_value(val, env, v.ty)
        if not isinstance(val, (ast.List, ast.ListComp, ast.BinOp, ast.Call, ast.Subscript)):
            v = V(v.code, v.ty, False)      # a name, a conditional expression of names ...: possibly an alias
        ls, env2 = self.bind_local(tgt, name, v, env)
        return pre + ls + cont(env2)

    def augassign(self, s, env, cont):
        if not (isinstance(s.target, ast.Name) and isinstance(s.op, (ast.Add, ast.Sub))):
            fail(s, 'augmented assignment outside grammar')
        name = s.target.id
        if name not in env:
            fail(s, 'unknown name')
        op = '+' if isinstance(s.op, ast.Add) else '-'
        var = env[name]
        pre = []
        if var.kind == 'state' and var.role == 'counter':
            if self.cur is not None and name not in self.cur_nonlocal:
                fail(s, f'{name} assigned in a closure without `nonlocal`')
            self.touch(s, 'counter')
            t = self.fresh()
            pre.append(f'let {t} := next_lit st in')        # Python loads the target first
            v = self.typed(s.value, env, pre, 'int')
            return pre + [f'let st := set_next_lit st ({t} {op} {v.code}) in'] + cont(env)
        if var.kind in ('param', 'local') and var.ty in ('int', 'nat'):
            v = self.typed(s.value, env, pre, 'int')
            cur = V(var.code, var.ty)
            ls, env2 = self.bind_local(s.target, name, V(f'({self.as_int(cur, s)} {op} {v.code})', 'int'), env)
            return pre + ls + cont(env2)
        fail(s, 'augmented assignment outside grammar')

    def expr_stmt(self, s, env, cont):
        c = s.value
        if not isinstance(c, ast.Call):
            fail(s, 'expression statement that is not a call')
        f = c.func
        pre = []
        # <dispatch>[gate type](cnf, top, lits)
        if isinstance(f, ast.Subscript) and isinstance(f.value, ast.Name) and f.value.id in env \
                and env[f.value.id].kind == 'dispatch':
            if c.keywords or len(c.args) != 3:
                fail(s, 'a template is called as (<cnf>, <top literal>, <operand literals>)')
            gt = self.typed(f.slice, env, pre, 'gtype')     # callee expression first, then the arguments
            a0 = c.args[0]
            if not (isinstance(a0, ast.Name) and a0.id in env and env[a0.id].kind == 'state'
                    and env[a0.id].role == 'cnf'):
                fail(s, 'first argument of a template must be the clause list')
            top = self.typed(c.args[1], env, pre, 'int')
            lits = self.typed(c.args[2], env, pre, 'ilist')
            self.touch(s, 'cnf')
            t = self.fresh()
            env = self.freeze_value(c.args[2], env)
            return pre + [f'do {t} <- template_of {gt.code} {top.code} {lits.code};',
                          f'let st := set_clauses st (clauses st ++ {t}) in'] + cont(env)
        if isinstance(f, ast.Attribute) and f.attr == 'append' and isinstance(f.value, ast.Name) \
                and f.value.id in env and env[f.value.id].kind in ('state', 'param', 'local') \
                and env[f.value.id].ty != 'circuit':
            if c.keywords or len(c.args) != 1:
                fail(s, 'append arity')
            var = env[f.value.id]
            if var.kind == 'state':
                if var.role != 'cnf':
                    fail(s, 'append to a closure variable that is not the clause list')
                v = self.typed(c.args[0], env, pre, 'ilist')
                self.touch(s, 'cnf')
                env = self.freeze_value(c.args[0], env)
                return pre + [f'let st := set_clauses st (clauses st ++ [{v.code}]) in'] + cont(env)
            if not var.appendable:
                fail(s, f'append to {f.value.id}: not a list that this function created and still holds alone')
            v = self.expr(c.args[0], env, pre)
            if v.ty == 'nat':
                v = V(self.as_int(v, s), 'int')
            if v.ty != ELEM[var.ty]:
                fail(s, f'append of a {v.ty} to a {var.ty}')
            env = self.freeze_value(c.args[0], env)
            return pre + [f'let {var.code} := {var.code} ++ [{v.code}] in'] + cont(env)
        # a call whose value is discarded
        self.expr(c, env, pre)
        if not pre:
            fail(s, 'call statement without effect')
        return pre + cont(env)

    def none_test(self, test, env):
        if isinstance(test, ast.Compare) and len(test.ops) == 1 and isinstance(test.ops[0], (ast.Is, ast.IsNot)) \
                and isinstance(test.comparators[0], ast.Constant) and test.comparators[0].value is None \
                and isinstance(test.left, ast.Name) and test.left.id in env \
                and env[test.left.id].kind in ('param', 'local') and env[test.left.id].ty == 'optilist':
            return test.left.id, isinstance(test.ops[0], ast.Is)
        return None

    def if_stmt(self, s, env, cont):
        pre = []
        nt = self.none_test(s.test, env)
        if nt:
            name, is_none = nt
            var = env[name]
            env_some = dict(env)
            env_some[name] = Var(var.code, 'ilist', 'local')
            env_none = dict(env)
            env_none[name] = Var(var.code, 'none', 'local')
            if name in self.captured_params:
                fail(s, f'{name} is captured by a closure: no narrowing')
            heads = [f'match {var.code} with', f'| None =>', f'| Some {var.code} =>', 'end']
            branches = [(s.body if is_none else s.orelse, env_none), (s.orelse if is_none else s.body, env_some)]
        else:
            c = self.typed(s.test, env, pre, 'bool')
            heads = [f'if {c.code} then', None, 'else', '']
            branches = [(s.body, env), (s.orelse, env)]
        self.depth += 1
        try:
            if not self.contains_return(s.body) and not self.contains_return(s.orelse):
                joined = self.if_join(s, env, branches, heads, pre)
            else:
                joined = None
                if self.loop_depth:
                    fail(s, 'return inside a loop')
                # a branch returns: the continuation follows each branch that falls through
                # (cont is translated once per such branch)
                texts = []
                for stmts, benv in branches:
                    texts.append(self.block(stmts, benv, lambda e: self.after_branch(e, cont)))
                out = pre + self.assemble(heads, texts, '')
        finally:
            self.depth -= 1
        if joined is not None:
            return joined[0] + cont(joined[1])
        return out

    def after_branch(self, env, cont):
        self.depth -= 1
        try:
            return cont(env)
        finally:
            self.depth += 1

    @staticmethod
    def assemble(heads, texts, closing):
        h0, h1, h2, h3 = heads
        lines = [('(' if closing else '') + h0]
        if h1 is not None:
            lines.append(h1)
        lines += ['    ' + x for x in texts[0]]
        lines.append(h2)
        lines += ['    ' + x for x in texts[1]]
        if h3:
            lines.append(h3 + closing)
        elif closing:
            lines[-1] += closing
        return lines

    def if_join(self, s, env, branches, heads, pre):
        """neither branch returns: both are run to their end and the variables they assign are joined"""
        results = []
        for stmts, benv in branches:
            box = {}
            def k(e, box=box):
                box['env'] = e
                return ['<JOIN>']
            lines = self.block(stmts, benv, k)
            results.append((lines, box['env']))
        (l1, e1), (l2, e2) = results
        # names a branch (re)binds and that are visible after the if: bound before, or bound by both branches
        names = []
        for n in self.assigned_in(s.body) + self.assigned_in(s.orelse) + \
                ([self.none_test(s.test, env)[0]] if self.none_test(s.test, env) else []):
            if n in names or n not in e1 or n not in e2:
                continue
            if e1[n].kind != 'local' and e1[n].kind != 'param':
                continue
            if n in env and e1[n] is env[n] and e2[n] is env[n]:
                continue
            names.append(n)
        env2 = dict(env)
        carried = []
        for n in names:
            a, b = e1[n], e2[n]
            if a.ty == 'none' or b.ty == 'none':
                # stays None on one side: the name keeps its optional type only if neither side changed it
                fail(s, f'{n} may still be None after the if')
            if a.ty != b.ty or a.code != b.code:
                fail(s, f'{n} has type {a.ty} after one branch and {b.ty} after the other')
            env2[n] = Var(a.code, a.ty, 'local', appendable=a.appendable and b.appendable)
            carried.append(a.code)
        for n in e1:
            # a list frozen in a branch stays frozen
            if n in env2 and n not in names and env2[n].kind in ('param', 'local') \
                    and (not e1[n].appendable or (n in e2 and not e2[n].appendable)) and env2[n].appendable:
                env2[n] = env2[n].frozen()
        pure = self.pure_lines(l1) and self.pure_lines(l2)
        if pure and not carried:
            if all(x == '<JOIN>' for x in l1 + l2):
                return pre, env2
            fail(s, 'if statement without effect')
        if pure:
            tup = carried[0] if len(carried) == 1 else '(' + ', '.join(carried) + ')'
            pat = carried[0] if len(carried) == 1 else "'(" + ', '.join(carried) + ')'
            texts = [[tup if x == '<JOIN>' else x for x in l] for l in (l1, l2)]
            body = self.assemble(heads, texts, ')')
            return pre + [f'let {pat} :='] + ['  ' + x for x in body[:-1]] + ['  ' + body[-1] + ' in'], env2
        tup = '(' + ', '.join(['st'] + carried) + ')' if carried else 'st'
        texts = [[f'Ok {tup}' if x == '<JOIN>' else x for x in l] for l in (l1, l2)]
        body = self.assemble(heads, texts, ')')
        return pre + [f'do {tup} <-'] + ['  ' + x for x in body[:-1]] + ['  ' + body[-1] + ';'], env2

    def for_stmt(self, s, env, cont):
        if s.orelse or not isinstance(s.target, ast.Name):
            fail(s, 'for loop shape (else clause or a target that is not a name)')
        if self.contains_return(s.body):
            fail(s, 'return inside a loop')
        if s.target.id in env:
            fail(s, 'loop variable shadows a name')
        if self.cur is not None and s.target.id not in self.cur_locals:
            fail(s, 'loop variable is not a local of this closure')
        pre = []
        it = self.expr(s.iter, env, pre)
        if it.ty not in ELEM:
            fail(s.iter, f'iteration over {it.ty}')
        assigned = self.assigned_in(s.body)
        if any(isinstance(n, ast.Name) and n.id in assigned for n in ast.walk(s.iter)):
            fail(s, 'loop body writes a variable that its iterable mentions')
        carried_names = [n for n in assigned if n in env and env[n].kind in ('param', 'local')]
        x = self.vname(s.target, s.target.id)
        inner = dict(env)
        inner[s.target.id] = Var(x, ELEM[it.ty], 'local')
        carried = [env[n].code for n in carried_names]
        tup = '(' + ', '.join(['st'] + carried) + ')' if carried else 'st'
        box = {}
        def k(e):
            box['env'] = e
            return [f'Ok {tup}']
        self.loop_depth += 1
        self.depth += 1
        try:
            body = self.block(s.body, inner, k)
        finally:
            self.loop_depth -= 1
            self.depth -= 1
        e_end = box['env']
        env2 = dict(env)
        for n in carried_names:
            if e_end[n].ty != env[n].ty or e_end[n].code != env[n].code:
                fail(s, f'loop changes the type of {n}')
            if env[n].appendable and not e_end[n].appendable:
                # frozen somewhere in the body: the next iteration would append to a list held elsewhere
                fail(s, f'{n} is appended to and handed on inside one loop body')
        for n in e_end:
            if n in env2 and env2[n].kind in ('param', 'local') and env2[n].appendable and not e_end[n].appendable:
                env2[n] = env2[n].frozen()
        binder = f"'{tup}" if carried else 'st'
        lines = pre + [f'do {tup} <- foldM (fun {binder} {x} =>']
        lines += ['    ' + ln for ln in body[:-1]] + ['    ' + body[-1] + f') {it.code} {tup};']
        return lines + cont(env2)
    # ------------------------------------------------------------------ the outer function and its closures

    def analyse(self):
        f = self.main
        a = f.args
        if a.posonlyargs or a.kwonlyargs or a.vararg or a.kwarg or f.decorator_list:
            fail(f, 'signature of the outer function outside grammar')
        defaults = [None] * (len(a.args) - len(a.defaults)) + list(a.defaults)
        self.params = []
        for p, d in zip(a.args, defaults):
            ty = self.ann_type(p.annotation)
            if ty == 'circuit' and d is None:
                pass
            elif ty == 'optilist' and isinstance(d, ast.Constant) and d.value is None:
                pass
            else:
                fail(p, 'parameter of the outer function must be `<p>: Circuit` or `<q>: tp.Optional[list[int]] = None`')
            self.params.append((p.arg, ty))
        if [t for _, t in self.params] != ['circuit', 'optilist']:
            fail(f, 'the outer function must take (circuit, outputs=None): the arguments of the hand model')
        if self.ann_type(f.returns) != 'cnfobj':
            fail(f, 'the outer function must be annotated `-> Cnf`')
        body = strip_docstring(f.body)
        self.body = body
        for n in own_nodes(f):
            if isinstance(n, self.FORBIDDEN) or isinstance(n, ast.Nonlocal):
                fail(n, 'construct outside grammar in the outer function')
        # nested defs: top level only, bound once
        self.defs = {}
        for st in body:
            if isinstance(st, ast.FunctionDef):
                if st.name in self.defs:
                    fail(st, f'closure {st.name} defined twice')
                self.defs[st.name] = st
        for n in own_nodes(f):
            if isinstance(n, ast.FunctionDef) and self.defs.get(n.name) is not n:
                fail(n, 'nested def below the top level of the outer function')
        stored = names_stored(body)
        main_names = [p for p, _ in self.params] + stored
        nonlocals = set()
        for d in self.defs.values():
            for n in ast.walk(d):
                if isinstance(n, ast.Nonlocal):
                    nonlocals |= set(n.names)
                if isinstance(n, (ast.FunctionDef, ast.Lambda)) and n is not d:
                    fail(n, 'def inside a closure')
        # closure state: recognised by the form of the binding statement
        self.state = {}         # python name -> role
        self.state_decl = {}    # python name -> statement
        self.factory = None
        self.dispatch_decl = None
        for st in body:
            tgt = val = ann = None
            if isinstance(st, ast.Assign) and len(st.targets) == 1 and isinstance(st.targets[0], ast.Name):
                tgt, val = st.targets[0].id, st.value
            elif isinstance(st, ast.AnnAssign) and isinstance(st.target, ast.Name) and st.value is not None:
                tgt, val, ann = st.target.id, st.value, st.annotation
            if tgt is None:
                continue
            role = None
            if isinstance(val, ast.Constant) and type(val.value) is int and tgt in nonlocals:
                role = 'counter'
            elif isinstance(val, ast.Call) and isinstance(val.func, ast.Attribute) and val.func.attr == 'defaultdict' \
                    and isinstance(val.func.value, ast.Name) and val.func.value.id == 'collections':
                if 'collections' in main_names:
                    fail(st, '`collections` is rebound inside the function')
                if len(val.args) != 1 or val.keywords or not isinstance(val.args[0], ast.Name) \
                        or val.args[0].id not in self.defs:
                    fail(st, 'collections.defaultdict must be given one closure of the function as its factory')
                role = 'memo'
                self.factory = val.args[0].id
            elif isinstance(val, ast.List) and not val.elts and self.ann_type(ann) == 'cnf':
                role = 'cnf'
            elif isinstance(val, ast.Dict):
                if tgt != DISPATCH_NAME:
                    fail(st, f'a dict display must be the dispatch dict {DISPATCH_NAME} (the name T2 reads template_of from)')
                if self.dispatch_decl is not None:
                    fail(st, 'dispatch dict bound twice')
                self.dispatch_decl = st
                self.check_dispatch(val)
                continue
            if role is None:
                continue
            if role in self.state.values():
                fail(st, f'two closure variables of the same kind ({role}): the state does not fit the record tstate')
            self.state[tgt] = role
            self.state_decl[tgt] = st
        if sorted(self.state.values()) != sorted(ROLES):
            raise TranslatorError(f'closure state {sorted(self.state.values())} does not fit the record tstate '
                                  f'(one int counter with `nonlocal`, one collections.defaultdict, one `: CnfRaw = []`)')
        if self.dispatch_decl is None:
            raise TranslatorError(f'dispatch dict {DISPATCH_NAME} not found')
        # every state variable / closure / dispatch name is bound exactly once in the outer function
        once = list(self.state) + list(self.defs) + [DISPATCH_NAME]
        for name in once:
            k = 0
            for n in own_nodes(f):
                if isinstance(n, ast.Name) and n.id == name and isinstance(n.ctx, (ast.Store, ast.Del)):
                    if not (self.state.get(name) == 'counter'):
                        k += 1
                if isinstance(n, ast.FunctionDef) and n.name == name:
                    k += 1
                if isinstance(n, ast.arg) and n.arg == name:
                    k += 1
            if name in [p for p, _ in self.params]:
                k += 1
            if self.state.get(name) != 'counter' and k != 1:
                raise TranslatorError(f'{name} must be bound exactly once in {MAIN} (found {k})')
        for name, role in self.state.items():
            if role != 'counter' and name in nonlocals:
                raise TranslatorError(f'{name}: `nonlocal` on a closure variable that is not the counter')
        for n in nonlocals:
            if self.state.get(n) != 'counter':
                raise TranslatorError(f'nonlocal {n}: only the int counter may be rebound by a closure')
        self.main_names = set(main_names)
        # which parameters of the outer function do closures capture
        self.captured_params = set()
        pnames = [p for p, _ in self.params]
        for d in self.defs.values():
            for n in ast.walk(d):
                if isinstance(n, ast.Name) and n.id in pnames:
                    self.captured_params.add(n.id)
        for p in sorted(self.captured_params):
            if p in stored:
                raise TranslatorError(f'parameter {p} is captured by a closure and rebound in {MAIN}')

    def check_dispatch(self, d):
        table = {}
        for k, v in zip(d.keys, d.values):
            if not (isinstance(k, ast.Name) and k.id in GTYPES and isinstance(v, ast.Name)):
                fail(d, 'dispatch entry must be <GateType name>: <module-level function>')
            if k.id in table:
                fail(d, f'duplicate key {k.id}')
            if v.id not in self.funcs or v.id in self.main_names_early():
                fail(d, f'{v.id} is not a module-level function (or is shadowed)')
            table[k.id] = v.id
        if sorted(table) != sorted(GTYPES):
            fail(d, 'the dispatch dict must have the 19 gate types as its keys')

    def main_names_early(self):
        return set(names_stored(self.body)) | {p for p, _ in self.params}

    def closure_signature(self, d):
        clo = Closure(d.name, d)
        a = d.args
        if a.posonlyargs or a.kwonlyargs or a.vararg or a.kwarg or a.defaults or d.decorator_list:
            fail(d, 'closure signature outside grammar')
        for p in a.args:
            ty = self.ann_type(p.annotation)
            if ty not in ('label', 'int', 'bool'):
                # a list parameter could be stored by the callee and mutated by the caller afterwards
                fail(p, 'closure parameter needs an annotation among str / int / Lit / bool')
            clo.params.append((p.arg, ty))
        if d.returns is not None:
            if isinstance(d.returns, ast.Constant) and d.returns.value is None:
                clo.ret_ty = 'unit'
            else:
                clo.ret_ty = self.ann_type(d.returns)
                if clo.ret_ty not in COQ_TY:
                    fail(d, 'return annotation of a closure outside grammar')
        refs = [n.id for n in ast.walk(d) if isinstance(n, ast.Name)]
        clo.recursive = d.name in refs
        clo.fuelled = clo.recursive
        caps = {p for p, _ in self.params if p in refs}
        for r in sorted(set(refs)):
            if r in self.defs and r != d.name:
                if r not in self.closures:
                    fail(d, f'closure {d.name} mentions {r}, which is defined later')
                other = self.closures[r]
                caps |= set(other.captures)
                clo.fuelled = clo.fuelled or other.fuelled
        memo = [n for n, r in self.state.items() if r == 'memo'][0]
        if memo in refs:
            if self.factory not in self.closures and self.factory != d.name:
                fail(d, f'closure {d.name} uses the defaultdict before its factory is defined')
        clo.captures = [p for p, _ in self.params if p in caps]
        if clo.recursive and clo.ret_ty is None:
            fail(d, 'a closure that calls itself needs a return annotation')
        return clo

    def translate_closure(self, d):
        clo = self.closure_signature(d)
        body = strip_docstring(d.body)
        nonloc = set()
        for i, st in enumerate(body):
            if isinstance(st, ast.Nonlocal):
                nonloc |= set(st.names)
        for n in ast.walk(d):
            if isinstance(n, ast.Nonlocal) and n not in body:
                fail(n, '`nonlocal` below the top level of a closure')
        locals_ = [p for p, _ in clo.params] + [n for n in names_stored(body) if n not in nonloc]
        for n in locals_:
            if n in self.main_names or n in self.defs or n in self.state or n == DISPATCH_NAME:
                fail(d, f'local {n!r} of closure {d.name} shadows a name of {MAIN}')
        if len(set(p for p, _ in clo.params)) != len(clo.params):
            fail(d, 'duplicate parameter')
        env = self.base_env()
        for n, c in self.closures.items():
            env[n] = Var(c.coqname, None, 'closure', clo=c)
        env[d.name] = Var(clo.coqname, None, 'closure', clo=clo)
        for p, ty in clo.params:
            env[p] = Var(self.vname(d, p), ty, 'param')
        self.cur, self.cur_locals, self.cur_nonlocal = clo, set(locals_), nonloc
        self.tmp, self.loop_depth, self.depth = 0, 0, 0
        self.ret_types = []
        lines = self.block(body, env, lambda e: self.fall_off())
        tys = sorted(set(self.ret_types))
        if len(tys) != 1:
            fail(d, f'closure {d.name} returns values of types {tys}')
        if clo.ret_ty is None:
            clo.ret_ty = tys[0]
        elif clo.ret_ty != tys[0]:
            fail(d, f'closure {d.name} is annotated {clo.ret_ty} and returns a {tys[0]}')
        if clo.ret_ty not in COQ_TY:
            fail(d, f'closure {d.name} returns a {clo.ret_ty}')
        self.cur = None
        binders = (['(fuel : nat)'] if clo.fuelled else []) + \
            [f'({self.vname(d, c)} : {COQ_TY[dict(self.params)[c]]})' for c in clo.captures] + ['(st : tstate)'] + \
            [f'({self.vname(d, p)} : {COQ_TY[ty]})' for p, ty in clo.params]
        rty = f'res (tstate * {COQ_TY[clo.ret_ty]})'
        if clo.recursive:
            head = f'Fixpoint {clo.coqname} {" ".join(binders)} {{struct fuel}} : {rty} :=\n' \
                   f'  match fuel with\n  | O => Err OutOfFuel\n  | S fuel =>\n'
            clo.text = head + '\n'.join('    ' + ln for ln in lines) + '\n  end.\n'
        else:
            clo.text = f'Definition {clo.coqname} {" ".join(binders)} : {rty} :=\n' + \
                       '\n'.join('  ' + ln for ln in lines) + '.\n'
        return clo

    def fall_off(self):
        self.ret_types.append('unit')
        return ['Ok (st, tt)']

    def base_env(self):
        env = {}
        for p, ty in self.params:
            if self.cur_is_closure and p not in self.captured_params:
                continue
            env[p] = Var(self.vname(self.main, p), ty, 'param')
        for n, role in self.state.items():
            env[n] = Var('st', role, 'state', role=role,
                         clo=self.closures.get(self.factory) if role == 'memo' else None)
        env[DISPATCH_NAME] = Var(None, None, 'dispatch')
        return env

    def generate(self):
        self.analyse()
        # the outer function, statement by statement; closures are translated where their `def` stands
        self.cur_is_closure = False
        env = self.base_env()
        self.cur_locals, self.cur_nonlocal = set(), set()
        texts = []
        self.depth = 0
        self.ret_types = []
        main_lines = ['let st := mkT [] 0 [] in        (* the closure variables, not yet bound *)']
        segments = []       # maximal runs of statements between nested defs
        run = []
        for st in self.body:
            if isinstance(st, ast.FunctionDef):
                segments.append(('stmts', run))
                segments.append(('def', st))
                run = []
            else:
                run.append(st)
        segments.append(('stmts', run))
        if not self.body or not isinstance(self.body[-1], ast.Return):
            fail(self.main, 'the outer function must end with a return statement')
        def go(i, env):
            if i == len(segments):
                fail(self.main, 'the outer function falls off its end')
            kind, payload = segments[i]
            if kind == 'def':
                if payload.name in self.closures:
                    fail(payload, 'closure definition reached on two paths')
                self.cur_is_closure = True
                saved_tmp, saved_rets = self.tmp, self.ret_types
                clo = self.translate_closure(payload)
                self.ret_types = saved_rets
                self.cur_is_closure = False
                self.cur, self.tmp, self.loop_depth, self.depth = None, saved_tmp, 0, 0
                self.cur_locals, self.cur_nonlocal = set(), set()
                self.closures[clo.name] = clo
                texts.append(clo.text)
                env2 = dict(env)
                env2[clo.name] = Var(clo.coqname, None, 'closure', clo=clo)
                if clo.name == self.factory:
                    if clo.params or clo.ret_ty != 'int' or clo.fuelled or clo.captures or 'memo' in clo.needs:
                        fail(payload, 'the factory of the defaultdict must be a closure without parameters that '
                                      'returns an int, does not recurse and does not touch the dict')
                    for n, role in self.state.items():
                        if role == 'memo':
                            env2[n] = Var('st', 'memo', 'state', role='memo', clo=clo)
                return go(i + 1, env2)
            last = i == len(segments) - 1
            return self.block(payload, env, (lambda e: self.main_end()) if last else (lambda e: go(i + 1, e)))
        self.tmp = 0
        self.loop_depth = 0
        main_lines += go(0, env)
        if self.ret_types != ['cnf'] * len(self.ret_types) or not self.ret_types:
            fail(self.main, 'the outer function must return Cnf(<clause list>) on every path')
        fuelled = any(c.fuelled for c in self.closures.values())
        binders = (['(fuel : nat)'] if fuelled else []) + \
            [f'({self.vname(self.main, p)} : {COQ_TY[ty]})' for p, ty in self.params]
        main_text = f'Definition gen_{MAIN} {" ".join(binders)} : res (tstate * list (list Z)) :=\n' + \
                    '\n'.join('  ' + ln for ln in main_lines) + '.\n'
        parts = [PRELUDE % {'extra_imports': ''.join(x + '\n' for x in self.extra_imports)}]
        for fn in self.local_fns:
            parts.append(f'(* Circuit.{fn.name}: translated by the T9 / T10 machinery, not emitted by T9 *)\n' + fn.text)
        parts += texts
        parts.append(main_text)
        return '\n'.join(parts)

    def main_end(self):
        fail(self.main, 'the outer function falls off its end')

class CircuitUnit(t10.AlgoUnit):
    """the T9 / T10 translation unit of circuit.py, used for the signatures of the Circuit methods the source calls.
    A property of Circuit that neither T9 nor T10 emits is translated here (by T10's AlgoTr) and emitted locally."""

    def make_tr(self, modkey, src, coqname):
        if (modkey, src.name) in self.algos or self.is_plain_property(modkey, src):
            return t10.AlgoTr(self, modkey, src, coqname)
        return t9.FnTr(self, modkey, src, coqname)

    @staticmethod
    def is_plain_property(modkey, src):
        d = src.decorator_list
        return modkey == 'circuit' and len(d) == 1 and isinstance(d[0], ast.Name) and d[0].id == 'property'

    def get(self, modkey, name, node=None):
        return t9.Unit.get(self, modkey, name, node)

    def locate(self, name, node):
        """-> (Fn, 'core' | 'algos' | 'local')"""
        n0 = len(self.order)
        fn = self.get('circuit', name, node)
        if ('circuit', name) in self.algos:
            return fn, 'algos'
        if fn.coqname in self.core_names:
            return fn, 'core'
        src = self.circuit_methods.get(name)
        if src is None or not self.is_plain_property('circuit', src):
            fail(node, f'Circuit.{name}: emitted neither by T9 nor by T10, and not a property')
        # a locally emitted property may only use what T9 emits
        for other in self.order[n0:]:
            if other is not fn and other.coqname not in self.core_names:
                fail(node, f'Circuit.{name} depends on {other.name}, which T9 does not emit')
        return fn, 'local'

def generate():
    return Translator().generate()

def translate():
    return {OUT: write_if_changed(OUT, generate())}



if __name__ == '__main__':
    print(translate())
