"""T22: add_mul_wallace (cirbo/synthesis/generation/arithmetics/multiplication.py) for translator T19

T19 (translator/t19_mul_gen.py, read its docstring and T14's first) regenerates every multiplier of property C08 into
Generated/ArithGen08.v; this module is the part of its grammar that only `add_mul_wallace` needs.  `WalFnTr` subclasses
T19's `MulFnTr`; T19 uses it (lazily imported) for the functions listed in its table CLOSURE_FUNCS and emits the result in
the same file, so that the regenerated dispatch `gen__process_mul` can name `gen_add_mul_wallace`.
Proofs/ArithGen08W*.v prove `gen_add_mul_wallace` extensionally equal to the hand model `add_mul_wallace` of
Model/ArithMul.v.  Anything outside the grammar raises TranslatorError.

Grammar added to T19's:
  <stmt> ::= def <f>(<p>: <T>, ...) [-> <T>]: <stmts>      a CLOSURE, only as a statement of the function's own block (not
                                                       inside a loop / branch / another closure), undecorated, positional
                                                       parameters without defaults, every path ends in `return <e>` of an
                                                       int / label / bool.  It becomes a local state-passing function
                                                           let <f> := (fun (<mutated captures>) (<params>) => <body>) in
                                                       whose body returns (<mutated captures>, <value>):
                                                       - a captured variable the closure MUTATES in place (`zero.append(..)`)
                                                         is a list the enclosing function owns; every call passes its current
                                                         value and rebinds it: `bdo (zero, tmp'k) <- <f> zero <args>;`
                                                         (a loop / branch that calls <f> carries / joins these variables)
                                                       - a captured variable the closure only READS is the Gallina variable
                                                         in scope at the definition; the enclosing function may not assign or
                                                         mutate it after the definition (Python reads it at call time)
                                                       - names the closure assigns (and its parameters) are its own locals:
                                                         they shadow the enclosing ones for the whole body; `nonlocal` /
                                                         `global`, a closure calling a closure, rebinding the closure's name
                                                         are refused
  <iterable> ::= range(a, b, <k>)                      a positive literal step: py_range_step
               | range(..) whose bounds may raise      (`len(c[0])`): evaluated once, left to right, before the loop
  <expr> ::= <label> == <label> | <label> != <label>   String.eqb; an operand may raise (`c[col][k] != PLACEHOLDER_STR`)
           | a list as a truth value                   in `if l:`, `not l`, `x if l else y`: py_truth
           | [<pure e> for <p> in <it> if <test that may raise>]      py_filter_m (the tests run in order)
  while: the fuel table of T19 gets `m` for the reduction loop (`length rows` of the hand model's wallace_loop).
"""
import ast

from .common import TranslatorError, fail
from . import t14_arith_gen as t14
from . import t19_mul_gen as t19
from .t14_arith_gen import (E, Var, TList, LABEL, INT, BOOL, STATE, STRC, is_list, has_list, assigned,
                            mutated_in_place, terminates, indent, tuple_term)
from .t19_mul_gen import PreTerm, bound_names, has_unknown

# the hand model's fuel (Model/ArithMul.v: wallace_loop (length rows) rows, and rows has one row per bit of b)
t19.WHILE_FUEL[('add_mul_wallace', 0)] = 'm'

RESERVED = t19.RESERVED | {'String', 'eqb', 'Zlength'}
CLOSURE_RET = (INT, LABEL, BOOL)


class Closure:
    def __init__(self, name, coq, params, mut, reads, ret):
        self.name, self.coq, self.params, self.mut, self.reads, self.ret = name, coq, params, mut, reads, ret


class WalFnTr(t19.MulFnTr):
    def __init__(self, unit, mod, fdef, empties=None):
        super().__init__(unit, mod, fdef, empties)
        self.closures = {}
        self.in_closure = None          # the list of mutated captures while a closure body is translated
        for n in self.locals | {d.name for d in ast.walk(fdef) if isinstance(d, ast.FunctionDef)}:
            if n.endswith('_py') and n[:-3] in RESERVED:
                fail(fdef, f'identifier {n!r} collides with the generated vocabulary')

    @staticmethod
    def cn(name):
        if name == '_':
            return '_'
        return name + '_py' if name in RESERVED else name

    def translate(self):
        while True:
            try:
                return self.translate_once()
            except t19.Retry as r:
                if r.key in self.empties:
                    fail(self.f, f'the empty list at {r.key} is used with two element types')
                self.empties[r.key] = r.ty
                self.ntmp, self.nwhile, self.pop_ok, self.ret, self.ret_fresh = 0, 0, 0, None, True
                self.closures, self.in_closure = {}, None

    # -- a list as a truth value
    def as_test(self, node, env):
        """`node` in a Boolean position: a list that cannot raise becomes PreTerm(py_truth l), else node itself"""
        saved = self.ntmp
        try:
            e = self.ex(node, env.copy())
        except t19.Retry:
            raise
        finally:
            self.ntmp = saved
        if is_list(e.ty) and not e.binds:
            return ast.copy_location(PreTerm(f'(py_truth {e.term})', BOOL), node)
        return node

    def ex(self, node, env):
        if isinstance(node, ast.UnaryOp) and isinstance(node.op, ast.Not):
            t = self.as_test(node.operand, env)
            if t is not node.operand:
                node = ast.copy_location(ast.UnaryOp(op=node.op, operand=t), node)
        elif isinstance(node, ast.IfExp):
            t = self.as_test(node.test, env)
            if t is not node.test:
                node = ast.copy_location(ast.IfExp(test=t, body=node.body, orelse=node.orelse), node)
        return super().ex(node, env)

    def st_if(self, s, rest, env, k):
        if t14.none_test(s.test) is None:
            t = self.as_test(s.test, env)
            if t is not s.test:
                s = ast.copy_location(ast.If(test=t, body=s.body, orelse=s.orelse), s)
        return super().st_if(s, rest, env, k)

    # -- comparison of labels
    def ex_compare(self, node, env):
        if len(node.ops) == 1 and isinstance(node.ops[0], (ast.Eq, ast.NotEq)):
            saved = self.ntmp
            binds, parts, es = [], [], []
            for o in [node.left, node.comparators[0]]:
                b = []
                es.append(self.val(o, env, b))
                parts.append((b, es[-1].term))
                binds += b
            a, b = es
            if a.ty in (LABEL, STRC) and b.ty in (LABEL, STRC) and (a.ty, b.ty) != (STRC, STRC):
                if bound_names(binds):
                    fail(node, 'in-place update inside a comparison')
                self.guard_siblings(node, parts)
                ta = a.term if a.ty == LABEL else f'"{a.term}"%string'
                tb = b.term if b.ty == LABEL else f'"{b.term}"%string'
                t = f'(String.eqb {ta} {tb})'
                return E(binds, t if isinstance(node.ops[0], ast.Eq) else f'(negb {t})', BOOL)
            self.ntmp = saved
        return super().ex_compare(node, env)

    # -- range with a positive step / with bounds that may raise
    def iterable(self, node, env):
        if isinstance(node, ast.Call) and isinstance(node.func, ast.Name) and node.func.id == 'range':
            self.builtin('range', node, env)
            a = node.args
            if node.keywords or not 1 <= len(a) <= 3:
                fail(node, 'range outside the grammar')
            step = None
            if len(a) == 3:
                st = a[2]
                if isinstance(st, ast.UnaryOp) and isinstance(st.op, ast.USub) and isinstance(st.operand, ast.Constant) \
                        and st.operand.value == 1:
                    step = -1
                elif isinstance(st, ast.Constant) and type(st.value) is int and st.value > 0:
                    step = st.value
                else:
                    fail(node, 'the step of a range must be -1 or a positive literal')
            binds, parts, ts = [], [], []
            for x in a[:2]:
                b = []
                ts.append(self.val(x, env, b, INT).term)
                parts.append((b, ts[-1]))
                binds += b
            if bound_names(binds):
                fail(node, 'in-place update inside the bounds of a range')
            self.guard_siblings(node, parts)
            if len(a) == 1:
                return binds, f'(py_range 0 {ts[0]})', INT
            if step is None:
                return binds, f'(py_range {ts[0]} {ts[1]})', INT
            if step == -1:
                return binds, f'(py_range_down {ts[0]} {ts[1]})', INT
            return binds, f'(py_range_step {ts[0]} {ts[1]} {step})', INT
        return super().iterable(node, env)

    # -- [e for p in it if <test that may raise>]
    def ex_listcomp(self, node, env):
        gens = node.generators
        if len(gens) == 1 and len(gens[0].ifs) == 1 and not gens[0].is_async:
            g = gens[0]
            saved = self.ntmp
            env2 = env.copy()
            binds, it, ety = self.iterable(g.iter, env2)
            pat = self.bind_pattern(g.target, ety, env2)
            ce = self.ex(g.ifs[0], env2)
            if ce.binds:
                if ce.ty != BOOL:
                    fail(node, 'the filter of a comprehension is not a Boolean')
                if bound_names(ce.binds):
                    fail(node, 'in-place update inside the filter of a comprehension')
                body = self.pure(node.elt, env2)
                if body.ty == STRC or (has_list(body.ty) and not body.fresh):
                    fail(node, 'element of a filtered comprehension outside the grammar')
                t = self.tmp()
                lines = [f'bdo {t} <- py_filter_m (fun {pat} =>'] + indent(ce.binds + [f'Ret {ce.term}) {it};'], 4)
                if isinstance(node.elt, ast.Name) and isinstance(g.target, ast.Name) and node.elt.id == g.target.id:
                    return E(binds + lines, t, TList(ety), True)
                return E(binds + lines, f'(map (fun {pat} => {body.term}) {t})', TList(body.ty), True)
            self.ntmp = saved
        return super().ex_listcomp(node, env)

    # -- closures
    def closure_effects(self, stmts):
        out = []
        for s in stmts:
            for sub in ast.walk(s):
                if isinstance(sub, ast.Call) and isinstance(sub.func, ast.Name) and sub.func.id in self.closures:
                    for n in self.closures[sub.func.id].mut:
                        if n not in out:
                            out.append(n)
        return out

    def carried(self, body, env, node):
        C = super().carried(body, env, node)
        for n in self.closure_effects(body):
            if n in env.vars and n not in C:
                C.append(n)
        return C

    def join_vars(self, body, orelse, env):
        J = super().join_vars(body, orelse, env)
        for n in self.closure_effects(body + orelse):
            if n in env.vars and n not in J:
                J.append(n)
        return J

    def st_for(self, s, env):
        names_in_iter = {n.id for n in ast.walk(s.iter) if isinstance(n, ast.Name)}
        if names_in_iter & set(self.closure_effects(s.body)):
            fail(s, 'the loop body mutates (through a closure) a list the loop iterates over')
        return super().st_for(s, env)

    def declare(self, name, ty, owned, env, node):
        if name in self.closures:
            fail(node, f'the name of the closure {name!r} is rebound')
        return super().declare(name, ty, owned, env, node)

    def bind_pattern(self, target, ty, env, top=True):
        if isinstance(target, ast.Name) and target.id in self.closures:
            fail(target, f'the name of the closure {target.id!r} is rebound')
        return super().bind_pattern(target, ty, env, top)

    def block(self, stmts, env, k):
        if stmts and isinstance(stmts[0], ast.FunctionDef):
            return self.st_def(stmts[0], env) + self.block(stmts[1:], env, k)
        return super().block(stmts, env, k)

    def st_def(self, d, env):
        top = [x for x in self.f.body if x is d]
        if not top or self.in_closure is not None:
            fail(d, 'a closure may only be defined in the block of the function itself')
        name = d.name
        if d.decorator_list or name in self.closures or name in env.vars or name in env.dead or name in t14.BUILTINS \
                or name in ('min', 'max') or name in self.mod.funcs or name in self.mod.consts \
                or name in self.mod.imports or name == 'circuit':
            fail(d, f'definition of the closure {name!r} outside the grammar (decorated / shadows another name)')
        stores = [n.id for n in ast.walk(d) if isinstance(n, ast.Name) and isinstance(n.ctx, ast.Store)]
        if stores.count(name) or sum(1 for x in ast.walk(self.f) if isinstance(x, ast.FunctionDef) and x.name == name) != 1 \
                or name in t14.assigned_deep([x for x in self.f.body if x is not d]):
            fail(d, f'the name of the closure {name!r} is bound more than once')
        for sub in ast.walk(d):
            if isinstance(sub, (ast.Nonlocal, ast.Global, ast.Lambda, ast.ClassDef, ast.AsyncFunctionDef, ast.Yield,
                                ast.YieldFrom, ast.Await)) or (isinstance(sub, ast.FunctionDef) and sub is not d):
                fail(sub, 'statement outside the grammar inside a closure')
            if isinstance(sub, ast.Call) and isinstance(sub.func, ast.Name) and (sub.func.id in self.closures
                                                                                 or sub.func.id == name):
                fail(sub, 'a closure calls a closure')
        a = d.args
        if a.vararg or a.kwarg or a.posonlyargs or a.kwonlyargs or a.defaults or a.kw_defaults:
            fail(d, 'a closure takes positional parameters without defaults only')
        params = []
        for p in a.args:
            ty = self.ann_type(p.annotation, None)
            if ty not in (INT, LABEL, BOOL):
                fail(p, 'the parameters of a closure are ints, labels or bools')
            params.append((p.arg, ty))
        if len({p[0] for p in params}) != len(params):
            fail(d, 'a parameter name twice')
        own = set(stores) | {p[0] for p in params}
        if 'circuit' in own:
            fail(d, 'the circuit is rebound inside a closure')
        body = list(t19.strip_docstring(d.body))
        if not terminates(body):
            fail(d, 'every path through a closure must end in `return <value>`')
        loads = [n.id for n in ast.walk(d) if isinstance(n, ast.Name) and isinstance(n.ctx, ast.Load)]
        free = [n for n in dict.fromkeys(loads) if n not in own]
        mut = [n for n in dict.fromkeys(loads) if n in mutated_in_place(body) and n not in own]
        for n in mut:
            v = env.vars.get(n)
            if v is None or not is_list(v.ty) or not v.owned or has_unknown(v.ty):
                fail(d, f'the closure mutates {n!r}, which is not a list (of known element type) the function owns here')
        reads = [n for n in free if n in env.vars and n not in mut and env.vars[n].ty != STATE]
        idx = [i for i, x in enumerate(self.f.body) if x is d][0]
        rest = self.f.body[idx + 1:]
        later = set(assigned(rest)) | mutated_in_place(rest) | set(t14.assigned_deep(
            [x for x in rest if not isinstance(x, ast.FunctionDef)]))
        for n in reads:
            if n in later:
                fail(d, f'{n!r}, which the closure reads, is assigned or mutated after the definition of the closure')
        for c in self.closures.values():
            if set(c.reads) & set(mut) or set(c.mut) & set(reads):
                fail(d, 'a variable one closure reads is mutated by another closure')
        # the body, in a copy of the environment without the closure's own names
        env_c = env.copy()
        for n in own:
            env_c.vars.pop(n, None)
            env_c.dead.pop(n, None)
        for pname, ty in params:
            env_c.vars[pname] = Var(ty, False, self.cn(pname))
        saved = (self.ret, self.ret_fresh)
        self.ret, self.ret_fresh, self.in_closure = None, True, mut
        lines = self.block(body, env_c, self.dead)
        ret = self.ret
        self.ret, self.ret_fresh = saved
        self.in_closure = None
        if ret not in CLOSURE_RET:
            fail(d, 'a closure must return an int, a label or a bool')
        if d.returns is not None and self.ann_type(d.returns, None) != ret:
            fail(d, 'the return annotation of the closure differs from the type of the returned value')
        coq = self.cn(name)
        if coq == '_' or coq.startswith('gen_') or coq.startswith('py_') or coq.startswith("tmp'"):
            fail(d, f'the name of the closure {name!r} collides with the generated vocabulary')
        self.closures[name] = Closure(name, coq, params, mut, reads, ret)
        binders = [f'({self.cn(n)} : {t19.coq_ty(env.vars[n].ty)})' for n in mut] \
            + [f'({self.cn(n)} : {t19.coq_ty(ty)})' for n, ty in params]
        if not binders:
            binders = ['(_ : unit)']
        out = [f'let {coq} := (fun {" ".join(binders)} =>'] + indent(lines, 4)
        out[-1] += ') in'
        return out

    def st_expr(self, s, env):
        c = s.value
        if isinstance(c, ast.Call) and isinstance(c.func, ast.Name) and c.func.id in self.closures:
            fail(s, 'call of a closure whose result is dropped')
        return super().st_expr(s, env)

    def st_return(self, s, env):
        lines = super().st_return(s, env)
        if self.in_closure is None:
            return lines
        if isinstance(s.value, ast.Tuple):
            fail(s, 'a closure returns a tuple')
        if self.in_closure:
            assert lines[-1].startswith('Ret ')
            for n in self.in_closure:
                v = env.vars.get(n)
                if v is None or not v.owned:
                    fail(s, f'{n!r}, which the closure mutates, is not an owned list at the return')
            lines[-1] = 'Ret (' + ', '.join([env.vars[n].coq for n in self.in_closure] + [lines[-1][4:]]) + ')'
        return lines

    def ex_call(self, node, env):
        f = node.func
        if isinstance(f, ast.Name) and f.id in self.closures and f.id not in env.vars:
            c = self.closures[f.id]
            if self.in_closure is not None:
                fail(node, 'a closure calls a closure')
            if node.keywords or len(node.args) != len(c.params) or any(isinstance(x, ast.Starred) for x in node.args):
                fail(node, f'call of the closure {c.name!r} outside its signature')
            binds, parts, terms = [], [], []
            for (pname, ty), x in zip(c.params, node.args):
                b = []
                terms.append(self.val(x, env, b, ty).term)
                parts.append((b, terms[-1]))
                binds += b
            self.guard_siblings(node, parts)
            ms = []
            for n in c.mut:
                v = self.owned_list(n, node, env)
                if v.coq in bound_names(binds):
                    fail(node, 'an argument updates a list the closure mutates')
                ms.append(v.coq)
            for n in c.reads:
                if n not in env.vars:
                    fail(node, f'{n!r}, which the closure reads, is not bound at the call')
            t = self.tmp()
            args = ' '.join(ms + terms) if ms + terms else 'tt'
            if ms:
                binds.append(f'bdo ({", ".join(ms + [t])}) <- {c.coq} {args};')
            else:
                binds.append(f'bdo {t} <- {c.coq} {args};')
            return E(binds, t, c.ret)
        return super().ex_call(node, env)
