"""T15: cirbo/minimization/simplification/{remove_redundant_gates,merge_duplicate_gates,merge_unary_operators,
merge_equivalent_gates}.py  ->  Generated/PassesGen.v
     cleanup.py, the class definitions of the transformers, transformer.py (partly)  ->  Generated/PipelineGen.v
     (second part of this header: `Pipeline`)

A statement-level imperative-to-functional translation of the four simplification passes.  Every definition of
COVERED becomes `gen_<name>` (methods: `gen_<Class>_<name without leading underscores>`, closures:
`<enclosing>_<closure name without leading underscores>`); Proofs/PassesGen*.v prove each of them equal to the
hand model Model/Passes.v (the object of the C03 / C18 theorems), so an edit of a covered body changes a generated
definition and breaks an equality lemma.  Anything outside the grammar raises TranslatorError (the check then fails
closed).  COVERED is the fixed list of definitions that must translate; the translator knows no pass by name, the
Gallina is built from the statements of the source.

Values.  Label / str -> label; tuple[Label, ...] / list of labels -> list label; bool; gate.GateType -> gtype;
a Gate object -> a model `gate` plus, separately, the label it carries (`.label` is resolved statically);
Circuit -> circuit; dict[Label, V] -> `dict V` (insertion ordered association list of Model/Base.v);
a tuple `(<gate type>,) + <labels>` -> the pair (gtype * list label) ("signature": Python compares and hashes tuples
element by element, which is equality of the pair); a dict keyed by such tuples (`dict[tuple, Label]`) or by
`tuple(<list of gate states>)` -> an insertion ordered association list with the corresponding key equality
(py_adict_*); collections.defaultdict(list) -> such a list with list values; an object of a @dataclass with one
Optional[str] field -> a reference (index) into a heap `list (option label)` that is threaded like any other mutable
variable (`<Class>()` allocates a cell; aliases of the object are aliases of the index).

Circuit API.  The methods of Circuit that the passes call (METHODS below) are the functions of Model/Circuit.v,
Traverse.v, Eval.v with the same name; each of them is regenerated from circuit.py by T9 / T10 and proved equal to
that model function elsewhere (C02 / C20 / C01).  The parameter names and order used to place keyword arguments are
read from circuit.py and compared with METHODS (a changed signature is refused).  `circuit.inputs`, `.outputs`,
`gate.label`, `.gate_type`, `.operands` are checked to be the trivial properties (t9 Unit.check_environment),
`<gate type>.is_symmetric` is Generated/GateTypes.is_symmetric (translator T1).

Grammar (bodies of the covered functions and of their nested closures):

  <stmt> ::= <name> = Circuit()                         the circuit under construction: a mutable variable
           | <name>: dict[K, V] = {}  |  <name> = {}  |  <name> = collections.defaultdict(list)
           | <name> = <Dataclass>()                     heap allocation
           | <name> = <expr>                            an immutable local (may be rebound; a join passes it on)
           | <dict>[k] = e | <dict>.setdefault(k, e) | <defaultdict>[k].append(e)
           | <circuit var>.<mutator>(args)              emplace_gate / add_inputs / set_inputs / set_outputs
           | <closure>(args)                            a nested def; mutated captured variables are passed and returned
           | more_itertools.consume(<circuit>.dfs(<starts>, <hook>=<closure>, ..., inverse= / topsort_unvisited=))
                                                        -> a fold of the hooks over the event log of Model/Traverse.traverse
                                                           (see `The traversal idiom`)
           | for <target> in <iterable>: <stmts>        -> foldM carrying the variables the body modifies;
                                                           `continue` allowed, `return` / `break` / else not
           | if <expr>: <stmts> [elif / else]            a branch may end in return / continue; otherwise the branches
                                                           are joined on the variables they modify
           | def <closure>(<annotated params>): ...     | nonlocal <names> (checked; no effect: captured variables are
                                                           never rebound inside a closure) | return [<expr>] | pass
           | logger.<level>(<f-string over known names>)  no effect
           | self.<field> = e                           inside a dataclass method (heap write)
  <iterable> ::= <list expr> | <circuit>.top_sort(inverse=b) | <dict>.items() | <dict>.values()
  <expr> ::= names, True / False, small ints, gate.<TYPE>, x.<attr> (see above), self.<ctor attribute> (a parameter of
           the generated function), a == b, a in b, a not in b, < <= > >= on lengths, not / and / or,
           `x is None` on a dataclass field, len(x), tuple(x) / list(x) (identity), sorted(<labels>) (py_sorted),
           tuple(map(f, xs)) / list(map(f, xs)) for a closure f (mapM, or py_map_acc when f mutates), (a,) + b,
           d[k] (KeyError), d.get(k, dflt), <table>[k](xs) for a module-level dict of operator.itemgetter(i),
           [x for x in xs if c], [v for v in d.values() if c], calls of closures / translated functions / circuit methods.

The traversal idiom.  `circuit.dfs(...)` is a generator whose hooks are called while it runs; the passes drain it with
more_itertools.consume.  The translation runs the model's traversal (Model/Traverse.traverse, mode DFS, with the
start gates / inverse / topsort_unvisited of the call, defaults read from the signature of `dfs`; T10 regenerates
_traverse_circuit / dfs themselves and proves them equal to it) and then folds over its event log IN ORDER: an event
EvExit l calls the closure given as on_exit_hook on the gate `get_gate circuit l`, EvUnvisited l the unvisited_hook,
EvEnter l the on_enter_hook; events without a hook are skipped; the second hook argument (the state mapping) must be
unused.  The traversed circuit must be a read-only value (hooks cannot change it).  on_discover_hook /
on_traversal_end_hook are not accepted.  This differs from Python's interleaving only in which exception is seen when
both the traversal (later) and a hook (earlier) raise - the convention of T10 for generators, and of the hand model.
The same convention applies to `for g in circuit.top_sort(...)`.

Aliasing discipline.  A mutable variable (created circuit, dict, heap) is bound exactly once, is only used through the
operations above, and is never stored, passed to anything but these operations, or bound to a second name (`return
<circuit var>` ends the function).  Parameters and values obtained from a read-only circuit are never mutated.  A
closure may capture only names that are bound exactly once in the enclosing function (so that definition-time and
call-time values agree), and never rebinds them.

Pipeline (PipeUnit / PipeTr below; Generated/PipelineGen.v imports Model/Passes.v: a transformer OBJECT is a value of
Passes.transformer, one constructor per class of the closed world WORLD, its arguments are the constructor arguments).
  class tables  for every class of WORLD: the `super().__init__(pre_transformers=(..), post_transformers=(..))` call of
                its __init__ (tuples of constructor calls of WORLD classes with bool constants; __init__ may otherwise
                only store its parameters) -> gen_pre_transformers / gen_post_transformers; the class attribute
                `__idempotent__` (a bool constant in the class body, else the one of Transformer) -> gen_is_idempotent.
                Transformer.__init__ / is_idempotent are checked to be the trivial storing / reading definitions.
  cleanup       translated statement by statement with the grammar above plus: keyword-only bool parameters,
                `<Class>(..)` of a WORLD class as a value, lists of them, `x += [..]` on a list that was created by a
                list literal in the function and is read only after its last update, and
                `Transformer.apply_transformers(c, ts)` = Passes.apply_transformers (NOT regenerated).
  linearize_reduce_transformers (a generator: `yield e` appends to the list that the function returns)
                plus: `<name>: tp.Optional[Transformer] = None`, its rebinding with a transformer (Some), `t.is_idempotent`
                (gen_is_idempotent), `t == p` for an Optional p (Passes.transformer_eqb; the __eq__ methods and Python's
                reflected comparison protocol are NOT regenerated), iteration over
                `Transformer.linearize_transformers(ts)` = Passes.linearize (NOT regenerated).
  not covered   Transformer.linearize_transformers / as_distinct (dynamic dispatch on the class of each element,
                overridden by TransformerComposition, mutually recursive generators over the object graph),
                apply_transformers / transform / TransformerComposition._transform (isinstance on a Union parameter,
                functools.reduce over a lambda that dispatches `_transform`, recursion through the composition),
                __or__ / __ror__ (return NotImplemented protocol) and the three __eq__.  They are not covered HERE:
                translator/t24_transformer.py (T24, built on PipeUnit) regenerates them into
                Generated/TransformerGen.v.
"""
import ast
import re

from .common import TranslatorError, fail, guard_module, repo_root, strip_docstring, write_if_changed
from .t9_circuit_core import Unit as CoreUnit, gtype_constructors, ind, paren

OUT = 'Generated/PassesGen.v'
PKG = 'cirbo.minimization.simplification'
RR, MD, MU, ME = (PKG + '.remove_redundant_gates', PKG + '.merge_duplicate_gates', PKG + '.merge_unary_operators',
                  PKG + '.merge_equivalent_gates')

# (module, qualified name): ALL of them must translate, emitted in this order (callees first)
COVERED = [
    (RR, 'RemoveRedundantGates._transform'),
    (MD, 'MergeDuplicateGates._transform'),
    (MU, 'MergeUnaryOperators._transform'),
    (ME, '_find_equivalent_gates_groups'),
    (ME, '_replace_equivalent_gates'),
    (ME, 'MergeEquivalentGates._transform'),
]

LABEL, BOOL, GTYPE, GATE, CIRCUIT, NAT, SIG, ST, UNIT = 'label', 'bool', 'gtype', 'gate', 'circuit', 'nat', 'sig', 'st', 'unit'
LABELS, STS, LABELSS = ('list', LABEL), ('list', ST), ('list', ('list', LABEL))
GETTER = 'getter'           # operator.itemgetter(i): the index i
IGNORED = 'ignored'         # the state mapping handed to a traversal hook


def coq_ty(t):
    if isinstance(t, str):
        return {LABEL: 'label', BOOL: 'bool', GTYPE: 'gtype', GATE: 'gate', CIRCUIT: 'circuit', NAT: 'nat',
                SIG: '(gtype * list label)', ST: 'st', UNIT: 'unit', GETTER: 'nat', 'transformer': 'transformer'}[t]
    if t[0] == 'list':
        return f'list {pty(t[1])}'
    if t[0] == 'dict':
        return f'dict {pty(t[1])}'
    if t[0] == 'adict':
        return f'list ({pty(t[1])} * {pty(t[2])})'
    if t[0] == 'opt':
        return f'option {pty(t[1])}'
    if t[0] == 'ref':
        return 'nat'
    if t[0] == 'heap':
        return 'list (option label)'
    if t[0] == 'pair':
        return f'({pty(t[1])} * {pty(t[2])})'
    raise TranslatorError(f'no Coq type for {t}')


def pty(t):
    s = coq_ty(t)
    return f'({s})' if ' ' in s and not s.startswith('(') else s


KEY_EQB = {SIG: 'py_sig_eqb', STS: 'py_sts_eqb'}

# Circuit methods -> (model function, [(parameter, type)], result type | None for a mutator, can raise)
METHODS = {
    'emplace_gate': ('emplace_gate', [('label', LABEL), ('gate_type', GTYPE), ('operands', LABELS)], None, True),
    'add_inputs': ('add_inputs', [('inputs', LABELS)], None, True),
    'set_inputs': ('set_inputs', [('inputs', LABELS)], None, True),
    'set_outputs': ('set_outputs', [('outputs', LABELS)], None, True),
    'has_gate': ('has_gate', [('label', LABEL)], BOOL, False),
    'get_gate': ('get_gate', [('label', LABEL)], GATE, True),
    'get_gates_truth_table': ('get_gates_truth_table', [], ('dict', STS), True),
}
# hook parameter of dfs -> event constructor of Model/Traverse.v
HOOKS = {'on_enter_hook': 'EvEnter', 'on_exit_hook': 'EvExit', 'unvisited_hook': 'EvUnvisited'}
REFUSED_HOOKS = ('on_discover_hook', 'on_traversal_end_hook')
LOG_LEVELS = {'debug', 'info', 'warning', 'error'}

HEADER = '''(* GENERATED by translator/t15_passes.py from cirbo/minimization/simplification/*.py.  DO NOT EDIT.
   Proofs/PassesGen*.v prove every gen_<name> equal to the hand model Model/Passes.v.

   Conventions (see the header of the translator):
   - the Circuit methods are the functions of Model/Circuit.v / Traverse.v / Eval.v (regenerated from circuit.py by
     T9 / T10 and proved equal there);
   - a nested closure is a function of the captured variables it reads, the captured mutable variables it changes
     (which it returns, followed by its result) and its parameters;
   - consume(circuit.dfs(..hooks..)) is a fold of the hooks over the event log of Traverse.traverse, in order; a Gate
     handed to a hook / yielded by top_sort is the label of the model's list together with `get_gate circuit label`;
   - a tuple (gate type, *operands) is the pair (gtype * list label); dicts keyed by tuples are association lists;
   - objects of a one-field dataclass live in a heap (list (option label)) and are referred to by index. *)
Require Import Cirbo.Model.Base Cirbo.Model.Gate Cirbo.Model.Circuit Cirbo.Model.Traverse Cirbo.Model.Eval.
Require Import Cirbo.Generated.GateTypes.

(* fixed prelude (not derived from the source): Python primitives *)
Definition py_dict_getitem {V} (d : dict V) (k : label) : res V :=                 (* d[k] *)
  match dget d k with Some v => Ok v | None => Err PyKeyError end.
Definition py_dict_get {V} (d : dict V) (k : label) (dflt : V) : V :=              (* d.get(k, dflt) *)
  match dget d k with Some v => v | None => dflt end.
(* sorted(<strings>): insertion sort by the lexicographic order of the characters (String.leb) *)
Fixpoint py_insert (x : label) (l : list label) : list label :=
  match l with
  | [] => [x]
  | y :: ys => if String.leb x y then x :: l else y :: py_insert x ys
  end.
Definition py_sorted (l : list label) : list label := fold_right py_insert [] l.
(* equality of the tuples used as dict keys *)
Definition py_sig_eqb (a b : gtype * list label) : bool :=
  gtype_beq (fst a) (fst b) && labels_eqb (snd a) (snd b).
Definition py_sts_eqb (a b : list st) : bool := all_eqb st_beq a b.
(* dicts whose keys are tuples: insertion ordered association lists *)
Fixpoint py_adict_find {K V} (eqb : K -> K -> bool) (d : list (K * V)) (k : K) : option V :=
  match d with
  | [] => None
  | (k', v) :: d' => if eqb k' k then Some v else py_adict_find eqb d' k
  end.
Definition py_adict_get {K V} (eqb : K -> K -> bool) (d : list (K * V)) (k : K) (dflt : V) : V :=
  match py_adict_find eqb d k with Some v => v | None => dflt end.                 (* d.get(k, dflt) *)
Definition py_adict_setdefault {K V} (eqb : K -> K -> bool) (d : list (K * V)) (k : K) (v : V) : list (K * V) :=
  match py_adict_find eqb d k with Some _ => d | None => d ++ [(k, v)] end.        (* d.setdefault(k, v) *)
(* collections.defaultdict(list): d[k].append(v) creates the key on first use *)
Fixpoint py_adict_append {K V} (eqb : K -> K -> bool) (d : list (K * list V)) (k : K) (v : V) : list (K * list V) :=
  match d with
  | [] => [(k, [v])]
  | (k', vs) :: d' => if eqb k' k then (k', vs ++ [v]) :: d' else (k', vs) :: py_adict_append eqb d' k v
  end.
(* tuple(map(f, xs)) for a closure f that changes captured variables: left to right *)
Fixpoint py_map_acc {S A B} (f : S -> A -> res (S * B)) (l : list A) (s : S) : res (S * list B) :=
  match l with
  | [] => Ok (s, [])
  | x :: xs => do r <- f s x; do rs <- py_map_acc f xs (fst r); Ok (fst rs, snd r :: snd rs)
  end.
(* one-field dataclass objects: cell i of the heap is the field of the i-th object created *)
Definition py_heap_alloc (h : list (option label)) : list (option label) * nat := (h ++ [None], length h).
Definition py_heap_get (h : list (option label)) (r : nat) : option label := nth r h None.
Fixpoint py_heap_set (h : list (option label)) (r : nat) (v : option label) : list (option label) :=
  match h, r with
  | [], _ => []
  | _ :: t, O => v :: t
  | x :: t, S r' => x :: py_heap_set t r' v
  end.
'''


# ---------------------------------------------------------------------------------------------- sources
class Sources:
    """parsed modules (guarded) and name resolution through the package __init__ files"""
    def __init__(self):
        self.mods = {}

    def file_of(self, dotted):
        base = repo_root() / dotted.replace('.', '/')
        if (base / '__init__.py').is_file():
            return base / '__init__.py', True
        if base.with_suffix('.py').is_file():
            return base.with_suffix('.py'), False
        return None, False

    def mod(self, dotted):
        if dotted not in self.mods:
            path, is_pkg = self.file_of(dotted)
            if path is None:
                raise TranslatorError(f'module {dotted} not found under {repo_root()}')
            try:
                tree = ast.parse(path.read_text(), filename=str(path))
            except (OSError, SyntaxError) as e:
                raise TranslatorError(f'cannot parse {path}: {e}')
            guard_module(tree)
            self.mods[dotted] = (tree, is_pkg)
        return self.mods[dotted]

    def bindings(self, dotted):
        """module-level name -> ('import', module, name) | ('module', module) | ('def', node); a name bound twice is
        refused by guard_module for defs / assignments; an import bound twice is recorded as ambiguous"""
        tree, is_pkg = self.mod(dotted)
        pkg = dotted if is_pkg else dotted.rpartition('.')[0]
        out, count = {}, {}

        def put(name, v):
            count[name] = count.get(name, 0) + 1
            out[name] = v
        for n in tree.body:
            if isinstance(n, ast.ImportFrom):
                if n.level:
                    parts = pkg.split('.')
                    if n.level - 1 > len(parts):
                        fail(n, 'relative import outside the package')
                    base = '.'.join(parts[:len(parts) - (n.level - 1)])
                    target = base + ('.' + n.module if n.module else '')
                else:
                    target = n.module
                for a in n.names:
                    if a.name == '*':
                        fail(n, 'star import')
                    put(a.asname or a.name, ('import', target, a.name))
            elif isinstance(n, ast.Import):
                for a in n.names:
                    if a.asname:
                        put(a.asname, ('module', a.name))
                    else:
                        put(a.name.split('.')[0], ('module', a.name.split('.')[0]))
            elif isinstance(n, (ast.FunctionDef, ast.ClassDef)):
                put(n.name, ('def', n))
            elif isinstance(n, ast.Assign):
                for t in n.targets:
                    if isinstance(t, ast.Name):
                        put(t.id, ('def', n))
            elif isinstance(n, ast.AnnAssign) and isinstance(n.target, ast.Name):
                put(n.target.id, ('def', n))
            elif isinstance(n, (ast.If, ast.Try, ast.With, ast.For, ast.While)):
                for s in ast.walk(n):
                    if isinstance(s, (ast.Import, ast.ImportFrom, ast.FunctionDef, ast.ClassDef, ast.Assign)):
                        fail(n, 'conditional module-level binding')
        for name, k in count.items():
            if k > 1:
                out[name] = ('ambiguous',)
        return out

    def resolve(self, dotted, name, depth=0):
        """-> ('def', module, name) | ('module', module) | None, following imports"""
        if depth > 8:
            raise TranslatorError(f'import chain too long at {dotted}.{name}')
        if not dotted.startswith('cirbo'):
            return ('external', dotted, name)
        b = self.bindings(dotted).get(name)
        if b is None:
            path, _ = self.file_of(dotted + '.' + name)
            if self.mod(dotted)[1] and path is not None:
                return ('module', dotted + '.' + name)
            return None
        if b[0] == 'def':
            return ('def', dotted, name)
        if b[0] == 'module':
            return ('module', b[1])
        if b[0] == 'import':
            r = self.resolve(b[1], b[2], depth + 1)
            if r is None:
                path, _ = self.file_of(b[1] + '.' + b[2])
                if path is not None:
                    return ('module', b[1] + '.' + b[2])
            return r
        return None


class Val:
    def __init__(self, code, ty, label=None):
        self.code, self.ty, self.label = code, ty, label


class Var:
    """kind: val (immutable value) | state (mutable variable, threaded) | fn (closure / translated function)"""
    def __init__(self, code, ty, kind, label=None, fn=None):
        self.code, self.ty, self.kind, self.label, self.fn = code, ty, kind, label, fn


class Fn:
    def __init__(self, coqname):
        self.coqname = coqname
        self.params = []        # (python name, type)
        self.reads = []         # captured names passed in, in the order of the enclosing environment
        self.writes = []        # captured mutable names passed in and returned
        self.read_tys, self.write_tys = {}, {}
        self.ret_ty = None      # UNIT when nothing is returned
        self.text = ''
        self.heap = False       # a dataclass method: (heap, self reference) first
        self.attr_params = []   # (attribute, type) of `self` read by a method: leading parameters


class Flow:
    def __init__(self, k, can_return, cont):
        self.k, self.can_return, self.cont = k, can_return, cont


HEAP = '<heap>'
YIELD = '<yield>'


def atom(code):
    if re.fullmatch(r"[\w']+", code) or (code.startswith('(') and code.endswith(')') and balanced(code)) \
            or (code.startswith('[') and code.endswith(']')):
        return code
    return f'({code})'


def balanced(code):
    d = 0
    for i, ch in enumerate(code):
        d += ch == '('
        d -= ch == ')'
        if d == 0 and i < len(code) - 1:
            return False
    return d == 0


def tuple_of(codes):
    if not codes:
        return 'tt'
    return codes[0] if len(codes) == 1 else '(' + ', '.join(codes) + ')'


def pat_of(codes, binder=False):
    if not codes:
        return '(_ : unit)' if binder else '_'
    if len(codes) == 1:
        return codes[0]
    return ("'(" if binder else "(") + ', '.join(codes) + ')'


def terminates(stmts):
    if not stmts:
        return False
    last = stmts[-1]
    if isinstance(last, (ast.Return, ast.Raise, ast.Continue)):
        return True
    if isinstance(last, ast.If):
        return terminates(last.body) and terminates(last.orelse)
    return False


# ---------------------------------------------------------------------------------------------- unit
class ModCtx:
    def __init__(self, unit, dotted):
        self.u, self.dotted = unit, dotted
        self.tree, _ = unit.src.mod(dotted)
        self.bind = unit.src.bindings(dotted)
        self.classes = {n.name: n for n in self.tree.body if isinstance(n, ast.ClassDef)}
        self.funcs = {n.name: n for n in self.tree.body if isinstance(n, ast.FunctionDef)}

    def resolves_to(self, name, want):
        return name in self.bind and self.u.src.resolve(self.dotted, name) == want

    def is_module(self, name, module):
        return self.bind.get(name) == ('module', module)

    def is_circuit_class(self, name):
        return self.resolves_to(name, ('def', 'cirbo.core.circuit.circuit', 'Circuit'))

    def is_gate_module(self, name):
        return self.resolves_to(name, ('module', 'cirbo.core.circuit.gate'))

    def dataclass(self, name):
        """a module-level @dataclasses.dataclass with exactly one field `f: tp.Optional[str] = None` -> field name"""
        c = self.classes.get(name)
        if c is None or self.bind.get(name) != ('def', c):
            return None
        if len(c.decorator_list) != 1 or ast.unparse(c.decorator_list[0]) != 'dataclasses.dataclass' \
                or not self.is_module('dataclasses', 'dataclasses') or c.bases or c.keywords:
            return None
        fields = [n for n in strip_docstring(c.body) if isinstance(n, ast.AnnAssign)]
        others = [n for n in strip_docstring(c.body) if not isinstance(n, (ast.AnnAssign, ast.FunctionDef))]
        if len(fields) != 1 or others:
            fail(c, 'a translated dataclass must have exactly one field and otherwise only methods')
        f = fields[0]
        if not (isinstance(f.target, ast.Name) and ast.unparse(f.annotation) in ('tp.Optional[str]', 'tp.Optional[Label]')
                and isinstance(f.value, ast.Constant) and f.value.value is None and self.is_module('tp', 'typing')):
            fail(f, 'the field of a translated dataclass must be `<name>: tp.Optional[str] = None`')
        for m in c.body:
            if isinstance(m, ast.FunctionDef) and (m.name.startswith('__') or m.decorator_list):
                fail(m, 'special / decorated method in a translated dataclass')
        return f.target.id


class PassUnit:
    def __init__(self):
        self.src = Sources()
        self.core = CoreUnit()          # facts about circuit.py / gate.py (trivial getters, Gate.__init__, ...)
        self.gtypes = gtype_constructors()
        self.mods = {}
        self.done = {}
        self.order = []
        self.in_progress = set()
        self.check_environment()

    def modctx(self, dotted):
        if dotted not in self.mods:
            self.mods[dotted] = ModCtx(self, dotted)
        return self.mods[dotted]

    def check_environment(self):
        cm = self.core.circuit_methods
        for name, (_model, params, _ret, _raises) in METHODS.items():
            m = cm.get(name)
            if m is None or m.decorator_list:
                raise TranslatorError(f'Circuit.{name}: not a single plain method')
            a = m.args
            got = [x.arg for x in a.args[1:]] + [x.arg for x in a.kwonlyargs]
            if a.posonlyargs or a.vararg or got != [p for p, _ in params] or a.args[0].arg != 'self':
                raise TranslatorError(f'Circuit.{name}: parameters {got} differ from {[p for p, _ in params]}')
            if a.kwarg is not None and name != 'emplace_gate':
                raise TranslatorError(f'Circuit.{name}: **kwargs')
            for d in list(a.defaults) + [d for d in a.kw_defaults if d is not None]:
                if not (isinstance(d, ast.Tuple) and not d.elts):
                    raise TranslatorError(f'Circuit.{name}: default outside grammar')
        ts = cm.get('top_sort')
        if ts is None or ts.decorator_list or [x.arg for x in ts.args.args] != ['self'] \
                or [x.arg for x in ts.args.kwonlyargs] != ['inverse'] or ts.args.vararg or ts.args.kwarg \
                or not (isinstance(ts.args.kw_defaults[0], ast.Constant) and ts.args.kw_defaults[0].value is False):
            raise TranslatorError('Circuit.top_sort: signature must be (self, *, inverse=False)')
        d = cm.get('dfs')
        if d is None or d.decorator_list or d.args.vararg or d.args.kwarg or d.args.posonlyargs:
            raise TranslatorError('Circuit.dfs: not a single plain method')
        if [x.arg for x in d.args.args] != ['self', 'start_gates'] or len(d.args.defaults) != 1 \
                or not (isinstance(d.args.defaults[0], ast.Constant) and d.args.defaults[0].value is None):
            raise TranslatorError('Circuit.dfs: positional parameters must be (self, start_gates=None)')
        self.dfs_flags = {}
        kwnames = []
        for p, dv in zip(d.args.kwonlyargs, d.args.kw_defaults):
            kwnames.append(p.arg)
            if p.arg in HOOKS or p.arg in REFUSED_HOOKS:
                if not (isinstance(dv, ast.Lambda) and isinstance(dv.body, ast.Constant) and dv.body.value is None):
                    raise TranslatorError(f'Circuit.dfs: the default of {p.arg} must be a lambda returning None')
            elif p.arg in ('inverse', 'topsort_unvisited'):
                if not (isinstance(dv, ast.Constant) and isinstance(dv.value, bool)):
                    raise TranslatorError(f'Circuit.dfs: the default of {p.arg} must be a bool')
                self.dfs_flags[p.arg] = dv.value
            else:
                raise TranslatorError(f'Circuit.dfs: unknown parameter {p.arg}')
        if sorted(kwnames) != sorted(list(HOOKS) + list(REFUSED_HOOKS) + ['inverse', 'topsort_unvisited']):
            raise TranslatorError(f'Circuit.dfs: keyword parameters {kwnames}')
        body = strip_docstring(d.body)
        want = 'return self._traverse_circuit(TraverseMode.DFS, start_gates, ' + ', '.join(
            f'{k}={k}' for k in kwnames) + ')'
        if len(body) != 1 or ast.unparse(body[0]) != want:
            raise TranslatorError('Circuit.dfs must forward its arguments to _traverse_circuit(TraverseMode.DFS, ...)')
        self.core.trivial_getter('GateType', 'is_symmetric', '_is_symmetric')

    @staticmethod
    def guard_class(cls, name):
        """the class body binds `name` exactly once, by a plain def; the class is not decorated / has no metaclass"""
        if cls.decorator_list or cls.keywords:
            fail(cls, f'class {cls.name} is decorated / has class keywords')
        k = 0
        for n in cls.body:
            if isinstance(n, (ast.FunctionDef, ast.AsyncFunctionDef, ast.ClassDef)) and n.name == name:
                k += 1
            elif isinstance(n, (ast.Assign, ast.AnnAssign, ast.AugAssign, ast.Delete)):
                tg = n.targets if isinstance(n, (ast.Assign, ast.Delete)) else [n.target]
                if any(isinstance(x, ast.Name) and x.id == name for t in tg for x in ast.walk(t)):
                    fail(n, f'{cls.name}.{name} is rebound in the class body')
            elif not isinstance(n, (ast.FunctionDef, ast.Expr, ast.Pass)):
                for x in ast.walk(n):
                    if isinstance(x, ast.Name) and x.id == name and isinstance(x.ctx, (ast.Store, ast.Del)):
                        fail(n, f'{cls.name}.{name} is rebound in the class body')
                    if isinstance(x, (ast.FunctionDef, ast.ClassDef)) and x.name == name:
                        fail(n, f'{cls.name}.{name} is defined conditionally')
        if k != 1:
            fail(cls, f'{cls.name}.{name} is not defined exactly once')

    def get(self, dotted, qual, node=None):
        key = (dotted, qual)
        if key in self.done:
            return self.done[key]
        if key not in COVERED:
            raise TranslatorError(f'{dotted}.{qual}: not in the list of T15')
        if key in self.in_progress:
            fail(node, f'recursion through {qual}')
        m = self.modctx(dotted)
        self.in_progress.add(key)
        if '.' in qual:
            cname, fname = qual.split('.')
            cls = m.classes.get(cname)
            if cls is None or m.bind.get(cname) != ('def', cls):
                raise TranslatorError(f'{dotted}: class {cname} not found')
            self.guard_class(cls, fname)
            srcs = [n for n in cls.body if isinstance(n, ast.FunctionDef) and n.name == fname]
            tr = FnTr(self, m, srcs[0], f'gen_{cname}_{fname.lstrip("_")}', 'method', cls=cls)
        else:
            src = m.funcs.get(qual)
            if src is None or m.bind.get(qual) != ('def', src):
                raise TranslatorError(f'{dotted}.{qual}: not found')
            tr = FnTr(self, m, src, f'gen_{qual.lstrip("_")}', 'function')
        fn = tr.translate()
        self.in_progress.discard(key)
        self.done[key] = fn
        return fn

    def emit(self, fn):
        self.order.append(fn.text)


# ---------------------------------------------------------------------------------------------- functions
class FnTr:
    FORBIDDEN = (ast.Yield, ast.YieldFrom, ast.Await, ast.Try, ast.With, ast.While, ast.Global, ast.Lambda,
                 ast.NamedExpr, ast.Starred, ast.AugAssign, ast.Delete, ast.Break, ast.Raise, ast.Assert,
                 ast.ClassDef, ast.Import, ast.ImportFrom, ast.AsyncFunctionDef, ast.AsyncFor, ast.Match)

    def __init__(self, unit, mod, src, coqname, kind, cls=None, outer=None, outer_env=None, dc=None):
        self.u, self.m, self.src, self.kind, self.cls = unit, mod, src, kind, cls
        self.outer, self.outer_env, self.dc = outer, outer_env, dc
        self.root = outer.root if outer is not None else self
        self.fn = Fn(coqname)
        self.tmp = 0
        self.returns = []
        self.defs = []
        self.self_py = None
        self.declared_ret = None

    # ------------------------------------------------------------ helpers
    def fresh(self):
        self.tmp += 1
        return f't{self.tmp}'

    @staticmethod
    def vname(node, name):
        if not (name.isidentifier() and name.isascii()):
            fail(node, f'name {name!r} not usable')
        return 'v_' + name

    def ann_type(self, ann, node):
        if ann is None:
            fail(node, 'parameter without annotation')
        s = ast.unparse(ann).replace("'", '').replace('"', '').replace(' ', '')
        m = self.m
        gate_cls = ('def', 'cirbo.core.circuit.gate', 'Gate')
        label_def = ('def', 'cirbo.core.circuit.gate', 'Label')
        if s == 'str':
            return LABEL
        if s == 'Label' and m.resolves_to('Label', label_def):
            return LABEL
        if s in ('gate.Label', 'gate.GateType', 'gate.Gate') and m.is_gate_module('gate'):
            return {'gate.Label': LABEL, 'gate.GateType': GTYPE, 'gate.Gate': GATE}[s]
        if s == 'tuple[Label,...]' and m.resolves_to('Label', label_def):
            return LABELS
        if s == 'Gate' and m.resolves_to('Gate', gate_cls):
            return GATE
        if s == 'Circuit' and m.is_circuit_class('Circuit'):
            return CIRCUIT
        if s == 'tp.Mapping' and m.is_module('tp', 'typing'):
            return IGNORED
        if s == 'tp.Iterable[tp.Collection[Label]]' and m.is_module('tp', 'typing') and m.resolves_to('Label', label_def):
            return LABELSS
        fail(node, f'parameter annotation outside grammar: {s}')

    def dict_ann_type(self, ann, node):
        s = ast.unparse(ann).replace(' ', '')
        if s == 'dict[Label,Label]' and self.m.resolves_to('Label', ('def', 'cirbo.core.circuit.gate', 'Label')):
            return ('dict', LABEL)
        if s == 'dict[tuple,Label]' and self.m.resolves_to('Label', ('def', 'cirbo.core.circuit.gate', 'Label')):
            return ('adict', SIG, LABEL)
        fail(node, f'dict annotation outside grammar: {s}')

    def store_count(self, name):
        """how often the outermost function binds `name` itself: its parameters, assignments, loop targets and
        nested definitions (not comprehension variables, not the parameters / locals of nested definitions: a closure
        never rebinds an enclosing name, see capture())"""
        k = 0
        skip = set()
        for n in ast.walk(self.root.src):
            if isinstance(n, ast.comprehension):
                skip |= {id(x) for x in ast.walk(n.target)}
            elif isinstance(n, ast.FunctionDef) and n is not self.root.src:
                skip |= {id(x) for x in ast.walk(n)} - {id(n)}
        for n in ast.walk(self.root.src):
            if id(n) in skip:
                continue
            if isinstance(n, ast.Name) and n.id == name and isinstance(n.ctx, (ast.Store, ast.Del)):
                k += 1
            elif isinstance(n, ast.arg) and n.arg == name:
                k += 1
            elif isinstance(n, ast.FunctionDef) and n.name == name and n is not self.root.src:
                k += 1
        return k

    # ------------------------------------------------------------ signature
    def signature(self, env):
        f, fn = self.src, self.fn
        a = f.args
        if a.posonlyargs or a.vararg or a.kwarg or a.kwonlyargs or a.defaults or f.decorator_list:
            fail(f, 'signature outside grammar')
        args = list(a.args)
        if self.kind in ('method', 'dcmethod'):
            if not args or args[0].arg != 'self':
                fail(f, 'method without self')
            self.self_py = 'self'
            args = args[1:]
            if self.kind == 'dcmethod':
                env[HEAP] = Var('heap', ('heap',), 'state')
                env['self'] = Var('v_self', ('ref', self.dc), 'val')
        seen = set()
        for p in args:
            if p.arg in seen or p.arg == 'self':
                fail(p, 'parameter bound twice')
            seen.add(p.arg)
            ty = self.ann_type(p.annotation, p)
            if ty == IGNORED:
                if any(isinstance(n, ast.Name) and n.id == p.arg for n in ast.walk(f)):
                    fail(p, f'the state mapping parameter {p.arg!r} of a hook must be unused')
                fn.params.append((p.arg, IGNORED))
                continue
            code = self.vname(p, p.arg)
            env[p.arg] = Var(code, ty, 'val', label=(code + '_label') if ty == GATE else None)
            fn.params.append((p.arg, ty))
        if f.returns is not None:
            self.declared_ret = ast.unparse(f.returns).replace(' ', '')

    def binders(self):
        fn = self.fn
        out = [f'(a_{a.lstrip("_")} : {coq_ty(ty)})' for a, ty in fn.attr_params]
        for n in fn.reads:
            out.append(f'({self.cap_code(n)} : {coq_ty(fn.read_tys[n])})')
        for n in fn.writes:
            out.append(f'({self.cap_code(n)} : {coq_ty(fn.write_tys[n])})')
        if self.kind == 'dcmethod':
            out.append('(v_self : nat)')
        for p, ty in fn.params:
            if ty == IGNORED:
                continue
            if ty == GATE:
                out.append(f'(v_{p}_label : label)')
            out.append(f'(v_{p} : {coq_ty(ty)})')
        return ' '.join(out)

    @staticmethod
    def cap_code(name):
        return 'heap' if name == HEAP else 'v_' + name

    # ------------------------------------------------------------ analysis
    def uses_heap(self, stmts, env):
        for s in stmts:
            for n in ast.walk(s):
                if isinstance(n, ast.Call):
                    f = n.func
                    if isinstance(f, ast.Name) and f.id not in env and self.m.dataclass(f.id) is not None:
                        return True
                    if isinstance(f, ast.Attribute) and self.is_dc_method(f.attr):
                        return True
                if isinstance(n, ast.Name) and n.id in env and env[n.id].kind == 'fn' \
                        and HEAP in env[n.id].fn.reads + env[n.id].fn.writes:
                    return True
        return False

    def is_dc_method(self, attr):
        for cname in self.m.classes:
            if self.m.dataclass(cname) is not None:
                if any(isinstance(x, ast.FunctionDef) and x.name == attr for x in self.m.classes[cname].body):
                    return True
        return False

    MUTATING = {'emplace_gate', 'add_inputs', 'set_inputs', 'set_outputs', 'add_gate', 'setdefault', 'append', 'extend',
                'insert', 'pop', 'remove', 'clear', 'update', 'add', 'discard', 'sort', 'reverse', 'popitem',
                'mark_as_output', 'remove_gate', 'rename_gate', 'make_block', 'connect_circuit'}

    def modset(self, stmts, env):
        """names of env that the statements may rebind or mutate (an over-approximation)"""
        out = set()

        def root(n):
            while isinstance(n, (ast.Attribute, ast.Subscript)):
                n = n.value
            return n.id if isinstance(n, ast.Name) else None
        for s in stmts:
            for n in ast.walk(s):
                if isinstance(n, (ast.Assign, ast.AnnAssign)):
                    for t in (n.targets if isinstance(n, ast.Assign) else [n.target]):
                        for x in ast.walk(t):
                            if isinstance(x, ast.Name) and isinstance(x.ctx, ast.Store):
                                out.add(x.id)
                        if isinstance(t, (ast.Subscript, ast.Attribute)):
                            r = root(t)
                            if r == 'self' and self.kind == 'dcmethod':
                                out.add(HEAP)
                            elif r is not None:
                                out.add(r)
                elif isinstance(n, ast.For):
                    for x in ast.walk(n.target):
                        if isinstance(x, ast.Name):
                            out.add(x.id)
                elif isinstance(n, ast.Call) and isinstance(n.func, ast.Attribute):
                    if n.func.attr in self.MUTATING:
                        r = root(n.func.value)
                        if r is not None:
                            out.add(r)
                    if self.is_dc_method(n.func.attr):
                        out.add(HEAP)
                elif isinstance(n, ast.Call) and isinstance(n.func, ast.Name) and n.func.id not in env \
                        and self.m.dataclass(n.func.id) is not None:
                    out.add(HEAP)
                elif isinstance(n, ast.Name) and n.id in env and env[n.id].kind == 'fn':
                    out.update(env[n.id].fn.writes)
        return [n for n in env if n in out and env[n].kind != 'fn']

    # ------------------------------------------------------------ expressions
    def lookup(self, node, env):
        v = env.get(node.id)
        if v is None:
            fail(node, 'unknown name')
        if v.kind == 'fn':
            fail(node, f'{node.id} is a function, not a value here')
        return v

    def emit_pre(self, pre):
        return [f'do {p} <- {c};' for p, c in pre]

    def pure(self, node, env, what):
        pre = []
        v = self.expr(node, env, pre)
        if pre:
            fail(node, f'{what} must not contain an operation that can raise or change a variable')
        return v

    def typed(self, node, env, pre, ty):
        v = self.expr(node, env, pre)
        if v.ty != ty:
            fail(node, f'expected {ty}, got {v.ty}')
        return v

    def gtype_const(self, node, env):
        """gate.<TYPE>"""
        if isinstance(node, ast.Attribute) and isinstance(node.value, ast.Name) and node.value.id == 'gate' \
                and 'gate' not in env and self.m.is_gate_module('gate') and node.attr in self.u.gtypes:
            return node.attr
        return None

    def expr(self, node, env, pre):
        if isinstance(node, ast.Name):
            v = self.lookup(node, env)
            if v.kind == 'state' and v.ty == CIRCUIT:
                fail(node, 'the circuit under construction may only be used through its methods')
            return Val(v.code, v.ty, v.label)
        if isinstance(node, ast.Constant):
            if node.value is True:
                return Val('true', BOOL)
            if node.value is False:
                return Val('false', BOOL)
            if type(node.value) is int and 0 <= node.value < 1000:
                return Val(str(node.value), NAT)
            fail(node, 'constant outside grammar')
        if isinstance(node, ast.Attribute):
            return self.attribute(node, env, pre)
        if isinstance(node, ast.Subscript):
            return self.subscript(node, env, pre)
        if isinstance(node, ast.Compare):
            return self.compare(node, env, pre)
        if isinstance(node, ast.UnaryOp) and isinstance(node.op, ast.Not):
            return Val(f'negb {atom(self.typed(node.operand, env, pre, BOOL).code)}', BOOL)
        if isinstance(node, ast.BoolOp):
            return self.boolop(node, env, pre)
        if isinstance(node, ast.BinOp) and isinstance(node.op, ast.Add):
            # (<gate type>,) + <labels>
            l = node.left
            if isinstance(l, ast.Tuple) and len(l.elts) == 1:
                t = self.typed(l.elts[0], env, pre, GTYPE)
                ops = self.typed(node.right, env, pre, LABELS)
                return Val(f'({t.code}, {ops.code})', SIG)
            fail(node, '`+` outside grammar')
        if isinstance(node, ast.ListComp):
            return self.comprehension(node, env, pre)
        if isinstance(node, (ast.List, ast.Tuple)) and node.elts:
            items = [atom(self.typed(e, env, pre, LABEL).code) for e in node.elts]
            return Val('[' + '; '.join(items) + ']', LABELS)
        if isinstance(node, ast.Call):
            return self.call(node, env, pre)
        fail(node, 'expression outside grammar')

    def attribute(self, node, env, pre):
        g = self.gtype_const(node, env)
        if g is not None:
            return Val(g, GTYPE)
        if isinstance(node.value, ast.Name) and node.value.id == self.self_py and self.kind == 'method' \
                and node.value.id not in env:
            return self.self_attribute(node)
        if isinstance(node.value, ast.Name) and node.value.id in env and env[node.value.id].kind == 'state' \
                and env[node.value.id].ty == CIRCUIT:
            recv = Val(env[node.value.id].code, CIRCUIT)        # reading a component of the circuit under construction
        else:
            recv = self.expr(node.value, env, pre)
        if recv.ty == CIRCUIT:
            if node.attr in ('inputs', 'outputs'):
                return Val(f'({node.attr} {atom(recv.code)})', LABELS)
            fail(node, 'circuit attribute outside grammar')
        if recv.ty == GATE:
            if node.attr == 'label':
                if recv.label is None:
                    fail(node, 'label of this gate value is not known statically')
                return Val(recv.label, LABEL)
            if node.attr == 'gate_type':
                return Val(f'(gtyp {atom(recv.code)})', GTYPE)
            if node.attr == 'operands':
                return Val(f'(gops {atom(recv.code)})', LABELS)
            fail(node, 'gate attribute outside grammar')
        if recv.ty == GTYPE and node.attr == 'is_symmetric':
            return Val(f'(is_symmetric {atom(recv.code)})', BOOL)
        if isinstance(recv.ty, tuple) and recv.ty[0] == 'ref' and self.kind == 'dcmethod' \
                and isinstance(node.value, ast.Name) and node.value.id == 'self' and node.attr == self.m.dataclass(self.dc):
            return Val(f'(py_heap_get {env[HEAP].code} {recv.code})', ('opt', LABEL))
        fail(node, 'attribute outside grammar')

    def self_attribute(self, node):
        """self.<attr> of a Transformer: the attribute must be stored exactly once, in __init__, from a bool parameter"""
        attr = node.attr
        stores = [n for n in ast.walk(self.cls) if isinstance(n, ast.Attribute) and n.attr == attr
                  and isinstance(n.ctx, (ast.Store, ast.Del))]
        init = [n for n in self.cls.body if isinstance(n, ast.FunctionDef) and n.name == '__init__']
        if len(stores) != 1 or len(init) != 1:
            fail(node, f'self.{attr} must be stored exactly once, in __init__')
        st = [s for s in init[0].body if isinstance(s, ast.Assign) and len(s.targets) == 1 and s.targets[0] is stores[0]]
        a = init[0].args
        params = {p.arg: p for p in a.args[1:] + a.kwonlyargs}
        if len(st) != 1 or not isinstance(st[0].value, ast.Name) or st[0].value.id not in params \
                or not (isinstance(stores[0].value, ast.Name) and stores[0].value.id == a.args[0].arg):
            fail(node, f'self.{attr} must be assigned from a parameter of __init__ at the top level of __init__')
        p = params[st[0].value.id]
        if p.annotation is None or ast.unparse(p.annotation) != 'bool':
            fail(node, f'the constructor parameter behind self.{attr} must be a bool')
        rebinds = [n for n in ast.walk(init[0]) if isinstance(n, ast.Name) and n.id == p.arg and isinstance(n.ctx, ast.Store)]
        if rebinds or any(isinstance(b, ast.FunctionDef) and b.name in ('__setattr__', '__getattr__', '__getattribute__')
                          for b in self.cls.body):
            fail(node, f'self.{attr}: the constructor parameter is rebound / attribute access is customised')
        if self is not self.root:
            fail(node, 'self is read inside a closure')
        if (attr, BOOL) not in self.fn.attr_params:
            self.fn.attr_params.append((attr, BOOL))
        return Val(f'a_{attr.lstrip("_")}', BOOL)

    def subscript(self, node, env, pre):
        # <module-level table>[k]
        if isinstance(node.value, ast.Name) and node.value.id not in env:
            tbl = self.u.table(self.m, node.value.id, node)
            k = self.typed(node.slice, env, pre, GTYPE)
            t = self.fresh()
            pre.append((t, f'{tbl} {atom(k.code)}'))
            return Val(t, GETTER)
        base = self.expr(node.value, env, pre)
        if isinstance(base.ty, tuple) and base.ty[0] == 'dict':
            if base.ty[1] is None:
                fail(node, 'read of a dict whose value type is not known yet')
            k = self.typed(node.slice, env, pre, LABEL)
            t = self.fresh()
            pre.append((t, f'py_dict_getitem {atom(base.code)} {atom(k.code)}'))
            return Val(t, base.ty[1])
        fail(node, 'subscript outside grammar')

    def compare(self, node, env, pre):
        if len(node.ops) != 1:
            fail(node, 'chained comparison')
        op, ln, rn = node.ops[0], node.left, node.comparators[0]
        if isinstance(op, (ast.Is, ast.IsNot)):
            if not (isinstance(rn, ast.Constant) and rn.value is None):
                fail(node, '`is` outside grammar')
            v = self.expr(ln, env, pre)
            if not (isinstance(v.ty, tuple) and v.ty[0] == 'opt'):
                fail(node, 'None test on a value that is not Optional')
            code = f'match {v.code} with None => true | Some _ => false end'
            return Val(f'({code})' if isinstance(op, ast.Is) else f'(negb ({code}))', BOOL)
        if isinstance(op, (ast.In, ast.NotIn)):
            x = self.typed(ln, env, pre, LABEL)
            c = self.expr(rn, env, pre)
            if c.ty == LABELS:
                code = f'memb {atom(x.code)} {atom(c.code)}'
            elif isinstance(c.ty, tuple) and c.ty[0] == 'dict':
                code = f'dmem {atom(c.code)} {atom(x.code)}'
            else:
                fail(node, f'membership in {c.ty}')
            return Val(code if isinstance(op, ast.In) else f'negb ({code})', BOOL)
        l = self.expr(ln, env, pre)
        r = self.expr(rn, env, pre)
        if l.ty != r.ty:
            fail(node, f'comparison of {l.ty} with {r.ty}')
        la, ra = atom(l.code), atom(r.code)
        if isinstance(op, (ast.Eq, ast.NotEq)):
            eq = {LABEL: 'leqb', GTYPE: 'gtype_beq', NAT: 'Nat.eqb'}.get(l.ty)
            if eq is None:
                fail(node, f'equality on {l.ty}')
            code = f'{eq} {la} {ra}'
            return Val(code if isinstance(op, ast.Eq) else f'negb ({code})', BOOL)
        if l.ty != NAT:
            fail(node, 'order comparison on a non-integer')
        code = {ast.Gt: f'Nat.ltb {ra} {la}', ast.GtE: f'Nat.leb {ra} {la}', ast.Lt: f'Nat.ltb {la} {ra}',
                ast.LtE: f'Nat.leb {la} {ra}'}.get(type(op))
        if code is None:
            fail(node, 'comparison outside grammar')
        return Val(code, BOOL)

    def boolop(self, node, env, pre):
        is_and = isinstance(node.op, ast.And)
        acc = self.typed(node.values[0], env, pre, BOOL)
        for nxt in node.values[1:]:
            sub = []
            v = self.typed(nxt, env, sub, BOOL)
            if sub:
                fail(nxt, 'the right operand of and / or must not raise or change a variable')
            acc = Val(f'({atom(acc.code)} {"&&" if is_and else "||"} {atom(v.code)})', BOOL)
        return acc

    def comprehension(self, node, env, pre):
        """[x for x in xs if c] -> filter / map over a list (the element and the filter are pure)"""
        if len(node.generators) != 1:
            fail(node, 'comprehension with several generators')
        g = node.generators[0]
        if g.is_async or not isinstance(g.target, ast.Name):
            fail(node, 'comprehension target')
        it = self.iterable(g.iter, env, pre)
        if it[0] != 'list':
            fail(node, 'comprehension over something that is not a list')
        _, code, ety = it
        x = g.target.id
        if x in env or self.root.store_count(x) != 0:
            fail(node, 'comprehension variable shadows a name / is also bound outside the comprehension')
        xc = self.vname(g.target, x)
        inner = dict(env)
        inner[x] = Var(xc, ety, 'val')
        for c in g.ifs:
            cv = self.pure(c, inner, 'comprehension filter')
            if cv.ty != BOOL:
                fail(c, 'comprehension filter must be a bool')
            code = f'(filter (fun {xc} => {cv.code}) {atom(code)})'
        e = self.pure(node.elt, inner, 'comprehension element')
        if e.code != xc:
            code = f'(map (fun {xc} => {e.code}) {atom(code)})'
        return Val(code, ('list', e.ty))

    def iterable(self, node, env, pre):
        """-> ('list', code, element type) | ('gates', code of a label list, circuit code) | ('items', code, K, V)"""
        if isinstance(node, ast.Call) and isinstance(node.func, ast.Attribute) and not node.args:
            f = node.func
            if f.attr in ('items', 'values') and not node.keywords:
                d = self.expr(f.value, env, pre)
                if isinstance(d.ty, tuple) and d.ty[0] in ('dict', 'adict'):
                    kty, vty = (LABEL, d.ty[1]) if d.ty[0] == 'dict' else (d.ty[1], d.ty[2])
                    if kty is None or vty is None or (isinstance(vty, tuple) and None in vty):
                        fail(node, 'iteration over a dict whose types are not known yet')
                    if f.attr == 'items':
                        return ('items', d.code, kty, vty)
                    return ('list', f'(map snd {atom(d.code)})', vty)
                fail(node, f'{f.attr}() of a non-dict')
            if f.attr == 'top_sort' and isinstance(f.value, ast.Name) and f.value.id in env \
                    and env[f.value.id].ty == CIRCUIT and env[f.value.id].kind == 'val':
                inverse = 'false'
                for k in node.keywords:
                    if k.arg != 'inverse':
                        fail(node, 'top_sort keyword outside grammar')
                    inverse = self.pure(k.value, env, 'inverse').code
                c = env[f.value.id].code
                t = self.fresh()
                pre.append((t, f'top_sort {inverse} {c}'))
                return ('gates', t, c)
        v = self.expr(node, env, pre)
        if isinstance(v.ty, tuple) and v.ty[0] == 'list':
            return ('list', v.code, v.ty[1])
        fail(node, f'iteration over {v.ty}')

    # ------------------------------------------------------------ calls
    def not_mutable(self, node, env):
        if isinstance(node, ast.Name) and node.id in env and env[node.id].kind == 'state':
            fail(node, f'the mutable variable {node.id} may not be passed, stored or bound to a second name')

    def builtin(self, name, env):
        return name not in env and name not in self.m.bind and name not in self.m.funcs

    def closure_arg(self, node, env):
        """a Name that denotes a closure -> Fn | None"""
        if isinstance(node, ast.Name) and node.id in env and env[node.id].kind == 'fn':
            return env[node.id].fn
        return None

    def fn_app(self, fn, env, node):
        """`<coqname> <attribute parameters> <reads>` and the list of write codes"""
        parts = [fn.coqname]
        for n in fn.reads + fn.writes:
            if n not in env:
                fail(node, f'{n} is not bound where the closure is used')
            if n in fn.writes and env[n].kind != 'state':
                fail(node, f'the closure changes {n}, which is read-only here')
        parts += [env[n].code for n in fn.reads]
        return ' '.join(parts), [env[n].code for n in fn.writes]

    def call_fn(self, fn, args, env, pre, node, drop=False):
        """call of a closure / dataclass method / translated function with evaluated arguments -> Val | None"""
        head, wcodes = self.fn_app(fn, env, node)
        want = [(p, ty) for p, ty in fn.params]
        if any(ty == IGNORED for _, ty in want):
            fail(node, 'a traversal hook may only be handed to dfs')
        if len(args) != len(want):
            fail(node, 'number of arguments')
        acodes = []
        for (p, ty), v in zip(want, args):
            if v.ty != ty:
                fail(node, f'argument {p}: expected {ty}, got {v.ty}')
            if ty == GATE:
                if v.label is None:
                    fail(node, 'label of the gate argument is not known statically')
                acodes.append(atom(v.label))
            acodes.append(atom(v.code))
        code = ' '.join([head] + wcodes + acodes)
        self.resolve_written(fn, env)
        if fn.ret_ty == UNIT:
            pre.append((pat_of(wcodes) if wcodes else '_', code))
            return None
        t = '_' if drop else self.fresh()
        pre.append((pat_of(wcodes + [t]) if wcodes else t, code))
        return Val(t, fn.ret_ty)

    def resolve_written(self, fn, env):
        """a callee may fix the value type of a dict that was created untyped"""
        for n in fn.writes:
            if env[n].ty != fn.write_tys[n]:
                env[n] = Var(env[n].code, fn.write_tys[n], 'state')

    def map_call(self, node, env, pre):
        """map(f, xs) for a closure f of one parameter -> list Val"""
        if len(node.args) != 2 or node.keywords:
            fail(node, 'map(...) outside grammar')
        fn = self.closure_arg(node.args[0], env)
        if fn is None:
            fail(node, 'map over something that is not a local closure')
        xs = self.expr(node.args[1], env, pre)
        params = [(p, ty) for p, ty in fn.params]
        if len(params) != 1 or params[0][1] in (IGNORED, GATE) or xs.ty != ('list', params[0][1]) or fn.ret_ty == UNIT:
            fail(node, 'map(f, xs): f must take one element of xs and return a value')
        head, wcodes = self.fn_app(fn, env, node)
        t = self.fresh()
        if not wcodes:
            pre.append((t, f'mapM ({head}) {atom(xs.code)}'))
        else:
            pre.append((pat_of([tuple_of(wcodes), t]) if len(wcodes) > 1 else pat_of(wcodes + [t]),
                        f'py_map_acc (fun {pat_of(wcodes, True) if len(wcodes) > 1 else wcodes[0]} x_ => {head} '
                        f'{" ".join(wcodes)} x_) {atom(xs.code)} {tuple_of(wcodes)}'))
        return Val(t, ('list', fn.ret_ty))

    def call(self, node, env, pre):
        f = node.func
        if isinstance(f, ast.Name) and self.builtin(f.id, env):
            if f.id == 'len' and len(node.args) == 1 and not node.keywords:
                v = self.expr(node.args[0], env, pre)
                if not (isinstance(v.ty, tuple) and v.ty[0] == 'list'):
                    fail(node, f'len of {v.ty}')
                return Val(f'length {atom(v.code)}', NAT)
            if f.id in ('tuple', 'list') and len(node.args) == 1 and not node.keywords:
                a = node.args[0]
                if isinstance(a, ast.Call) and isinstance(a.func, ast.Name) and a.func.id == 'map' \
                        and self.builtin('map', env):
                    return self.map_call(a, env, pre)
                v = self.expr(a, env, pre)
                if isinstance(v.ty, tuple) and v.ty[0] == 'list':
                    return Val(v.code, v.ty)                # a copy of an immutable list value
                fail(node, f'{f.id}(...) of {v.ty}')
            if f.id == 'sorted' and len(node.args) == 1 and not node.keywords:
                v = self.typed(node.args[0], env, pre, LABELS)
                return Val(f'(py_sorted {atom(v.code)})', LABELS)
            fail(node, 'call of an unknown function')
        # <table>[k](xs): operator.itemgetter(i) applied to a tuple
        if isinstance(f, ast.Subscript):
            g = self.expr(f, env, pre)
            if g.ty != GETTER or len(node.args) != 1 or node.keywords:
                fail(node, 'call of a subscripted value outside grammar')
            xs = self.expr(node.args[0], env, pre)
            if not (isinstance(xs.ty, tuple) and xs.ty[0] == 'list'):
                fail(node, 'itemgetter applied to something that is not a tuple')
            t = self.fresh()
            pre.append((t, f'nth_res {atom(xs.code)} {g.code}'))
            return Val(t, xs.ty[1])
        # closures and translated module-level functions
        if isinstance(f, ast.Name):
            fn = self.closure_arg(f, env)
            if fn is None and f.id not in env and f.id in self.m.funcs and self.m.bind.get(f.id) == ('def', self.m.funcs[f.id]):
                fn = self.u.get(self.m.dotted, f.id, node)
            if fn is None:
                fail(node, 'call outside grammar')
            if node.keywords:
                fail(node, 'keyword arguments in a call of a local function')
            args = []
            for a in node.args:
                self.not_mutable(a, env)
                args.append(self.expr(a, env, pre))
            v = self.call_fn(fn, args, env, pre, node)
            if v is None:
                fail(node, 'value of a function that returns nothing')
            return v
        if isinstance(f, ast.Attribute):
            # d.get(k, dflt)
            if f.attr == 'get' and len(node.args) == 2 and not node.keywords:
                d = self.expr(f.value, env, pre)
                if isinstance(d.ty, tuple) and d.ty[0] == 'dict' and d.ty[1] is not None:
                    k = self.typed(node.args[0], env, pre, LABEL)
                    dv = self.typed(node.args[1], env, pre, d.ty[1])
                    return Val(f'(py_dict_get {atom(d.code)} {atom(k.code)} {atom(dv.code)})', d.ty[1])
                if isinstance(d.ty, tuple) and d.ty[0] == 'adict' and d.ty[1] in KEY_EQB and d.ty[2] is not None:
                    k = self.typed(node.args[0], env, pre, d.ty[1])
                    dv = self.typed(node.args[1], env, pre, d.ty[2])
                    return Val(f'(py_adict_get {KEY_EQB[d.ty[1]]} {atom(d.code)} {atom(k.code)} {atom(dv.code)})', d.ty[2])
                fail(node, 'get() outside grammar')
            # methods of a circuit
            if isinstance(f.value, ast.Name) and f.value.id in env and env[f.value.id].ty == CIRCUIT:
                return self.circuit_call(node, env, pre, want_value=True)
            # methods of a dataclass object
            recv = self.expr(f.value, env, pre)
            if isinstance(recv.ty, tuple) and recv.ty[0] == 'ref':
                fn = self.u.dc_method(self.m, recv.ty[1], f.attr, node)
                if node.keywords:
                    fail(node, 'keyword arguments')
                if HEAP not in env:
                    fail(node, 'no heap here')
                args = [self.expr(a, env, pre) for a in node.args]
                head = f'{fn.coqname} {env[HEAP].code} {atom(recv.code)}'
                acodes = []
                for (p, ty), v in zip(fn.params, args):
                    if v.ty != ty:
                        fail(node, f'argument {p}: expected {ty}, got {v.ty}')
                    acodes.append(atom(v.code))
                if len(args) != len(fn.params):
                    fail(node, 'number of arguments')
                t = self.fresh()
                if fn.ret_ty == UNIT:
                    fail(node, 'value of a method that returns nothing')
                pre.append((pat_of([env[HEAP].code, t]), ' '.join([head] + acodes)))
                return Val(t, fn.ret_ty)
        fail(node, 'call outside grammar')

    def circuit_call(self, node, env, pre, want_value):
        f = node.func
        var = env[f.value.id]
        meth = METHODS.get(f.attr)
        if meth is None:
            fail(node, f'Circuit.{f.attr} is not in the list of methods of T15')
        model, params, ret, raises = meth
        given = {}
        if len(node.args) > len(params):
            fail(node, 'too many arguments')
        for (p, _ty), a in zip(params, node.args):
            given[p] = a
        for k in node.keywords:
            if k.arg is None or k.arg in given or k.arg not in [p for p, _ in params]:
                fail(node, 'keyword argument outside grammar')
            given[k.arg] = k.value
        codes = {}
        for p in sorted(given, key=lambda p: (given[p].lineno, given[p].col_offset)):
            ty = dict(params)[p]
            self.not_mutable(given[p], env)
            codes[p] = atom(self.typed(given[p], env, pre, ty).code)
        argl = []
        for p, ty in params:
            if p not in codes:
                if ty == LABELS and f.attr == 'emplace_gate':
                    codes[p] = '[]'         # the default () of `operands` (checked in check_environment)
                else:
                    fail(node, f'missing argument {p}')
            argl.append(codes[p])
        code = ' '.join([model, var.code] + argl)
        if ret is None:
            if want_value:
                fail(node, 'value of a mutator')
            if var.kind != 'state':
                fail(node, 'mutator call on a read-only circuit')
            pre.append((var.code, code))
            return None
        if not want_value:
            fail(node, 'statement without effect')
        if raises:
            t = self.fresh()
            pre.append((t, code))
            return Val(t, ret, label=argl[0] if ret == GATE else None)
        return Val(f'({code})', ret)

    # ------------------------------------------------------------ statements
    def stmts(self, body, env, fl):
        if not body:
            return fl.k(env)
        s, rest = body[0], body[1:]
        flr = Flow(lambda e: self.stmts(rest, e, fl), fl.can_return, fl.cont) if rest else fl
        if isinstance(s, ast.Pass):
            return flr.k(env)
        if isinstance(s, ast.Expr) and isinstance(s.value, ast.Constant) and isinstance(s.value.value, str):
            return flr.k(env)
        if isinstance(s, ast.Nonlocal):
            for n in s.names:
                if self.outer is None or n not in self.outer_env or self.outer_env[n].kind == 'fn':
                    fail(s, f'nonlocal {n}: not a variable of the enclosing function')
            return flr.k(env)
        if isinstance(s, ast.Return):
            if rest:
                fail(rest[0], 'unreachable statement after return')
            return self.return_(s, env, fl)
        if isinstance(s, ast.Continue):
            if rest:
                fail(rest[0], 'unreachable statement after continue')
            if fl.cont is None:
                fail(s, 'continue outside a loop body (or inside a joined branch)')
            return fl.cont(env)
        if isinstance(s, ast.If):
            return self.if_(s, rest, env, fl)
        if isinstance(s, ast.For):
            return self.for_(s, env, flr)
        if isinstance(s, ast.FunctionDef):
            return self.closure(s, env, flr)
        if isinstance(s, (ast.Assign, ast.AnnAssign)):
            return self.assign(s, env, flr)
        if isinstance(s, ast.Expr) and isinstance(s.value, ast.Call):
            return self.call_stmt(s.value, env, flr)
        fail(s, 'statement outside grammar')

    def wcodes(self, env):
        return [env[n].code for n in self.fn.writes]

    def final(self, env, val=None):
        codes = self.wcodes(env) + ([atom(val.code)] if val is not None else [])
        return f'Ok {atom(tuple_of(codes))}' if codes else 'Ok tt'

    def return_(self, s, env, fl):
        if not fl.can_return:
            fail(s, 'return inside a loop or inside a branch that is joined')
        v = s.value
        if v is None or (isinstance(v, ast.Constant) and v.value is None):
            self.returns.append(None)
            return self.final(env)
        if isinstance(v, ast.Name) and v.id in env and env[v.id].kind == 'state' and self.outer is None \
                and self.kind != 'dcmethod' and v.id != HEAP:
            # the function hands out the object it has built
            var = env[v.id]
            self.returns.append(Val(var.code, var.ty))
            return f'Ok {var.code}'
        pre = []
        self.not_mutable(v, env)
        val = self.expr(v, env, pre)
        if self.kind == 'dcmethod' and val.ty == ('opt', LABEL) and self.declared_ret == 'str':
            # a None where a str is declared cannot be a label of the model
            t = self.fresh()
            pre.append((t, f'match {val.code} with Some x_ => Ok x_ | None => Err PyTypeError end'))
            val = Val(t, LABEL)
        self.returns.append(val)
        if pre and not self.fn.writes and pre[-1][0] == val.code:
            return '\n'.join(self.emit_pre(pre[:-1]) + [pre[-1][1]])        # `do t <- m; Ok t` ==> m
        return '\n'.join(self.emit_pre(pre) + [self.final(env, val)])

    def if_(self, s, rest, env, fl):
        pre = []
        c = self.typed(s.test, env, pre, BOOL)
        t_term, e_term = terminates(s.body), terminates(s.orelse)
        krest = Flow(lambda e: self.stmts(rest, e, fl), fl.can_return, fl.cont) if rest else fl
        if t_term or e_term or not rest:
            tcode = self.stmts(s.body, dict(env), krest)
            ecode = self.stmts(s.orelse, dict(env), krest)
            return '\n'.join(self.emit_pre(pre) + [f'if {c.code} then', ind(tcode), 'else', ind(ecode)])
        # both branches fall through and something follows: join on the variables they modify
        names = self.modset(s.body + s.orelse, env)
        ends = []

        def jemit(e):
            ends.append(e)
            return f'Ok {atom(tuple_of([e[n].code for n in names]))}' if names else 'Ok tt'
        kb = Flow(jemit, False, None)
        tcode = self.stmts(s.body, dict(env), kb)
        ecode = self.stmts(s.orelse, dict(env), kb)
        env2 = dict(env)
        for n in names:
            tys = {repr(e[n].ty) for e in ends}
            kinds = {e[n].kind for e in ends}
            if len(tys) != 1 or len(kinds) != 1:
                fail(s, f'{n} has different types at the end of the branches')
            env2[n] = Var(env[n].code, ends[0][n].ty, ends[0][n].kind, None)
        term = '\n'.join([f'if {c.code} then', ind(tcode), 'else', ind(ecode)])
        pat = pat_of([env[n].code for n in names])
        return '\n'.join(self.emit_pre(pre) + [f'do {pat} <- {paren(term)};', krest.k(env2)])

    def for_(self, s, env, flr):
        if s.orelse:
            fail(s, 'for ... else')
        pre = []
        it = self.iterable(s.iter, env, pre)
        tg = s.target
        binds = {}
        if it[0] == 'items':
            if not (isinstance(tg, ast.Tuple) and len(tg.elts) == 2 and all(isinstance(e, ast.Name) for e in tg.elts)
                    and tg.elts[0].id != tg.elts[1].id):
                fail(s, 'loop over items() must bind `k, v`')
            xc = 'kv_'
            binds[tg.elts[0].id] = (f'(fst {xc})', it[2])
            binds[tg.elts[1].id] = (f'(snd {xc})', it[3])
            lst = it[1]
        else:
            if not isinstance(tg, ast.Name):
                fail(s, 'loop target outside grammar')
            xc = self.vname(tg, tg.id)
            lst = it[1]
            if it[0] == 'list':
                binds[tg.id] = (xc, it[2])
        for x in binds if it[0] != 'gates' else [tg.id]:
            if x in env or self.root.store_count(x) != 1:
                fail(s, f'loop variable {x} shadows a name / is bound elsewhere')
        names = self.modset(s.body, env)
        for n in names:
            if env[n].kind != 'state' and n not in self.rebindable(env):
                fail(s, f'the loop body modifies {n}, which is not a mutable variable')

        def run(env0):
            e = dict(env0)
            head = []
            if it[0] == 'gates':
                xl = xc + '_label'
                head.append(f'do {xc} <- get_gate {it[2]} {xl};')
                e[tg.id] = Var(xc, GATE, 'val', label=xl)
            else:
                for x, (code, ty) in binds.items():
                    vc = self.vname(s, x)
                    if code != vc:
                        head.append(f'let {vc} := {code} in')
                    e[x] = Var(vc, ty, 'val')
            ends = []

            def kemit(e2):
                ends.append(e2)
                return f'Ok {atom(tuple_of([e2[n].code for n in names]))}' if names else 'Ok tt'
            body = self.stmts(s.body, e, Flow(kemit, False, kemit))
            return '\n'.join(head + [body]), ends
        # dry run: a dict created untyped may get its value type inside the body
        saved = (self.tmp, list(self.returns), list(self.defs))
        _, ends = run(env)
        self.tmp, self.returns, self.defs = saved
        env1 = dict(env)
        for n in names:
            tys = {repr(e[n].ty): e[n].ty for e in ends}
            known = {r: t for r, t in tys.items() if 'None' not in r}
            if len(known) > 1 or (not known and len(tys) > 1):
                fail(s, f'{n} has different types at the ends of the loop body')
            ty = list(known.values())[0] if known else list(tys.values())[0]
            if ty != env[n].ty:
                env1[n] = Var(env[n].code, ty, env[n].kind)
        body, ends = run(env1)
        for n in names:
            if any(repr(e[n].ty) != repr(env1[n].ty) or e[n].kind != env1[n].kind for e in ends):
                fail(s, f'{n} changes type inside the loop')
        binder = (xc + '_label') if it[0] == 'gates' else xc
        init = tuple_of([env1[n].code for n in names])
        loop = '\n'.join([f'foldM (fun {pat_of([env1[n].code for n in names], True)} {binder} =>', ind(body, 4) + ')',
                          f'  {atom(lst)} {init}'])
        pat = pat_of([env1[n].code for n in names])
        return '\n'.join(self.emit_pre(pre) + [f'do {pat} <-', ind(loop) + ';', flr.k(env1)])

    def rebindable(self, env):
        """immutable locals (not parameters of a hook, not captured): they may be rebound, a loop / join carries them"""
        return [n for n, v in env.items() if v.kind == 'val' and n not in getattr(self, 'captured', ())]

    def closure(self, s, env, flr):
        if s.name in env or self.root.store_count(s.name) != 1:
            fail(s, 'closure shadows a name / is defined twice')
        if self.outer is not None:
            fail(s, 'closure inside a closure')
        sub = FnTr(self.u, self.m, s, f'{self.fn.coqname}_{s.name.lstrip("_")}', 'closure', outer=self, outer_env=env)
        fn = sub.translate()
        self.defs.append(fn.text)
        env2 = dict(env)
        env2[s.name] = Var('', UNIT, 'fn', fn=fn)
        return flr.k(env2)

    def assign(self, s, env, flr):
        if isinstance(s, ast.Assign):
            if len(s.targets) != 1:
                fail(s, 'multiple assignment')
            tgt, val, ann = s.targets[0], s.value, None
        else:
            tgt, val, ann = s.target, s.value, s.annotation
            if val is None:
                fail(s, 'annotation without value')
        pre = []
        if isinstance(tgt, ast.Name):
            name = tgt.id
            code = self.vname(tgt, name)
            if name in env and env[name].kind in ('state', 'fn'):
                fail(s, f'rebinding of {name}')
            if name in getattr(self, 'captured', ()) or (self.outer_env is not None and name in self.outer_env
                                                          and name not in env):
                fail(s, f'assignment to the enclosing name {name} inside a closure')
            new = self.new_mutable(val, ann, env, s)
            if new is not None:
                if self.store_count(name) != 1 or self.outer is not None:
                    fail(s, f'the mutable variable {name} must be bound exactly once, at the top level of a function')
                init, ty = new
                env2 = dict(env)
                if init is None:                        # a dataclass object
                    env2[name] = Var(code, ty, 'val')
                    h = env[HEAP].code
                    return '\n'.join([f"let '({h}, {code}) := py_heap_alloc {h} in", flr.k(env2)])
                env2[name] = Var(code, ty, 'state')
                return '\n'.join([f'let {code} := {init} in', flr.k(env2)])
            if ann is not None:
                fail(s, 'annotated assignment outside grammar')
            self.not_mutable(val, env)
            v = self.expr(val, env, pre)
            if v.ty == UNIT or (isinstance(v.ty, tuple) and v.ty[0] == 'heap'):
                fail(s, 'value outside grammar')        # (an immutable local: it can be read, never mutated)
            if name in env and repr(env[name].ty) != repr(v.ty):
                fail(s, f'{name} is rebound at a different type')
            env2 = dict(env)
            env2[name] = Var(code, v.ty, 'val', v.label)
            return '\n'.join(self.emit_pre(pre) + [f'let {code} := {v.code} in', flr.k(env2)])
        if isinstance(tgt, ast.Subscript) and isinstance(tgt.value, ast.Name) and tgt.value.id in env:
            # d[k] = v   (Python evaluates the value first, then the key)
            d = env[tgt.value.id]
            if d.kind != 'state' or not (isinstance(d.ty, tuple) and d.ty[0] == 'dict'):
                fail(s, 'item assignment on something that is not a local dict')
            self.not_mutable(val, env)
            v = self.expr(val, env, pre)
            k = self.typed(tgt.slice, env, pre, LABEL)
            vty = d.ty[1]
            if vty is None:
                if not (v.ty in (LABEL,) or (isinstance(v.ty, tuple) and v.ty[0] == 'ref')):
                    fail(s, f'value of type {v.ty} stored into an untyped dict')
                vty = v.ty
            if v.ty != vty:
                fail(s, f'value of type {v.ty} stored into a dict of {vty}')
            env2 = dict(env)
            env2[tgt.value.id] = Var(d.code, ('dict', vty), 'state')
            return '\n'.join(self.emit_pre(pre) + [f'let {d.code} := dset {d.code} {atom(k.code)} {atom(v.code)} in',
                                                    flr.k(env2)])
        if isinstance(tgt, ast.Attribute) and self.kind == 'dcmethod' and isinstance(tgt.value, ast.Name) \
                and tgt.value.id == 'self' and tgt.attr == self.m.dataclass(self.dc):
            v = self.typed(val, env, pre, LABEL)
            h = env[HEAP].code
            return '\n'.join(self.emit_pre(pre) + [f'let {h} := py_heap_set {h} {env["self"].code} (Some {atom(v.code)}) in',
                                                    flr.k(env)])
        fail(s, 'assignment target outside grammar')

    def new_mutable(self, val, ann, env, node):
        """the right-hand sides that create a mutable object -> (initial value | None, type) | None"""
        if isinstance(val, ast.Call) and isinstance(val.func, ast.Name) and not val.args and not val.keywords \
                and val.func.id not in env:
            if self.m.is_circuit_class(val.func.id):
                if ann is not None:
                    fail(node, 'annotated Circuit()')
                return 'empty_circuit', CIRCUIT
            if self.m.dataclass(val.func.id) is not None:
                if HEAP not in env:
                    fail(node, 'no heap here')
                return None, ('ref', val.func.id)
        if isinstance(val, ast.Dict) and not val.keys:
            return '[]', (self.dict_ann_type(ann, node) if ann is not None else ('dict', None))
        if isinstance(val, ast.Call) and ast.unparse(val) == 'collections.defaultdict(list)' \
                and self.m.is_module('collections', 'collections') and 'collections' not in env:
            return '[]', ('adict', None, ('list', None))
        return None

    def call_stmt(self, call, env, flr):
        f = call.func
        pre = []
        # more_itertools.consume(<circuit>.dfs(...))
        if isinstance(f, ast.Attribute) and isinstance(f.value, ast.Name) and f.value.id == 'more_itertools' \
                and 'more_itertools' not in env and f.attr == 'consume':
            if not self.m.is_module('more_itertools', 'more_itertools') or len(call.args) != 1 or call.keywords:
                fail(call, 'consume(...) outside grammar')
            return self.traversal(call.args[0], env, flr)
        # logger.<level>(...)
        if isinstance(f, ast.Attribute) and isinstance(f.value, ast.Name) and f.value.id == 'logger' \
                and 'logger' not in env and f.attr in LOG_LEVELS:
            b = self.m.bind.get('logger')
            if not (b and b[0] == 'def' and isinstance(b[1], ast.Assign)
                    and ast.unparse(b[1].value) == 'logging.getLogger(__name__)' and self.m.is_module('logging', 'logging')):
                fail(call, 'logger is not logging.getLogger(__name__)')
            if call.keywords:
                fail(call, 'logger keywords')
            for a in call.args:
                if not isinstance(a, (ast.JoinedStr, ast.Constant)):
                    fail(call, 'logger argument outside grammar')
                for n in ast.walk(a):
                    if isinstance(n, ast.FormattedValue):
                        self.pure(n.value, env, 'logged value')
            return flr.k(env)
        if isinstance(f, ast.Attribute) and isinstance(f.value, ast.Name) and f.value.id in env:
            recv = env[f.value.id]
            if recv.ty == CIRCUIT:
                self.circuit_call(call, env, pre, want_value=False)
                return '\n'.join(self.emit_pre(pre) + [flr.k(env)])
            if f.attr == 'setdefault' and isinstance(recv.ty, tuple) and recv.ty[0] == 'adict' and recv.kind == 'state' \
                    and recv.ty[1] in KEY_EQB and len(call.args) == 2 and not call.keywords:
                k = self.typed(call.args[0], env, pre, recv.ty[1])
                self.not_mutable(call.args[1], env)
                v = self.typed(call.args[1], env, pre, recv.ty[2])
                line = (f'let {recv.code} := py_adict_setdefault {KEY_EQB[recv.ty[1]]} {recv.code} {atom(k.code)} '
                        f'{atom(v.code)} in')
                return '\n'.join(self.emit_pre(pre) + [line, flr.k(env)])
        # <defaultdict>[k].append(v)
        if isinstance(f, ast.Attribute) and f.attr == 'append' and isinstance(f.value, ast.Subscript) \
                and isinstance(f.value.value, ast.Name) and f.value.value.id in env and len(call.args) == 1 \
                and not call.keywords:
            name = f.value.value.id
            d = env[name]
            if d.kind != 'state' or not (isinstance(d.ty, tuple) and d.ty[0] == 'adict' and d.ty[2][0] == 'list'):
                fail(call, 'append through a subscript of something that is not a local defaultdict(list)')
            k = self.expr(f.value.slice, env, pre)
            self.not_mutable(call.args[0], env)
            v = self.expr(call.args[0], env, pre)
            kty, ety = d.ty[1] or k.ty, d.ty[2][1] or v.ty
            if k.ty != kty or v.ty != ety or kty not in KEY_EQB or ety != LABEL:
                fail(call, f'defaultdict(list): key {k.ty} / element {v.ty} outside grammar')
            env2 = dict(env)
            env2[name] = Var(d.code, ('adict', kty, ('list', ety)), 'state')
            line = f'let {d.code} := py_adict_append {KEY_EQB[kty]} {d.code} {atom(k.code)} {atom(v.code)} in'
            return '\n'.join(self.emit_pre(pre) + [line, flr.k(env2)])
        # closure / function / method call whose value is dropped
        if isinstance(f, ast.Name):
            fn = self.closure_arg(f, env)
            if fn is None:
                fail(call, 'call statement outside grammar')
            if call.keywords:
                fail(call, 'keyword arguments in a call of a local function')
            args = []
            for a in call.args:
                self.not_mutable(a, env)
                args.append(self.expr(a, env, pre))
            self.call_fn(fn, args, env, pre, call, drop=True)
            return '\n'.join(self.emit_pre(pre) + [flr.k(env)])
        fail(call, 'call statement outside grammar')

    def traversal(self, node, env, flr):
        """consume(<circuit>.dfs(<starts>, hooks, flags)): see `The traversal idiom` in the header"""
        ok = (isinstance(node, ast.Call) and isinstance(node.func, ast.Attribute) and node.func.attr == 'dfs'
              and isinstance(node.func.value, ast.Name) and node.func.value.id in env)
        if not ok:
            fail(node, 'consume(...) of something that is not <circuit>.dfs(...)')
        cv = env[node.func.value.id]
        if cv.ty != CIRCUIT or cv.kind != 'val':
            fail(node, 'the traversed circuit must be a read-only circuit value')
        c = cv.code
        pre = []
        starts = None
        if len(node.args) > 1:
            fail(node, 'dfs: too many positional arguments')
        if node.args:
            starts = node.args[0]
        flags = {k: ('true' if v else 'false') for k, v in self.u.dfs_flags.items()}
        hooks = {}
        for k in node.keywords:
            if k.arg == 'start_gates' and starts is None:
                starts = k.value
            elif k.arg in flags:
                v = self.pure(k.value, env, 'a traversal flag')
                if v.ty != BOOL:
                    fail(k.value, 'traversal flag must be a bool')
                flags[k.arg] = atom(v.code)
            elif k.arg in HOOKS and k.arg not in hooks:
                fn = self.closure_arg(k.value, env)
                if fn is None:
                    fail(k.value, 'a traversal hook must be a local closure')
                if [ty for _, ty in fn.params] != [GATE, IGNORED] or fn.ret_ty != UNIT:
                    fail(k.value, 'a traversal hook must take (gate, state mapping) and return nothing')
                hooks[k.arg] = fn
            else:
                fail(k.value, f'dfs argument {k.arg!r} outside grammar')
        scode = 'None'
        if starts is not None and not (isinstance(starts, ast.Constant) and starts.value is None):
            scode = f'(Some {atom(self.typed(starts, env, pre, LABELS).code)})'
        log = self.fresh()
        pre.append((log if hooks else '_', f'traverse DFS {flags["inverse"]} {c} {scode} {flags["topsort_unvisited"]} no_abort'))
        if not hooks:
            return '\n'.join(self.emit_pre(pre) + [flr.k(env)])
        names = [n for n in env if any(n in fn.writes for fn in hooks.values())]
        carried = [env[n].code for n in names]
        ok_carried = f'Ok {atom(tuple_of(carried))}'
        arms = []
        for hp, ev in HOOKS.items():
            if hp not in hooks:
                continue
            fn = hooks[hp]
            head, wcodes = self.fn_app(fn, env, node)
            app = ' '.join([head] + wcodes + ['l_', 'g_'])
            if fn.writes == names:
                body = app
            else:
                body = f'do {pat_of(wcodes) if wcodes else "_"} <- {app}; {ok_carried}'
            arms.append(f'| {ev} l_ => do g_ <- get_gate {c} l_; {body}')
            self.resolve_written(fn, env)
        arms.append(f'| _ => {ok_carried}')
        fold = '\n'.join([f'foldM (fun {pat_of(carried, True)} ev_ =>', '    match ev_ with'] + [ind(a, 4) for a in arms]
                         + ['    end)', f'  {log} {tuple_of(carried)}'])
        return '\n'.join(self.emit_pre(pre) + [f'do {pat_of(carried)} <-', ind(fold) + ';', flr.k(env)])

    # ------------------------------------------------------------ whole function
    def capture(self, env):
        """closure: bind the captured variables of the enclosing function; -> ordered list of captured variables"""
        f, oenv = self.src, self.outer_env
        params = {a.arg for a in f.args.args}
        body = strip_docstring(f.body)
        loaded, stored = set(), set()
        for st in body:
            for n in ast.walk(st):
                if isinstance(n, ast.Name):
                    (stored if isinstance(n.ctx, (ast.Store, ast.Del)) else loaded).add(n.id)
                elif isinstance(n, ast.FunctionDef):
                    fail(n, 'definition inside a closure')
        for n in sorted(stored | params):
            if n in oenv:
                fail(f, f'the closure rebinds / shadows the enclosing name {n}')
        fns = [oenv[n].fn for n in oenv if n in loaded and oenv[n].kind == 'fn']
        heap = HEAP in oenv and self.uses_heap(body, oenv)
        cap = []
        for n, v in oenv.items():
            if v.kind == 'fn':
                if n in loaded:
                    env[n] = v
                continue
            used = (n in loaded) or (n == HEAP and heap) or any(n in g.reads + g.writes for g in fns)
            if not used:
                continue
            if n != HEAP and self.root.store_count(n) != 1:
                fail(f, f'the captured name {n} is bound more than once in the enclosing function')
            if isinstance(v.ty, tuple) and (None in v.ty or (isinstance(v.ty[-1], tuple) and None in v.ty[-1])):
                fail(f, f'the type of the captured dict {n} is not known where the closure is defined')
            cap.append(n)
            env[n] = Var(self.cap_code(n), v.ty, v.kind, label=(self.cap_code(n) + '_label') if v.label else None)
            if v.label:
                fail(f, 'a Gate object is captured by a closure')
        self.captured = cap
        return cap

    def translate(self):
        f, fn = self.src, self.fn
        for n in ast.walk(f):
            if isinstance(n, self.FORBIDDEN):
                fail(n, 'construct outside grammar')
        env = {}
        cap = self.capture(env) if self.kind == 'closure' else []
        self.signature(env)
        body = strip_docstring(f.body)
        if not body:
            fail(f, 'empty body')
        head = []
        if self.kind in ('function', 'method') and self.uses_heap(body, env):
            env[HEAP] = Var('heap', ('heap',), 'state')
            head.append('let heap := [] in')
        if self.kind == 'closure':
            ms = self.modset(body, env)
            fn.writes = [n for n in cap if n in ms and env[n].kind == 'state']
            fn.reads = [n for n in cap if n not in fn.writes]
            for n in fn.reads:
                env[n] = Var(env[n].code, env[n].ty, 'val')
            fn.read_tys = {n: env[n].ty for n in fn.reads}
            fn.write_tys = {n: env[n].ty for n in fn.writes}
        elif self.kind == 'dcmethod':
            fn.writes, fn.write_tys = [HEAP], {HEAP: ('heap',)}
        ends = []

        def fallthrough(e):
            ends.append(e)
            self.returns.append(None)
            return self.final(e)
        code = self.stmts(body, env, Flow(fallthrough, True, None))
        vals = [v for v in self.returns if v is not None]
        if vals and len(vals) != len(self.returns):
            fail(f, 'some paths return a value and others do not')
        if vals:
            tys = {repr(v.ty) for v in vals}
            if len(tys) != 1 or vals[0].ty in (GATE, UNIT, IGNORED):
                fail(f, f'return types outside grammar: {sorted(tys)}')
            fn.ret_ty = vals[0].ty
        else:
            fn.ret_ty = UNIT
        if getattr(self, 'is_gen', False):
            # a generator returns the list of the values it yields
            tys = {repr(e[YIELD].ty) for e in ends}
            if vals or len(tys) != 1 or ends[0][YIELD].ty[1] is None:
                fail(f, 'generator: the type of the yielded values is not determined')
            fn.ret_ty = ends[0][YIELD].ty
            head.append('let yielded_ := [] in')
        parts = [pty(fn.write_tys[n]) for n in fn.writes] + ([pty(fn.ret_ty)] if fn.ret_ty != UNIT else [])
        rty = ' * '.join(parts) if parts else 'unit'
        rty = f'({rty})' if ' ' in rty and not (rty.startswith('(') and balanced(rty)) else rty
        fn.text = ''.join(self.defs) + f'Definition {fn.coqname} {self.binders()} : res {rty} :=\n' \
            + ind('\n'.join(head + [code])) + '.\n\n'
        return fn


def _table(self, m, name, node):
    """a module-level dict {gate.<TYPE>: operator.itemgetter(<i>), ...} -> name of the generated lookup function"""
    key = (m.dotted, '<table>', name)
    if key in self.done:
        return self.done[key]
    b = m.bind.get(name)
    if not (b and b[0] == 'def' and isinstance(b[1], ast.Assign) and isinstance(b[1].value, ast.Dict)):
        fail(node, f'{name} is not a module-level dict literal')
    if not (m.is_module('operator', 'operator') and m.is_gate_module('gate')):
        fail(node, '`operator` / `gate` are not the expected modules')
    rows, seen = [], set()
    for k, v in zip(b[1].value.keys, b[1].value.values):
        ok = (isinstance(k, ast.Attribute) and isinstance(k.value, ast.Name) and k.value.id == 'gate'
              and k.attr in self.gtypes and k.attr not in seen
              and isinstance(v, ast.Call) and ast.unparse(v.func) == 'operator.itemgetter' and len(v.args) == 1
              and not v.keywords and isinstance(v.args[0], ast.Constant) and type(v.args[0].value) is int
              and 0 <= v.args[0].value < 1000)
        if not ok:
            fail(b[1], f'{name}: entries must be `gate.<TYPE>: operator.itemgetter(<index>)` with distinct keys')
        seen.add(k.attr)
        rows.append(f'  | {k.attr} => Ok {v.args[0].value}')
    if len(seen) < len(self.gtypes):
        rows.append('  | _ => Err PyKeyError')
    coqname = f'gen_{name.lstrip("_")}'
    self.order.append(f'(* {name}[k]: the index i of operator.itemgetter(i); KeyError for a missing key *)\n'
                      f'Definition {coqname} (k : gtype) : res nat :=\n  match k with\n' + '\n'.join(rows) + '\n  end.\n\n')
    self.done[key] = coqname
    return coqname


def _dc_method(self, m, cname, attr, node):
    key = (m.dotted, '<dc>', cname, attr)
    if key in self.done:
        return self.done[key]
    if m.dataclass(cname) is None:
        fail(node, f'{cname} is not a translated dataclass')
    c = m.classes[cname]
    k = sum(1 for n in c.body if isinstance(n, ast.FunctionDef) and n.name == attr)
    rebinds = [x for n in c.body if not isinstance(n, ast.FunctionDef) for x in ast.walk(n)
               if isinstance(x, ast.Name) and x.id == attr and isinstance(x.ctx, (ast.Store, ast.Del))]
    if k != 1 or rebinds:
        fail(node, f'{cname}.{attr}: not defined exactly once')
    srcs = [n for n in c.body if isinstance(n, ast.FunctionDef) and n.name == attr]
    fn = FnTr(self, m, srcs[0], f'gen_{cname.lstrip("_")}_{attr.lstrip("_")}', 'dcmethod', dc=cname).translate()
    self.order.append(fn.text)
    self.done[key] = fn
    return fn


PassUnit.table = _table
PassUnit.dc_method = _dc_method


def generate():
    u = PassUnit()
    for dotted, qual in COVERED:
        fn = u.get(dotted, qual)
        if fn.text not in u.order:
            u.order.append(fn.text)
    return HEADER + '\n' + ''.join(u.order)


# ---------------------------------------------------------------------------------------------- pipeline tables
TRANSFORMER = 'transformer'
TRANSFORMERS = ('list', TRANSFORMER)
OUT2 = 'Generated/PipelineGen.v'
TRANSFORMER_PY = 'cirbo.core.circuit.transformer'
CLEANUP = PKG + '.cleanup'
# the closed world of transformer classes: class -> (defining module, constructor of Model/Passes.transformer,
# [(constructor parameter, type)])
WORLD = {
    'RemoveRedundantGates': (RR, 'TRR', [('allow_inputs_removal', BOOL)]),
    'MergeUnaryOperators': (MU, 'TMU', []),
    'MergeDuplicateGates': (MD, 'TMD', []),
    'MergeEquivalentGates': (ME, 'TME', []),
    'TransformerComposition': (TRANSFORMER_PY, 'TComp', [('transformers', TRANSFORMERS)]),
}
PIPELINE = [(CLEANUP, 'cleanup'), (TRANSFORMER_PY, 'Transformer.linearize_reduce_transformers')]
# static methods of Transformer that stay with the hand model: name -> (model function, parameters, result, monadic)
STATIC = {
    'apply_transformers': ('apply_transformers', [('circuit', CIRCUIT), ('transformers', TRANSFORMERS)], CIRCUIT, True),
    'linearize_transformers': ('linearize', [('transformers', TRANSFORMERS)], TRANSFORMERS, False),
}

HEADER2 = '''(* GENERATED by translator/t15_passes.py from cirbo/minimization/simplification/cleanup.py, the class definitions of
   the four passes and cirbo/core/circuit/transformer.py.  DO NOT EDIT.
   Proofs/PipelineGen.v proves the hand model Model/Passes.v consistent with these definitions.

   What is regenerated: the pre / post transformer lists that the constructors of the transformer classes hand to
   Transformer.__init__, the class attribute __idempotent__, the function cleanup, and the generator
   Transformer.linearize_reduce_transformers.  A transformer object is a value of Passes.transformer (a fixed
   representation: one constructor per class, its arguments are the constructor arguments).
   NOT regenerated (they stay with the hand model and the correspondence check): Transformer.linearize_transformers
   (= Passes.linearize), Transformer.apply_transformers (= Passes.apply_transformers), as_distinct, transform,
   __or__ / __ror__ and the three __eq__ methods (`a == b` on transformers is Passes.transformer_eqb). *)
Require Import Cirbo.Model.Base Cirbo.Model.Gate Cirbo.Model.Circuit Cirbo.Model.Passes.

(* fixed prelude: `a == b` where b may be None *)
Definition py_transformer_eq_opt (a : transformer) (b : option transformer) : bool :=
  match b with Some p => transformer_eqb a p | None => false end.
'''


class PipeUnit(PassUnit):
    def __init__(self):
        super().__init__()
        self.tm = self.modctx(TRANSFORMER_PY)
        self.world = {}
        self.check_world()

    def world_class(self, m, name):
        """does `name` in module m denote a class of the closed world -> its name | None"""
        if name in WORLD and name in m.bind and self.src.resolve(m.dotted, name) == ('def', WORLD[name][0], name):
            return name
        return None

    def is_transformer_base(self, m, name):
        return name in m.bind and self.src.resolve(m.dotted, name) == ('def', TRANSFORMER_PY, 'Transformer')

    def method(self, cls, name):
        ms = [n for n in cls.body if isinstance(n, ast.FunctionDef) and n.name == name]
        if len(ms) > 1:
            fail(cls, f'{cls.name}.{name} defined twice')
        return ms[0] if ms else None

    def ctor_term(self, m, node, arg_tr):
        """<Class>(<keyword arguments>) for a class of the closed world -> Coq term; arg_tr translates an argument"""
        if not (isinstance(node, ast.Call) and isinstance(node.func, ast.Name)):
            return None
        cname = self.world_class(m, node.func.id)
        if cname is None:
            return None
        _mod, con, params = WORLD[cname]
        info = self.world[cname]
        given = {}
        if len(node.args) > len(info['positional']):
            fail(node, 'too many positional arguments')
        for p, a in zip(info['positional'], node.args):
            given[p] = a
        for k in node.keywords:
            if k.arg is None or k.arg in given or k.arg not in [p for p, _ in params]:
                fail(node, 'constructor keyword outside grammar')
            given[k.arg] = k.value
        codes = []
        for p, ty in params:
            if p in given:
                codes.append(arg_tr(given[p], ty))
            elif p in info['defaults']:
                codes.append(info['defaults'][p])
            else:
                fail(node, f'missing constructor argument {p}')
        return con if not codes else '(' + ' '.join([con] + codes) + ')'

    def const_arg(self, node, ty):
        if ty == BOOL and isinstance(node, ast.Constant) and isinstance(node.value, bool):
            return 'true' if node.value else 'false'
        fail(node, 'constructor argument in a class definition must be a bool constant')

    def check_world(self):
        tm = self.tm
        base = tm.classes.get('Transformer')
        if base is None or tm.bind.get('Transformer') != ('def', base) or base.bases or base.decorator_list \
                or [ast.unparse(k.value) for k in base.keywords] != ['abc.ABCMeta']:
            raise TranslatorError('transformer.py: class Transformer(metaclass=abc.ABCMeta) not found')
        init = self.method(base, '__init__')
        want = ('def __init__(self, pre_transformers=tuple(), post_transformers=tuple()):\n'
                '    self._pre_transformers = pre_transformers\n    self._post_transformers = post_transformers')
        if init is None or self.strip_annotations(init) != want:
            raise TranslatorError('Transformer.__init__ must store its two parameters (defaults tuple())')
        prop = self.method(base, 'is_idempotent')
        if prop is None or [ast.unparse(d) for d in prop.decorator_list] != ['property'] \
                or [ast.unparse(x) for x in strip_docstring(prop.body)] != ['return self.__idempotent__']:
            raise TranslatorError('Transformer.is_idempotent must be the property `return self.__idempotent__`')
        for name, (_model, params, _ret, _mon) in STATIC.items():
            sm = self.method(base, name)
            if sm is None or [ast.unparse(d) for d in sm.decorator_list] != ['staticmethod'] \
                    or [a.arg for a in sm.args.args] != [p for p, _ in params] or sm.args.kwonlyargs or sm.args.vararg \
                    or sm.args.kwarg or sm.args.defaults:
                raise TranslatorError(f'Transformer.{name}: must be a staticmethod of {[p for p, _ in params]}')
        for b in base.body:
            if isinstance(b, ast.FunctionDef) and b.name in ('__new__', '__init_subclass__', '__getattr__',
                                                             '__getattribute__', '__setattr__'):
                raise TranslatorError(f'Transformer.{b.name}: customised object protocol')
        base_idem = self.idempotent_attr(base)
        if base_idem is None:
            raise TranslatorError('Transformer.__idempotent__ must be a bool constant')
        # first the constructor signatures (constructor calls inside __init__ bodies need them) ...
        for cname, (dotted, _con, params) in WORLD.items():
            m = self.modctx(dotted)
            cls = m.classes.get(cname)
            if cls is None or m.bind.get(cname) != ('def', cls) or cls.decorator_list or cls.keywords \
                    or len(cls.bases) != 1 or not isinstance(cls.bases[0], ast.Name) \
                    or not self.is_transformer_base(m, cls.bases[0].id):
                raise TranslatorError(f'{dotted}: class {cname}(Transformer) not found')
            for b in cls.body:
                if isinstance(b, ast.FunctionDef) and b.name in ('__new__', '__init_subclass__', '__getattr__',
                                                                 '__getattribute__', '__setattr__', 'is_idempotent'):
                    raise TranslatorError(f'{cname}.{b.name}: customised object protocol')
            init = self.method(cls, '__init__')
            if init is None or init.decorator_list:
                raise TranslatorError(f'{cname}.__init__ not found')
            a = init.args
            if a.posonlyargs or a.vararg or a.kwarg or a.defaults or not a.args or a.args[0].arg != 'self':
                raise TranslatorError(f'{cname}.__init__: signature outside grammar')
            got = [x.arg for x in a.args[1:]] + [x.arg for x in a.kwonlyargs]
            if got != [p for p, _ in params]:
                raise TranslatorError(f'{cname}.__init__: parameters {got} differ from {[p for p, _ in params]}')
            defaults = {}
            for x, dv in zip(a.kwonlyargs, a.kw_defaults):
                ty = dict(params)[x.arg]
                if dv is not None:
                    defaults[x.arg] = self.const_arg(dv, ty)
                if ty == BOOL and (x.annotation is None or ast.unparse(x.annotation) != 'bool'):
                    raise TranslatorError(f'{cname}.__init__: {x.arg} must be annotated bool')
            idem = self.idempotent_attr(cls)
            self.world[cname] = {'cls': cls, 'm': m, 'init': init, 'positional': [x.arg for x in a.args[1:]],
                                 'defaults': defaults, 'idempotent': base_idem if idem is None else idem}
        # ... then the bodies: super().__init__(pre_transformers=..., post_transformers=...) and attribute stores
        for cname, info in self.world.items():
            m, init = info['m'], info['init']
            params = [x.arg for x in init.args.args[1:]] + [x.arg for x in init.args.kwonlyargs]
            pre, post, supers = [], [], 0
            for st in strip_docstring(init.body):
                if isinstance(st, ast.Expr) and isinstance(st.value, ast.Call) \
                        and ast.unparse(st.value.func) == 'super().__init__' and not st.value.args:
                    supers += 1
                    for k in st.value.keywords:
                        if k.arg not in ('pre_transformers', 'post_transformers') or not isinstance(k.value, ast.Tuple):
                            fail(st, f'{cname}.__init__: super().__init__ arguments outside grammar')
                        terms = []
                        for e in k.value.elts:
                            t = self.ctor_term(m, e, self.const_arg)
                            if t is None:
                                fail(e, f'{cname}.__init__: a dependency must be a constructor call of a known class')
                            terms.append(t)
                        (pre if k.arg == 'pre_transformers' else post).extend(terms)
                elif isinstance(st, ast.Assign) and len(st.targets) == 1 and isinstance(st.targets[0], ast.Attribute) \
                        and isinstance(st.targets[0].value, ast.Name) and st.targets[0].value.id == 'self' \
                        and st.targets[0].attr not in ('_pre_transformers', '_post_transformers', '__idempotent__') \
                        and (ast.unparse(st.value) in params or ast.unparse(st.value) in [f'list({p})' for p in params]):
                    continue
                else:
                    fail(st, f'{cname}.__init__: statement outside grammar')
            if supers != 1:
                fail(init, f'{cname}.__init__ must call super().__init__ exactly once')
            for n in ast.walk(info['cls']):
                if isinstance(n, ast.Attribute) and n.attr in ('_pre_transformers', '_post_transformers', '__idempotent__') \
                        and isinstance(n.ctx, (ast.Store, ast.Del)):
                    fail(n, f'{cname}: writes {n.attr}')
            info['pre'], info['post'] = pre, post

    @staticmethod
    def strip_annotations(f):
        import copy
        g = copy.deepcopy(f)
        g.body = strip_docstring(g.body)
        g.returns = None
        for a in g.args.args + g.args.kwonlyargs:
            a.annotation = None
        return ast.unparse(g)

    @staticmethod
    def idempotent_attr(cls):
        vals = []
        for st in cls.body:
            tgt = st.target if isinstance(st, ast.AnnAssign) else (st.targets[0] if isinstance(st, ast.Assign)
                                                                    and len(st.targets) == 1 else None)
            if isinstance(tgt, ast.Name) and tgt.id == '__idempotent__':
                if not (isinstance(st.value, ast.Constant) and isinstance(st.value.value, bool)):
                    fail(st, '__idempotent__ must be a bool constant')
                vals.append(st.value.value)
        if len(vals) > 1:
            fail(cls, '__idempotent__ assigned twice')
        return vals[0] if vals else None

    def tables(self):
        def table(name, ty, f):
            rows = []
            for cname, (_d, con, params) in WORLD.items():
                pat = con if not params else con + ' _' * len(params)
                rows.append(f'  | {pat} => {f(self.world[cname])}')
            return f'Definition {name} (t : transformer) : {ty} :=\n  match t with\n' + '\n'.join(rows) + '\n  end.\n\n'
        out = '(* what the constructor of each class hands to Transformer.__init__ *)\n'
        out += table('gen_pre_transformers', 'list transformer', lambda i: '[' + '; '.join(i['pre']) + ']')
        out += table('gen_post_transformers', 'list transformer', lambda i: '[' + '; '.join(i['post']) + ']')
        out += '(* the class attribute __idempotent__ (Transformer.is_idempotent returns it) *)\n'
        out += table('gen_is_idempotent', 'bool', lambda i: 'true' if i['idempotent'] else 'false')
        return out

    def get(self, dotted, qual, node=None):
        key = (dotted, qual)
        if key in self.done:
            return self.done[key]
        if key not in PIPELINE:
            raise TranslatorError(f'{dotted}.{qual}: not in the list of T15')
        m = self.modctx(dotted)
        if '.' in qual:
            cname, fname = qual.split('.')
            cls = m.classes.get(cname)
            if cls is None or m.bind.get(cname) != ('def', cls):
                raise TranslatorError(f'{dotted}: class {cname} not found')
            if cls.decorator_list:
                fail(cls, 'decorated class')
            for n in cls.body:
                if not isinstance(n, ast.FunctionDef):
                    for x in ast.walk(n):
                        if isinstance(x, ast.Name) and x.id == fname and isinstance(x.ctx, (ast.Store, ast.Del)):
                            fail(n, f'{cname}.{fname} is rebound in the class body')
            src = self.method(cls, fname)
            if src is None or [ast.unparse(d) for d in src.decorator_list] != ['staticmethod']:
                raise TranslatorError(f'{dotted}.{qual}: not a staticmethod defined once')
            tr = PipeTr(self, m, src, f'gen_{fname.lstrip("_")}', 'static', cls=cls)
        else:
            src = m.funcs.get(qual)
            if src is None or m.bind.get(qual) != ('def', src):
                raise TranslatorError(f'{dotted}.{qual}: not found')
            tr = PipeTr(self, m, src, f'gen_{qual.lstrip("_")}', 'function')
        fn = tr.translate()
        self.done[key] = fn
        return fn


class PipeTr(FnTr):
    FORBIDDEN = tuple(x for x in FnTr.FORBIDDEN if x not in (ast.Yield, ast.AugAssign))

    def ann_type(self, ann, node):
        if ann is not None:
            s = ast.unparse(ann).replace("'", '').replace('"', '').replace(' ', '')
            if s == 'bool':
                return BOOL
            if s == 'tp.Iterable[Transformer]' and self.m.is_module('tp', 'typing') \
                    and (self.m.dotted == TRANSFORMER_PY or self.u.is_transformer_base(self.m, 'Transformer')):
                return TRANSFORMERS
        return super().ann_type(ann, node)

    def signature(self, env):
        f, fn = self.src, self.fn
        a = f.args
        if a.posonlyargs or a.vararg or a.kwarg or a.defaults:
            fail(f, 'signature outside grammar')
        for p, dv in zip(a.kwonlyargs, a.kw_defaults):
            if dv is not None and not isinstance(dv, ast.Constant):
                fail(p, 'default outside grammar')
        for p in list(a.args) + list(a.kwonlyargs):
            if p.arg in env:
                fail(p, 'parameter bound twice')
            ty = self.ann_type(p.annotation, p)
            code = self.vname(p, p.arg)
            env[p.arg] = Var(code, ty, 'val')
            fn.params.append((p.arg, ty))
        self.is_gen = any(isinstance(n, ast.Yield) for n in ast.walk(f))
        if self.is_gen:
            env[YIELD] = Var('yielded_', ('list', None), 'state')

    def modset(self, stmts, env):
        out = set(super().modset(stmts, env))
        for s in stmts:
            for n in ast.walk(s):
                if isinstance(n, ast.AugAssign) and isinstance(n.target, ast.Name):
                    out.add(n.target.id)
                elif isinstance(n, ast.Yield):
                    out.add(YIELD)
        return [n for n in env if n in out and env[n].kind != 'fn']

    def final(self, env, val=None):
        if getattr(self, 'is_gen', False):
            if val is not None:
                fail(self.src, 'a generator returns a value')
            return f'Ok {env[YIELD].code}'
        return super().final(env, val)

    def static_call(self, node, env, pre):
        """Transformer.<static method>(args) -> Val | None"""
        f = node.func
        if not (isinstance(f, ast.Attribute) and isinstance(f.value, ast.Name) and f.value.id == 'Transformer'
                and 'Transformer' not in env and f.attr in STATIC):
            return None
        if not (self.u.is_transformer_base(self.m, 'Transformer')
                or (self.m.dotted == TRANSFORMER_PY and self.m.bind.get('Transformer', ('',))[0] == 'def')):
            fail(node, 'Transformer is not the class of transformer.py')
        model, params, ret, monadic = STATIC[f.attr]
        if node.keywords or len(node.args) != len(params):
            fail(node, 'arguments of a static method of Transformer')
        codes = [atom(self.typed(a, env, pre, ty).code) for a, (_p, ty) in zip(node.args, params)]
        code = ' '.join([model] + codes)
        if monadic:
            t = self.fresh()
            pre.append((t, code))
            return Val(t, ret)
        return Val(f'({code})', ret)

    def expr(self, node, env, pre):
        if isinstance(node, ast.Call):
            t = self.u.ctor_term(self.m, node, lambda a, ty: atom(self.typed(a, env, pre, ty).code)) \
                if isinstance(node.func, ast.Name) and node.func.id not in env else None
            if t is not None:
                return Val(t, TRANSFORMER)
            v = self.static_call(node, env, pre)
            if v is not None:
                return v
        if isinstance(node, ast.List) and node.elts:
            vals = [self.expr(e, env, pre) for e in node.elts]
            if all(v.ty == TRANSFORMER for v in vals):
                return Val('[' + '; '.join(v.code for v in vals) + ']', TRANSFORMERS)
        if isinstance(node, ast.Attribute) and node.attr == 'is_idempotent':
            v = self.expr(node.value, env, pre)
            if v.ty == TRANSFORMER:
                return Val(f'(gen_is_idempotent {atom(v.code)})', BOOL)
            fail(node, 'is_idempotent of something that is not a transformer')
        if isinstance(node, ast.Compare) and len(node.ops) == 1 and isinstance(node.ops[0], ast.Eq):
            sub = []
            l = self.expr(node.left, env, sub)
            r = self.expr(node.comparators[0], env, sub)
            if l.ty == TRANSFORMER and r.ty == ('opt', TRANSFORMER) and not sub:
                # Transformer.__eq__ and its overrides are not regenerated: Passes.transformer_eqb
                return Val(f'(py_transformer_eq_opt {atom(l.code)} {atom(r.code)})', BOOL)
        if isinstance(node, ast.BoolOp):
            # `a and b`: both operands are pure here, Python's short circuit is not observable
            pass
        return super().expr(node, env, pre)

    def iterable(self, node, env, pre):
        if isinstance(node, ast.Call):
            v = self.static_call(node, env, pre)
            if v is not None:
                if v.ty != TRANSFORMERS:
                    fail(node, 'iteration over something that is not a list')
                return ('list', v.code, TRANSFORMER)
        return super().iterable(node, env, pre)

    def stmts(self, body, env, fl):
        if body:
            s, rest = body[0], body[1:]
            flr = Flow(lambda e: self.stmts(rest, e, fl), fl.can_return, fl.cont) if rest else fl
            if isinstance(s, ast.Expr) and isinstance(s.value, ast.Yield):
                if s.value.value is None:
                    fail(s, 'bare yield')
                pre = []
                v = self.expr(s.value.value, env, pre)
                y = env[YIELD]
                ety = y.ty[1] or v.ty
                if v.ty != ety or ety != TRANSFORMER:
                    fail(s, f'yield of {v.ty}')
                env2 = dict(env)
                env2[YIELD] = Var(y.code, ('list', ety), 'state')
                return '\n'.join(self.emit_pre(pre) + [f'let {y.code} := {y.code} ++ [{v.code}] in', flr.k(env2)])
            if isinstance(s, ast.AugAssign):
                return self.aug_assign(s, env, flr)
            if isinstance(s, ast.AnnAssign) and isinstance(s.target, ast.Name) and s.value is not None \
                    and isinstance(s.value, ast.Constant) and s.value.value is None:
                ann = ast.unparse(s.annotation).replace("'", '').replace(' ', '')
                if ann != 'tp.Optional[Transformer]' or not self.m.is_module('tp', 'typing'):
                    fail(s, 'Optional annotation outside grammar')
                name = s.target.id
                if name in env:
                    fail(s, f'rebinding of {name}')
                code = self.vname(s.target, name)
                env2 = dict(env)
                env2[name] = Var(code, ('opt', TRANSFORMER), 'val')
                return '\n'.join([f'let {code} := None in', flr.k(env2)])
            if isinstance(s, ast.Assign) and len(s.targets) == 1 and isinstance(s.targets[0], ast.Name) \
                    and s.targets[0].id in env and env[s.targets[0].id].ty == ('opt', TRANSFORMER) \
                    and env[s.targets[0].id].kind == 'val':
                # rebinding of an Optional local with a value that is not None
                pre = []
                v = self.typed(s.value, env, pre, TRANSFORMER)
                code = env[s.targets[0].id].code
                return '\n'.join(self.emit_pre(pre) + [f'let {code} := Some {atom(v.code)} in', flr.k(env)])
        return super().stmts(body, env, fl)

    def aug_assign(self, s, env, flr):
        """x += [..] on a local list: in place in Python; sound as a rebinding because x was created by a list literal
        in this function and is read only after its last `+=` (no alias can observe the update)"""
        if not (isinstance(s.op, ast.Add) and isinstance(s.target, ast.Name) and s.target.id in env):
            fail(s, 'augmented assignment outside grammar')
        name = s.target.id
        var = env[name]
        if var.kind != 'val' or not (isinstance(var.ty, tuple) and var.ty[0] == 'list'):
            fail(s, '+= on something that is not a local list')
        inits = [n for n in ast.walk(self.root.src) if isinstance(n, (ast.Assign, ast.AnnAssign))
                 and any(isinstance(t, ast.Name) and t.id == name
                         for t in (n.targets if isinstance(n, ast.Assign) else [n.target]))]
        augs = [n for n in ast.walk(self.root.src) if isinstance(n, ast.AugAssign) and isinstance(n.target, ast.Name)
                and n.target.id == name]
        last = max((n.end_lineno, n.end_col_offset) for n in augs)
        loads = [n for n in ast.walk(self.root.src) if isinstance(n, ast.Name) and n.id == name and isinstance(n.ctx, ast.Load)]
        if len(inits) != 1 or not isinstance(inits[0].value, ast.List) or self.store_count(name) != 1 + len(augs) \
                or any((n.lineno, n.col_offset) < last for n in loads) or self.outer is not None \
                or any(isinstance(n, (ast.For, ast.While)) and any(a in ast.walk(n) for a in augs)
                       for n in ast.walk(self.root.src)):
            fail(s, f'{name} += ...: the list must come from a list literal, not be updated in a loop and be read only '
                    'after its last update')
        pre = []
        v = self.typed(s.value, env, pre, var.ty)
        return '\n'.join(self.emit_pre(pre) + [f'let {var.code} := {var.code} ++ {atom(v.code)} in', flr.k(env)])


def generate_pipeline():
    u = PipeUnit()
    parts = [HEADER2, '\n', u.tables()]
    for dotted, qual in PIPELINE:
        parts.append(u.get(dotted, qual).text)
    return ''.join(parts)


def translate():
    return {OUT: write_if_changed(OUT, generate()), OUT2: write_if_changed(OUT2, generate_pipeline())}


if __name__ == '__main__':
    print(translate())
