"""T17: cirbo/synthesis/circuit_search.py, class CircuitFinderSat  ->  Generated/SearchEncGen.v

Statement-by-statement translation of the ENCODER and the DECODER of exact synthesis: every method of COVERED becomes `gen_<name>` over the vocabulary of Model/Search.v (structured variables, literals =
(sign, var), clauses) and the fixed prelude Model/SearchPy.v.  Proofs/SearchEncGen*.v prove each generated function
equal to the hand model (encode / default_cnf / cons_clauses / check_constraint ...), so an edit of a covered body
changes a generated definition and breaks an equality lemma.  T3 (t3_search.py) regenerates the tables; the
process pool / time limit / database part of find_circuit is not translated.  Anything outside the grammar raises
TranslatorError (the check fails closed).  The translator knows no method of the class by name except through
COVERED (which selects what must translate), ROOT_PARAM_TYPES (a List[int] parameter of a method that no
translated method calls: ints or literals) and the two constructor idioms below.

The object.  `finder` is the record of the attributes that __init__ assigns (`self.<a> = e`, in order), without the
IDPool (see below); `set_<a>` are its functional updates.  A method that appends to `self._cnf`, assigns an
attribute or calls such a method takes and returns the record (`sres finder`, or `sres (finder * T)` if it also
returns a value); every other method is `finder -> ... -> sres T`.

Values.  int -> nat (indices and sizes: see Model/SearchPy.v); bool -> bool; Optional[T] -> option T;
list / tuple[T, ...] -> list; the tuples of itertools.combinations / product -> pairs / triples;
TriValue cells of the model truth table -> option bool; the result of a gate operator -> Gate.st; GateType -> gtype;
Operation -> its value as tt4 (T3 checks that the values are four 0/1 characters and that no two members share
one), `op.value` -> the list of its digits; FunctionModel -> SearchPy.fmodel (input_size, output_size,
get_model_truth_table()).

The IDPool.  `self.<pool>.id(f'<k>_{x}_{y}[_{z}]')`, where <pool> is the attribute __init__ binds to IDPool() (imported
from pysat.formula), is the structured variable of Model/Search.v with that name, as a positive literal:
s_ -> VS, g_ -> VG, x_ -> VX, f_ -> VF (the last two fields of f_ through bit_of_nat, which fails for a value
other than 0 / 1).  This is the inverse of harness/searchcorr.var_term, which the correspondence check applies to
the names in the live pool.  Signed ids: `-l` -> lneg l, `(1 if c else -1) * l` -> lmul c l.

Constructor idioms (matched literally, both documented in DESIGN.md): the resolution of the `basis` argument
  `if isinstance(basis, (str, Basis)): _basis = resolve_basis(basis).value / else: _basis = basis`
makes `_basis` (a list of Operation values) a parameter of gen___init__ in place of `basis` (T3 regenerates
Basis / resolve_basis); `self.<a> = list(set(Basis.FULL.value) - set(self.<basis attribute>))` makes that attribute a
parameter too: the iteration order of a Python set is not modelled, the theorems of C06 hold for every order and the
harness hands the observed order to the model (spec_wf checks that it is the complement of the basis).

Grammar.
  <stmt> ::= <name> = <expr> | <n1>, <n2> = <e1>, <e2> | self.<attr> = <expr> | return [<expr>] | raise <Exc>()
           | assert <expr> | if <expr>: <stmts> [else: <stmts>] | continue | break
           | for <target> in <iterable>: <stmts>         (no for-else; `return` not inside a loop)
           | self._cnf.append(<clause>) | self._cnf.extend(<clauses>) | self.<method>(<args>)
           | <local list>.append(<expr>)                 (a list created by `[]` in the same function, never aliased)
           | <c>.add_gate(Gate(l, t[, (ops)])) | <c>.mark_as_output(l)   for a local <c> = Circuit() (never aliased):
                                                         Model/Circuit.add_gate / mark_as_output, the hand model of the
                                                         Circuit API (parameter order checked in circuit.py / gate.py)
  <expr> ::= names, True / False / None, natural literals, self.<attr>, self.<fm attr>.input_size / .output_size,
           <fm>.get_model_truth_table(), self._cnf.clauses, <op>.value, DontCare (only in == / !=),
           a + b, a * b, a // k, a % k (k a positive literal), 1 << a, a >> b, a & b, a - b (only inside a shift count),
           -<literal>, <sign> * <literal> with <sign> ::= 1 | -1 | <sign> if c else <sign>,
           not / and / or (short circuit; `x is not None` narrows x in what follows it), chained comparisons
           == != < <= > >= on ints, == / != against DontCare, `x is [not] None`, in / not in (int in list of ints,
           literal in list of literals, operator value in [True, False], int in a tuple of int literals),
           a if c else b, l[i], [a, ...], [e for t in l], (e for t in l) bound to a name that the next statement
           consumes once, all(<generator>), len, int, bool, list, min, max, range(a[, b]),
           itertools.combinations(l, 2), itertools.product(range(k), repeat=2 | 3), <gate type>.operator(a, b)
           (Generated/GateTypes.operator_of), calls of translated methods (positional / keyword arguments),
           decoder: Circuit(), gate type constants imported from cirbo.core.circuit, string literals, s + t on
           strings, str(i) / str(<Optional int>) / str(s), (s, t) as a sequence of labels, <Optional int> in <list>,
           _get_GateType_by_tt(l) (= tt_to_gate_type of T3, whose grammar check is re-run; KeyError unless len 4).
  Truth tests: bool; int (nonzero); a TriValue / operator value (bool() raises on DontCare); an Optional[GateType]
  (GateType defines neither __bool__ nor __len__: checked in gate.py).

Order of evaluation: sub-expressions that can raise are bound (`sdo t <- ...`) in Python's left-to-right order.
Aliasing: parameters and attributes are never updated in place except `self._cnf` through append / extend (the pysat
CNF copies the clause it is given); a local list that is appended to must have been created by `[]` in the same
function and is never bound to another name or stored.
"""
import ast

from .common import TranslatorError, fail, guard_module, parse, strip_docstring, write_if_changed
from .t1_operators import GTYPES

SRC = 'cirbo/synthesis/circuit_search.py'
GATE_PY = 'cirbo/core/circuit/gate.py'
OUT = 'Generated/SearchEncGen.v'
CLASS = 'CircuitFinderSat'

# ALL of them must translate (callees are emitted first)
COVERED = ['__init__', '_predecessors_variable', '_output_gate_variable', '_gate_value_variable',
           '_gate_type_variable', '_is_dont_cares_input', '_add_exactly_one_of', '_init_default_cnf_formula',
           'get_cnf', 'fix_gate', 'forbid_wire', '_get_circuit_by_model']

# parameters annotated List[int] of methods that no translated method calls: ints or literals?
ROOT_PARAM_TYPES = {('_get_circuit_by_model', 'model'): 'lit'}
CIRCUIT_PY = 'cirbo/core/circuit/circuit.py'

NAT, BOOL, LIT, TRI, ST, GTYPE, TT4, FMODEL, DIGIT, UNIT, ANY = \
    'nat', 'bool', 'lit', 'tri', 'st', 'gtype', 'tt4', 'fmodel', 'digit', 'unit', 'any'
STR, CIRC = 'string', 'circuit'
INTLIKE = 'intlike'            # `int` in a List[int] annotation: nat or literal, fixed by the first call


def TL(t):
    return ('list', t)


def TO(t):
    return ('opt', t)


def TT(*ts):
    return ('tuple',) + tuple(ts)


CNF_TY = TL(TL(LIT))

# pool names -> constructor of Search.var and the kind of each field
VAR_NAMES = {'s_{}_{}_{}': ('VS', (NAT, NAT, NAT)), 'g_{}_{}': ('VG', (NAT, NAT)),
             'x_{}_{}': ('VX', (NAT, NAT)), 'f_{}_{}_{}': ('VF', (NAT, 'bit', 'bit'))}

# exceptions of cirbo.synthesis.exception -> serr
EXCEPTIONS = {'GateIsAbsentError': 'SCons CE_GateIsAbsent', 'FixGateError': 'SCons CE_FixGate',
              'FixGateOrderError': 'SCons CE_FixGateOrder', 'ForbidWireOrderError': 'SCons CE_ForbidWireOrder',
              'NoSolutionError': 'SPy NoSolutionError'}

BASIS_IDIOM = ('if isinstance(basis, (str, Basis)):\n    _basis = resolve_basis(basis).value\nelse:\n    _basis = basis')

HEADER = '''(* GENERATED by translator/t17_search_enc.py from cirbo/synthesis/circuit_search.py
   (class CircuitFinderSat).  DO NOT EDIT.
   Proofs/SearchEncGen*.v prove every gen_* equal to the hand model Model/Search.v. *)
Require Import Cirbo.Model.Base Cirbo.Model.Gate Cirbo.Model.Circuit Cirbo.Model.Search Cirbo.Model.SearchCircuit
               Cirbo.Model.SearchPy.
Require Import Cirbo.Generated.GateTypes Cirbo.Generated.SearchTables.
Local Open Scope nat_scope.
'''


def coq_ty(t):
    if t in (NAT, DIGIT):
        return 'nat'
    if t in (BOOL, LIT, TRI, ST, GTYPE, TT4, FMODEL, UNIT, STR, CIRC):
        return t
    if t == 'finder':
        return 'finder'
    if isinstance(t, tuple):
        if t[0] == 'list':
            return f'list {paren_ty(t[1])}'
        if t[0] == 'opt':
            return f'option {paren_ty(t[1])}'
        if t[0] == 'tuple':
            return ' * '.join(paren_ty(x) for x in t[1:])
    raise TranslatorError(f'type {t!r} has no Coq rendering (unresolved)')


def paren_ty(t):
    c = coq_ty(t)
    return f'({c})' if ' ' in c else c


def has_any(t):
    if t in (ANY, INTLIKE):
        return True
    return isinstance(t, tuple) and any(has_any(x) for x in t[1:])


def unify(a, b, node):
    """the common type of two branches / elements (ANY is the element type of [] and the content of None)"""
    if a == b:
        return a
    if a == ANY:
        return b
    if b == ANY:
        return a
    if isinstance(a, tuple) and isinstance(b, tuple) and a[0] == b[0] and len(a) == len(b):
        return (a[0],) + tuple(unify(x, y, node) for x, y in zip(a[1:], b[1:]))
    if isinstance(a, tuple) and a[0] == 'opt' and not (isinstance(b, tuple) and b[0] == 'opt'):
        return TO(unify(a[1], b, node))
    if isinstance(b, tuple) and b[0] == 'opt' and not (isinstance(a, tuple) and a[0] == 'opt'):
        return TO(unify(a, b[1], node))
    fail(node, f'incompatible types {a} / {b}')


def ind(text, n=2):
    pad = ' ' * n
    return '\n'.join(pad + l if l else l for l in text.split('\n'))


def seq(pre, tail):
    """bindings followed by the code that uses them"""
    out = []
    for kind, pat, code in pre:
        if kind == 'do':
            out.append(f'sdo {pat.lstrip(chr(39))} <- {code};')
        else:
            out.append(f'let {pat} := {code} in')
    out.append(tail)
    return '\n'.join(out)


def is_self_attr(node, attr=None):
    return isinstance(node, ast.Attribute) and isinstance(node.value, ast.Name) and node.value.id == 'self' \
        and (attr is None or node.attr == attr)


def walk_stmts(stmts):
    for s in stmts:
        yield from ast.walk(s)


def assigned_names(stmts):
    """local names bound by assignment statements (not loop targets), in order of first occurrence"""
    out = []
    for n in walk_stmts(stmts):
        targets = []
        if isinstance(n, ast.Assign):
            targets = n.targets
        elif isinstance(n, (ast.AnnAssign, ast.AugAssign)):
            targets = [n.target]
        for t in targets:
            for m in ([t] if isinstance(t, ast.Name) else t.elts if isinstance(t, (ast.Tuple, ast.List)) else []):
                if isinstance(m, ast.Name) and m.id not in out:
                    out.append(m.id)
        if isinstance(n, ast.Expr) and isinstance(n.value, ast.Call) and isinstance(n.value.func, ast.Attribute) \
                and n.value.func.attr in ('append', 'add_gate', 'mark_as_output') \
                and isinstance(n.value.func.value, ast.Name) and n.value.func.value.id != 'self' \
                and n.value.func.value.id not in out:
            out.append(n.value.func.value.id)
    return out


def loop_target_names(stmts):
    out = set()
    for n in walk_stmts(stmts):
        if isinstance(n, ast.For):
            out |= {m.id for m in ast.walk(n.target) if isinstance(m, ast.Name)}
    return out


def has_jump(stmts, kinds=(ast.Return, ast.Continue, ast.Break)):
    return any(isinstance(n, kinds) for n in walk_stmts(stmts))


def falls_through(stmts):
    """can control reach the end of the statement list?  (False only when that is syntactically evident)"""
    if not stmts:
        return True
    last = stmts[-1]
    if isinstance(last, (ast.Raise, ast.Return, ast.Continue, ast.Break)):
        return False
    if isinstance(last, ast.If):
        return falls_through(last.body) or falls_through(last.orelse)
    return True


def loads(name, nodes):
    return any(isinstance(n, ast.Name) and n.id == name and isinstance(n.ctx, ast.Load)
               for x in nodes for n in ast.walk(x))


def breaks_here(stmts):
    """a `break` that belongs to the loop whose body is `stmts`"""
    for s in stmts:
        if isinstance(s, ast.Break):
            return True
        if isinstance(s, ast.If) and (breaks_here(s.body) or breaks_here(s.orelse)):
            return True
        if isinstance(s, (ast.With, ast.Try, ast.While)):
            fail(s, 'statement outside grammar')
    return False


class Ctx:
    """where control goes: ret(env, code | None), cont(env), brk(env) produce the code of the jump"""

    def __init__(self, ret, cont=None, brk=None):
        self.ret, self.cont, self.brk = ret, cont, brk


class Val:
    def __init__(self, code, ty, gen=None):
        self.code, self.ty, self.gen = code, ty, gen


class Method:
    def __init__(self, name, node):
        self.name, self.node = name, node
        self.coqname = 'gen_' + name
        self.params = None          # [(py name, type)]
        self.mutates = False
        self.ret_ty = None
        self.text = None
        self.in_progress = False


class Unit:
    def __init__(self):
        self.mod = parse(SRC)
        guard_module(self.mod)
        self.imports = {}           # local name -> (module, original name)
        self.plain_imports = set()
        for n in self.mod.body:
            if isinstance(n, ast.ImportFrom):
                for a in n.names:
                    if a.asname is not None and a.asname != a.name:
                        fail(n, 'renaming import')
                    self.imports[a.name] = (n.module, a.name)
            elif isinstance(n, ast.Import):
                for a in n.names:
                    if a.asname is not None and a.asname != a.name.split('.')[0]:
                        if a.name in ('itertools',):
                            fail(n, 'renaming import')
                    self.plain_imports.add(a.asname or a.name)
        classes = [n for n in self.mod.body if isinstance(n, ast.ClassDef) and n.name == CLASS]
        if len(classes) != 1:
            raise TranslatorError(f'class {CLASS} not found exactly once')
        self.cls = classes[0]
        if self.cls.bases or self.cls.keywords or self.cls.decorator_list:
            fail(self.cls, 'the class must be a plain class (no bases / metaclass / decorators)')
        self.methods = {}
        for st in strip_docstring(self.cls.body):
            if not isinstance(st, ast.FunctionDef):
                fail(st, 'the class body may contain only method definitions')
            if st.decorator_list:
                fail(st, 'decorated method')
            if st.name in self.methods:
                fail(st, 'method defined twice')
            if st.name in ('__getattr__', '__getattribute__', '__setattr__', '__delattr__'):
                fail(st, 'attribute hooks are outside the grammar')
            self.methods[st.name] = Method(st.name, st)
        for m in COVERED:
            if m not in self.methods:
                raise TranslatorError(f'{CLASS}.{m} is missing')
        # module-level names that the bodies may mention must not be shadowed by the class or rebound
        self.check_imports()
        self.compute_mutating()
        self.attrs = []             # [(name, type)] in order of assignment in __init__
        self.pool_attr = None
        self.cnf_attr = None
        self.fm_attrs = set()
        self.emitted = []
        self.gate_type_truthy_checked = False

    def check_imports(self):
        want = {'CNF': 'pysat.formula', 'IDPool': 'pysat.formula', 'DontCare': 'cirbo.core.logic',
                'GateType': 'cirbo.core.circuit', 'FunctionModel': 'cirbo.core.boolean_function'}
        for name, module in want.items():
            if self.imports.get(name, (None,))[0] != module:
                raise TranslatorError(f'{name} must be imported from {module}')
        for e in EXCEPTIONS:
            if self.imports.get(e, (None,))[0] != 'cirbo.synthesis.exception':
                raise TranslatorError(f'{e} must be imported from cirbo.synthesis.exception')
        if 'itertools' not in self.plain_imports:
            raise TranslatorError('`import itertools` expected')
        top = {n.name for n in self.mod.body if isinstance(n, (ast.FunctionDef, ast.ClassDef))}
        for n in self.mod.body:
            if isinstance(n, (ast.Assign, ast.AnnAssign)):
                for t in (n.targets if isinstance(n, ast.Assign) else [n.target]):
                    if isinstance(t, ast.Name):
                        top.add(t.id)
        clash = (set(self.imports) | self.plain_imports) & top
        if clash:
            raise TranslatorError(f'module-level definition shadows an import: {sorted(clash)}')
        for need in ('Basis', 'Operation', 'resolve_basis'):
            if need not in top:
                raise TranslatorError(f'{need} must be defined in the module')

    def check_circuit_api(self):
        """the Circuit methods the decoder drives are those of the hand model (Model/Circuit.add_gate = the model of
        Circuit.add_gate(Gate(label, type, operands)), mark_as_output): check the parameter order it relies on"""
        if getattr(self, '_api_ok', False):
            return
        cmod = parse(CIRCUIT_PY)
        guard_module(cmod)
        cls = [n for n in cmod.body if isinstance(n, ast.ClassDef) and n.name == 'Circuit']
        if len(cls) != 1:
            raise TranslatorError('class Circuit not found')
        want = {'add_gate': ['self', 'new_gate'], 'mark_as_output': ['self', 'label']}
        for st in cls[0].body:
            if isinstance(st, ast.FunctionDef) and st.name in want:
                if [a.arg for a in st.args.args] != want.pop(st.name) or st.args.kwonlyargs or st.args.vararg:
                    fail(st, 'signature of a Circuit method the decoder uses')
        if want:
            raise TranslatorError(f'Circuit methods missing: {sorted(want)}')
        gmod = parse(GATE_PY)
        guard_module(gmod)
        gcl = [n for n in gmod.body if isinstance(n, ast.ClassDef) and n.name == 'Gate']
        init = [st for st in gcl[0].body if isinstance(st, ast.FunctionDef) and st.name == '__init__'] if gcl else []
        if len(init) != 1 or [a.arg for a in init[0].args.args] != ['self', 'label', 'gate_type', 'operands'] \
                or ast.unparse(init[0].args.defaults[0]) != '()' or len(init[0].args.defaults) != 1:
            raise TranslatorError('Gate.__init__(self, label, gate_type, operands=()) expected')
        self._api_ok = True

    def check_t3(self):
        if not getattr(self, '_t3_ok', False):
            from . import t3_search
            t3_search.extract()          # raises unless _get_GateType_by_tt / _tt_to_gate_type are in T3's grammar
            self._t3_ok = True

    def gate_type_is_always_truthy(self):
        if not self.gate_type_truthy_checked:
            gmod = parse(GATE_PY)
            guard_module(gmod)
            cl = [n for n in gmod.body if isinstance(n, ast.ClassDef) and n.name == 'GateType']
            if len(cl) != 1 or cl[0].bases:
                raise TranslatorError('class GateType of gate.py: not found / has bases')
            for st in cl[0].body:
                if isinstance(st, ast.FunctionDef) and st.name in ('__bool__', '__len__'):
                    fail(st, 'GateType defines its own truth value')
            self.gate_type_truthy_checked = True
        return True

    # ---- which methods change the object
    def direct_mutation(self, node):
        for n in ast.walk(node):
            if isinstance(n, (ast.Assign, ast.AnnAssign, ast.AugAssign)):
                for t in (n.targets if isinstance(n, ast.Assign) else [n.target]):
                    for m in ast.walk(t):
                        if is_self_attr(m) or (isinstance(m, ast.Attribute) and self.mentions_self(m)):
                            return True
                        if isinstance(m, ast.Subscript) and self.mentions_self(m):
                            return True
            if isinstance(n, ast.Call) and isinstance(n.func, ast.Attribute) and is_self_attr(n.func.value) \
                    and n.func.attr in ('append', 'extend'):
                return True
        return False

    @staticmethod
    def mentions_self(node):
        return any(isinstance(m, ast.Name) and m.id == 'self' for m in ast.walk(node))

    def calls_of(self, node):
        return {n.func.attr for n in ast.walk(node)
                if isinstance(n, ast.Call) and is_self_attr(n.func) and n.func.attr in self.methods}

    def compute_mutating(self):
        for m in self.methods.values():
            m.mutates = self.direct_mutation(m.node)
        changed = True
        while changed:
            changed = False
            for m in self.methods.values():
                if not m.mutates and any(self.methods[c].mutates for c in self.calls_of(m.node)):
                    m.mutates = changed = True

    def stmts_mutate(self, stmts):
        for s in stmts:
            if self.direct_mutation(s) or any(self.methods[c].mutates for c in self.calls_of(s)):
                return True
        return False

    # ---- attributes
    def attr(self, name, node):
        for a, ty in self.attrs:
            if a == name:
                return ty
        fail(node, f'attribute self.{name} is not assigned by __init__ (or is the pool)')

    def setter(self, name):
        return f'set_{name}'

    def getter(self, name):
        return f'f_{name}'

    # ---- signatures
    def ann(self, node, pname):
        """annotation -> type"""
        if node is None:
            fail(pname, 'parameter without annotation')
        src = ast.unparse(node)
        table = {'int': NAT, 'bool': BOOL, 'FunctionModel': FMODEL, 'GateType': GTYPE,
                 'tp.Optional[int]': TO(NAT), 'tp.Optional[GateType]': TO(GTYPE),
                 'tp.List[int]': TL(INTLIKE), 'list[int]': TL(INTLIKE)}
        if src not in table:
            fail(node, f'annotation outside grammar: {src}')
        return table[src]

    def signature(self, m):
        if m.params is not None:
            return
        a = m.node.args
        if a.vararg or a.kwarg or a.posonlyargs:
            fail(m.node, '*args / **kwargs / positional-only parameters')
        allp = a.args + a.kwonlyargs
        if not allp or allp[0].arg != 'self':
            fail(m.node, 'first parameter must be self')
        m.params = [(p.arg, self.ann(p.annotation, p.arg)) for p in allp[1:]]
        for i, (pn, ty) in enumerate(m.params):
            if (m.name, pn) in ROOT_PARAM_TYPES:
                if ty != TL(INTLIKE):
                    fail(m.node, f'{pn}: ROOT_PARAM_TYPES applies to List[int] parameters')
                m.params[i] = (pn, TL(ROOT_PARAM_TYPES[(m.name, pn)]))
        m.n_positional = len(a.args) - 1

    def translated(self, name, node=None):
        m = self.methods[name]
        if m.text is None:
            if m.in_progress:
                fail(node or m.node, f'recursive method {name}')
            if name != '__init__':
                self.signature(m)
                if any(has_any(t) for _, t in m.params):
                    fail(node or m.node, f'parameter types of {name} are not determined (translate a caller first)')
            m.in_progress = True
            if name == '__init__':
                InitTr(self, m).translate()
            else:
                FnTr(self, m).translate()
            m.in_progress = False
            self.emitted.append(m)
        return m


class FnTr:
    def __init__(self, unit, m):
        self.u, self.m = unit, m
        self.ntemp = 0
        self.src = m.node
        self.body = strip_docstring(m.node.body)
        self.appended = self.locals_appended()
        self.circuits = {n.func.value.id for n in walk_stmts(self.body)
                         if isinstance(n, ast.Call) and isinstance(n.func, ast.Attribute)
                         and isinstance(n.func.value, ast.Name) and n.func.value.id != 'self'
                         and n.func.attr in ('add_gate', 'mark_as_output')}
        self.gen_uses = {}

    def temp(self):
        self.ntemp += 1
        return f't{self.ntemp}'

    def locals_appended(self):
        out = set()
        for n in walk_stmts(self.body):
            if isinstance(n, ast.Call) and isinstance(n.func, ast.Attribute) and isinstance(n.func.value, ast.Name) \
                    and n.func.value.id != 'self':
                if n.func.attr == 'append':
                    out.add(n.func.value.id)
        return out

    # ------------------------------------------------------------------ function level
    def translate(self):
        m = self.m
        if m.node.args.defaults and any(not isinstance(d, ast.Constant) for d in m.node.args.defaults):
            fail(m.node, 'non-constant default')
        env = {'self': Val('self', 'finder')}
        for p, ty in m.params:
            env[p] = Val('v_' + p, ty)
        returns_value = any(isinstance(n, ast.Return) and n.value is not None for n in walk_stmts(self.body))
        self.ret_tys = []

        def ret(e, val):
            if returns_value:
                if val is None:
                    fail(m.node, 'bare return in a function that returns a value')
                self.ret_tys.append(val.ty)
                return f'SOk (self, {val.code})' if m.mutates else f'SOk {paren(val.code)}'
            if val is not None:
                fail(m.node, 'return with a value')
            return 'SOk self' if m.mutates else 'SOk tt'

        def end(e):
            if returns_value:
                fail(m.node, 'a path reaches the end of a function that returns a value')
            return ret(e, None)

        code = self.block(self.body, env, Ctx(ret), end)
        vty = UNIT
        for t in self.ret_tys:
            vty = t if vty == UNIT else unify(vty, t, m.node)
        m.ret_ty = vty if returns_value else None
        if m.mutates:
            rty = 'finder' if not returns_value else f'finder * {paren_ty(vty)}'
        else:
            rty = coq_ty(vty)
        binders = ' '.join(f'(v_{p} : {coq_ty(ty)})' for p, ty in m.params)
        m.text = (f'(* {CLASS}.{m.name} *)\n'
                  f'Definition {m.coqname} (self : finder){" " + binders if binders else ""} : sres {paren_ty_s(rty)} :=\n'
                  f'{ind(code)}.\n')

    # ------------------------------------------------------------------ statements
    def block(self, stmts, env, ctx, k):
        if not stmts:
            return k(env)
        s, rest = stmts[0], stmts[1:]

        def cont(e):
            return self.block(rest, e, ctx, k)

        if isinstance(s, ast.Expr) and isinstance(s.value, ast.Constant) and isinstance(s.value.value, str):
            return cont(env)
        if isinstance(s, ast.Pass):
            return cont(env)
        if isinstance(s, ast.Assign):
            return self.st_assign(s, env, cont, rest)
        if isinstance(s, ast.AnnAssign):
            if s.value is None:
                return cont(env)
            fail(s, 'annotated assignment with a value')
        if isinstance(s, ast.Expr):
            return self.st_expr(s, env, cont)
        if isinstance(s, ast.Assert):
            if s.msg is not None:
                fail(s, 'assert with a message')
            env = dict(env)
            pre = []
            c = self.truth(s.test, env, pre)
            return seq(pre, f'if {c} then\n{ind(cont(env))}\nelse SErr (SPy PyAssertionError)')
        if isinstance(s, ast.Raise):
            return self.st_raise(s)
        if isinstance(s, ast.Return):
            if ctx.ret is None:
                fail(s, 'return inside a loop')
            if s.value is None:
                return ctx.ret(env, None)
            env = dict(env)
            pre = []
            v = self.expr(s.value, env, pre)
            return seq(pre, ctx.ret(env, v))
        if isinstance(s, ast.Continue):
            if ctx.cont is None:
                fail(s, 'continue outside a loop')
            return ctx.cont(env)
        if isinstance(s, ast.Break):
            if ctx.brk is None:
                fail(s, 'break outside a loop')
            return ctx.brk(env)
        if isinstance(s, ast.If):
            return self.st_if(s, env, ctx, cont)
        if isinstance(s, ast.For):
            return self.st_for(s, env, ctx, cont)
        fail(s, 'statement outside grammar')

    def st_raise(self, s):
        e = s.exc
        if s.cause is not None or not (isinstance(e, ast.Call) and isinstance(e.func, ast.Name)
                                       and not e.args and not e.keywords and e.func.id in EXCEPTIONS):
            fail(s, 'raise outside grammar')
        return f'SErr ({EXCEPTIONS[e.func.id]})'

    def bind_local(self, name, v, env, node):
        """`name = v`: the Coq variable of a Python local is v_<name> (rebinding shadows)"""
        if name == 'self' or name in self.u.imports or name in self.u.plain_imports:
            fail(node, f'assignment to {name}')
        if name in env and env[name].ty != v.ty and not has_any(env[name].ty):
            v = self.coerce(v, env[name].ty, env, None, node)
        env[name] = Val('v_' + name, v.ty)
        return ('let', 'v_' + name, v.code)

    def st_assign(self, s, env, cont, rest):
        if len(s.targets) != 1:
            fail(s, 'chained assignment')
        t = s.targets[0]
        env = dict(env)
        pre = []
        if is_self_attr(t):
            if t.attr == self.u.pool_attr or t.attr == self.u.cnf_attr:
                fail(s, 'the pool / the clause list is rebound outside __init__')
            ty = self.u.attr(t.attr, s)
            v = self.coerce(self.expr(s.value, env, pre), ty, env, pre, s)
            pre.append(('let', 'self', f'{self.u.setter(t.attr)} self {paren(v.code)}'))
            return seq(pre, cont(env))
        if isinstance(t, ast.Name):
            if isinstance(s.value, ast.GeneratorExp):
                return self.st_assign_gen(t.id, s, env, cont, rest)
            if isinstance(s.value, ast.Name) and (s.value.id in self.appended or s.value.id in self.circuits):
                fail(s, 'alias of a list / circuit that is updated in place')
            if t.id in self.circuits and not self.is_new_circuit(s.value):
                fail(s, 'a circuit that is updated in place must be created by Circuit()')
            if t.id in self.appended and not (isinstance(s.value, ast.List) and not s.value.elts):
                fail(s, 'a list that is appended to must be created by []')
            v = self.expr(s.value, env, pre)
            pre.append(self.bind_local(t.id, v, env, s))
            return seq(pre, cont(env))
        if isinstance(t, ast.Tuple) and isinstance(s.value, ast.Tuple) and len(t.elts) == len(s.value.elts) \
                and all(isinstance(x, ast.Name) for x in t.elts):
            vals = [self.expr(e, env, pre) for e in s.value.elts]      # all right-hand sides first
            names = [x.id for x in t.elts]
            if len(set(names)) != len(names):
                fail(s, 'repeated target')
            tmp = []
            for v in vals:
                tv = self.temp()
                pre.append(('let', tv, v.code))
                tmp.append(Val(tv, v.ty))
            for n, v in zip(names, tmp):
                if n in self.appended:
                    fail(s, 'a list that is appended to must be created by []')
                pre.append(self.bind_local(n, v, env, s))
            return seq(pre, cont(env))
        fail(s, 'assignment target outside grammar')

    def st_assign_gen(self, name, s, env, cont, rest):
        """<name> = (<generator expression>): lazy; the next statement must consume it, exactly once"""
        loads = [n for n in walk_stmts(self.body) if isinstance(n, ast.Name) and n.id == name]
        if len(loads) != 2:       # the store and one load
            fail(s, 'a generator bound to a name must be consumed exactly once')
        if not rest or not any(n is loads[1] or n is loads[0] for n in ast.walk(rest[0])):
            fail(s, 'a generator bound to a name must be consumed by the next statement')
        pre = []
        g = self.genexp(s.value, env, pre)
        env[name] = Val(None, ('gen', g['ty']), gen=g)
        return seq(pre, cont(env))

    def st_expr(self, s, env, cont):
        c = s.value
        env = dict(env)
        pre = []
        if isinstance(c, ast.Call) and isinstance(c.func, ast.Attribute):
            f = c.func
            # self._cnf.append / extend
            if is_self_attr(f.value) and f.value.attr == self.u.cnf_attr and f.attr in ('append', 'extend'):
                if len(c.args) != 1 or c.keywords:
                    fail(s, 'append / extend take one argument')
                if isinstance(c.args[0], ast.Name) and c.args[0].id in self.appended:
                    fail(s, 'a list that is updated in place is stored in the clause list')
                v = self.expr(c.args[0], env, pre)
                get = f'{self.u.getter(self.u.cnf_attr)} self'
                if f.attr == 'append':
                    v = self.coerce(v, TL(LIT), env, pre, s)
                    new = f'{get} ++ [{v.code}]'
                else:
                    v = self.coerce(v, CNF_TY, env, pre, s)
                    new = f'{get} ++ {paren(v.code)}'
                pre.append(('let', 'self', f'{self.u.setter(self.u.cnf_attr)} self ({new})'))
                return seq(pre, cont(env))
            # self.method(...)
            if is_self_attr(f) and f.attr in self.u.methods:
                callee, args = self.call_args(c, env, pre)
                app = f'{callee.coqname} self{"".join(" " + paren(a) for a in args)}'
                if callee.mutates:
                    if callee.ret_ty is not None:
                        pre.append(('do', "'(self, _)", app))
                    else:
                        pre.append(('do', 'self', app))
                else:
                    pre.append(('do', '_', app))
                return seq(pre, cont(env))
            # <local circuit>.add_gate(Gate(l, t[, ops])) / .mark_as_output(l): the hand model's Circuit API
            if isinstance(f.value, ast.Name) and f.value.id in self.circuits and f.attr in ('add_gate', 'mark_as_output'):
                name = f.value.id
                if name not in env or env[name].ty != CIRC or len(c.args) != 1 or c.keywords:
                    fail(s, 'circuit method call outside grammar')
                self.u.check_circuit_api()
                if f.attr == 'mark_as_output':
                    l = self.as_ty(c.args[0], env, pre, STR)
                    call = f'mark_as_output {env[name].code} {paren(l.code)}'
                else:
                    g = c.args[0]
                    if not (isinstance(g, ast.Call) and isinstance(g.func, ast.Name) and g.func.id == 'Gate'
                            and self.u.imports.get('Gate') == ('cirbo.core.circuit', 'Gate')
                            and not g.keywords and len(g.args) in (2, 3)):
                        fail(s, 'add_gate of something that is not Gate(label, type[, operands])')
                    l = self.as_ty(g.args[0], env, pre, STR)
                    t = self.as_ty(g.args[1], env, pre, GTYPE)
                    ops = self.as_ty(g.args[2], env, pre, TL(STR)).code if len(g.args) == 3 else '[]'
                    call = f'add_gate {env[name].code} {paren(l.code)} {paren(t.code)} {paren(ops)}'
                pre.append(('do', 'v_' + name, f'lift ({call})'))
                env[name] = Val('v_' + name, CIRC)
                return seq(pre, cont(env))
            # local.append(e)
            if isinstance(f.value, ast.Name) and f.attr == 'append' and f.value.id in self.appended:
                name = f.value.id
                if name not in env or not (isinstance(env[name].ty, tuple) and env[name].ty[0] == 'list'):
                    fail(s, 'append to something that is not a local list')
                if len(c.args) != 1 or c.keywords:
                    fail(s, 'append takes one argument')
                v = self.expr(c.args[0], env, pre)
                ety = unify(env[name].ty[1], v.ty, s)
                v = self.coerce(v, ety, env, pre, s)
                pre.append(('let', 'v_' + name, f'{env[name].code} ++ [{v.code}]'))
                env[name] = Val('v_' + name, TL(ety))
                return seq(pre, cont(env))
        fail(s, 'expression statement outside grammar')

    def carried_locals(self, stmts, env, after_line, node):
        """locals assigned in `stmts` that exist before it: their value is threaded through the branch / loop.  A
        name first bound inside (by an assignment or as a loop target) is not visible afterwards: a later read of it
        is an unknown name (fail closed); a loop target that hides a live local is refused."""
        out = [n for n in assigned_names(stmts) if n in env and env[n].gen is None]
        targets = loop_target_names(stmts)
        if isinstance(node, ast.For):
            targets |= {m.id for m in ast.walk(node.target) if isinstance(m, ast.Name)}
        for n in sorted(targets):
            if n in env:
                fail(node, f'loop variable {n} hides a local of the same name')
        return out

    def state(self, mut, names):
        parts = (['self'] if mut else []) + ['v_' + n for n in names]
        if not parts:
            return '_', None
        if len(parts) == 1:
            return parts[0], parts
        return "'(" + ', '.join(parts) + ')', parts

    def state_value(self, mut, names, tys, e, node):
        parts = ['self'] if mut else []
        for n in names:
            v = e[n]
            if v.ty != tys[n]:
                v = self.coerce(v, tys[n], e, None, node)
            parts.append(v.code)
        if not parts:
            return 'tt'
        return parts[0] if len(parts) == 1 else '(' + ', '.join(parts) + ')'

    def resolve_carried_types(self, names, stmts, env, node):
        """the type a carried local keeps through a branch / loop: its current type, with the unknown content of a
        `None` resolved from the first assignment found in the statements"""
        tys = {}
        for n in names:
            ty = env[n].ty
            if has_any(ty):
                for x in walk_stmts(stmts):
                    if isinstance(x, ast.Assign) and len(x.targets) == 1:
                        t = x.targets[0]
                        cands = []
                        if isinstance(t, ast.Name) and t.id == n:
                            cands = [x.value]
                        elif isinstance(t, ast.Tuple) and isinstance(x.value, ast.Tuple):
                            cands = [v for tt_, v in zip(t.elts, x.value.elts)
                                     if isinstance(tt_, ast.Name) and tt_.id == n]
                        for cnd in cands:
                            if isinstance(cnd, ast.Name) and cnd.id in self.scope_types(stmts, env):
                                ty = unify(ty, self.scope_types(stmts, env)[cnd.id], node)
            if has_any(ty) and ty == TL(ANY):
                for x in walk_stmts(stmts):
                    if isinstance(x, ast.Call) and isinstance(x.func, ast.Attribute) and x.func.attr == 'append' \
                            and isinstance(x.func.value, ast.Name) and x.func.value.id == n and len(x.args) == 1 \
                            and isinstance(x.args[0], ast.Constant) and isinstance(x.args[0].value, bool):
                        ty = TL(BOOL)
            if has_any(ty):
                fail(node, f'type of {n} cannot be determined')
            tys[n] = ty
        return tys

    def scope_types(self, stmts, env):
        """types of names visible in stmts: env plus the targets of the for loops over typed iterables"""
        out = {k: v.ty for k, v in env.items()}
        for x in walk_stmts(stmts):
            if isinstance(x, ast.For):
                try:
                    _, ety = self.iterable(x.iter, dict(env), [])
                except TranslatorError:
                    continue
                _, binds = self.target(x.target, ety)
                for k, v in binds.items():
                    out.setdefault(k, v.ty)
        return out

    def st_if(self, s, env, ctx, cont):
        env = dict(env)
        pre = []
        test = self.truth(s.test, env, pre)
        tenv, tpre = dict(env), []
        for name in self.narrowed_by(s.test, env):
            if loads(name, s.body):
                self.narrow(name, tenv, tpre, s)
        fenv = dict(env)
        if has_jump(s.body) or has_jump(s.orelse) or not falls_through(s.body) or not falls_through(s.orelse):
            # a branch leaves: the continuation goes into the branches that fall through
            a = seq(tpre, self.block(s.body, tenv, ctx, cont))
            b = self.block(s.orelse, fenv, ctx, cont)
            return seq(pre, f'if {test} then\n{ind(a)}\nelse\n{ind(b)}')
        both = list(s.body) + list(s.orelse)
        mut = self.u.stmts_mutate(both)
        names = self.carried_locals(both, env, s.end_lineno, s)
        # a local that only one branch defines and that did not exist before cannot be carried
        tys = self.resolve_carried_types(names, both, env, s)
        for n in names:
            env[n] = Val(env[n].code, tys[n])
            tenv[n] = Val(tenv[n].code, tys[n]) if tenv[n].code == env[n].code else tenv[n]
            fenv[n] = Val(env[n].code, tys[n])
        pat, parts = self.state(mut, names)

        def fall(e):
            return f'SOk {paren(self.state_value(mut, names, tys, e, s))}'

        inner = Ctx(None, ctx.cont, ctx.brk)      # no jump inside (checked above)
        a = seq(tpre, self.block(s.body, tenv, inner, fall))
        b = self.block(s.orelse, fenv, inner, fall)
        after = dict(env)
        for n in names:
            after[n] = Val('v_' + n, tys[n])
        code = f'sdo {pat.lstrip(chr(39))} <- (if {test} then\n{ind(a)}\nelse\n{ind(b)});'
        return seq(pre, code + '\n' + cont(after))

    def target(self, t, ty):
        """pattern and bindings of a loop / comprehension target"""
        if isinstance(t, ast.Name):
            return 'v_' + t.id, {t.id: Val('v_' + t.id, ty)}
        if isinstance(t, ast.Tuple) and isinstance(ty, tuple) and ty[0] == 'tuple' and len(ty) - 1 == len(t.elts) \
                and all(isinstance(x, ast.Name) for x in t.elts):
            names = [x.id for x in t.elts]
            if len(set(names)) != len(names):
                fail(t, 'repeated name in a target')
            return "'(" + ', '.join('v_' + n for n in names) + ')', \
                {n: Val('v_' + n, et) for n, et in zip(names, ty[1:])}
        fail(t, f'loop target outside grammar for elements of type {ty}')

    def st_for(self, s, env, ctx, cont):
        if s.orelse:
            fail(s, 'for-else')
        env = dict(env)
        pre = []
        it, ety = self.iterable(s.iter, env, pre)
        pat, binds = self.target(s.target, ety)
        for n in binds:
            if n in self.appended or n == 'self':
                fail(s, 'loop target')
        mut = self.u.stmts_mutate(s.body)
        names = self.carried_locals(s.body, env, s.end_lineno, s)
        names = [n for n in names if n not in binds]
        tys = self.resolve_carried_types(names, [s], env, s)
        brk = breaks_here(s.body)
        spat, parts = self.state(mut, names)
        init = self.state_value(mut, names, tys, env, s)
        benv = dict(env)
        for n in names:
            benv[n] = Val('v_' + n, tys[n])
        benv.update(binds)

        def fall(e):
            v = self.state_value(mut, names, tys, e, s)
            return f'SOk (LNext {paren(v)})' if brk else f'SOk {paren(v)}'

        def leave(e):
            return f'SOk (LBreak {paren(self.state_value(mut, names, tys, e, s))})'

        body = self.block(s.body, benv, Ctx(None, fall, leave), fall)
        comb = 'sloop' if brk else 'sfoldM'
        code = f'sdo {spat.lstrip(chr(39))} <- {comb} (fun {spat if spat != "_" else "_"} {pat} =>\n{ind(body)}) {paren(it)} {paren(init)};'
        after = dict(env)
        for n in names:
            after[n] = Val('v_' + n, tys[n])
        return seq(pre, code + '\n' + cont(after))

    # ------------------------------------------------------------------ expressions
    def coerce(self, v, want, env, pre, node, name=None):
        if v.ty == want:
            return v
        if has_any(v.ty) and not has_any(want):
            unify(v.ty, want, node)            # [] / None at the wanted type
            return Val(v.code, want)
        if isinstance(want, tuple) and want[0] == 'opt' and v.ty == want[1]:
            return Val(f'Some {paren(v.code)}', want)
        if isinstance(v.ty, tuple) and v.ty[0] == 'opt' and v.ty[1] == want and pre is not None:
            t = self.temp()
            pre.append(('do', t, f'unwrap {paren(v.code)}'))
            if name is not None and env is not None and name in env and env[name].code == v.code:
                env[name] = Val(t, want)       # dominated by the binding: not None from here on
            return Val(t, want)
        fail(node, f'a value of type {v.ty} where {want} is expected')

    def as_ty(self, node, env, pre, want):
        v = self.expr(node, env, pre)
        return self.coerce(v, want, env, pre, node, node.id if isinstance(node, ast.Name) else None)

    def narrowed_by(self, test, env):
        """Optional variables that are not None whenever `test` is true"""
        if isinstance(test, ast.Compare) and len(test.ops) == 1 and isinstance(test.ops[0], ast.IsNot) \
                and isinstance(test.left, ast.Name) and isinstance(test.comparators[0], ast.Constant) \
                and test.comparators[0].value is None:
            return [test.left.id]
        if isinstance(test, ast.BoolOp) and isinstance(test.op, ast.And):
            out = []
            for v in test.values:
                out += [n for n in self.narrowed_by(v, env) if n not in out]
            return out
        if isinstance(test, ast.Name) and test.id in env and env[test.id].ty == TO(GTYPE):
            return [test.id]
        return []

    def narrow(self, name, env, pre, node):
        v = env.get(name)
        if v is None or not (isinstance(v.ty, tuple) and v.ty[0] == 'opt'):
            return
        if has_any(v.ty):
            fail(node, f'type of {name} cannot be determined')
        t = self.temp()
        pre.append(('do', t, f'unwrap {v.code}'))
        env[name] = Val(t, v.ty[1])

    def scoped(self, node, env, narrowed=()):
        """an expression evaluated only on some paths: its own bindings; returns (monadic?, code, type)"""
        e2, pre2 = dict(env), []
        for n in narrowed:
            if loads(n, [node]):
                self.narrow(n, e2, pre2, node)
        v = self.expr(node, e2, pre2)
        return pre2, v

    def truth(self, node, env, pre):
        """the truth value of an expression as a Coq bool"""
        v = self.expr(node, env, pre)
        return self.truth_of(v, env, pre, node)

    def truth_of(self, v, env, pre, node):
        if v.ty == BOOL:
            return v.code
        if v.ty == NAT:
            return f'nz {paren(v.code)}'
        if v.ty == TRI:
            t = self.temp()
            pre.append(('do', t, f'tri_truthy {paren(v.code)}'))
            return t
        if v.ty == ST:
            t = self.temp()
            pre.append(('do', t, f'st_truthy {paren(v.code)}'))
            return t
        if v.ty == TO(GTYPE) and self.u.gate_type_is_always_truthy():
            return f'is_some {paren(v.code)}'
        fail(node, f'truth value of a {v.ty}')

    def sign(self, node, env, pre):
        """1 | -1 | <sign> if c else <sign>  as a Coq bool (true = 1); None if the node is no sign"""
        if isinstance(node, ast.Constant) and type(node.value) is int and node.value == 1:
            return 'true'
        if isinstance(node, ast.UnaryOp) and isinstance(node.op, ast.USub) and isinstance(node.operand, ast.Constant) \
                and type(node.operand.value) is int and node.operand.value == 1:
            return 'false'
        if isinstance(node, ast.IfExp):
            # decide syntactically first (no code emitted for a non-sign)
            def is_sign(n):
                return (isinstance(n, ast.Constant) and type(n.value) is int and n.value == 1) or \
                    (isinstance(n, ast.UnaryOp) and isinstance(n.op, ast.USub) and isinstance(n.operand, ast.Constant)
                     and type(n.operand.value) is int and n.operand.value == 1) or \
                    (isinstance(n, ast.IfExp) and is_sign(n.body) and is_sign(n.orelse))
            if not is_sign(node):
                return None
            c = self.truth(node.test, env, pre)
            a = self.sign(node.body, env, pre)
            b = self.sign(node.orelse, env, pre)
            return f'(if {c} then {a} else {b})'
        return None

    def expr(self, node, env, pre):
        if isinstance(node, ast.Constant):
            if node.value is True or node.value is False:
                return Val('true' if node.value else 'false', BOOL)
            if node.value is None:
                return Val('None', TO(ANY))
            if type(node.value) is int and node.value >= 0:
                return Val(str(node.value), NAT)
            if isinstance(node.value, str) and all(32 <= ord(ch) < 127 and ch != '"' for ch in node.value):
                return Val(f'"{node.value}"%string', STR)
            fail(node, 'constant outside grammar')
        if isinstance(node, ast.Name):
            if node.id in env:
                v = env[node.id]
                if v.gen is not None:
                    fail(node, 'a generator may only be iterated')
                if node.id in self.appended and not isinstance(node.ctx, ast.Load):
                    fail(node, 'store')
                return v
            if node.id in GTYPES and self.u.imports.get(node.id) == ('cirbo.core.circuit', node.id):
                return Val(node.id, GTYPE)
            fail(node, f'unknown name {node.id}')
        if isinstance(node, ast.Attribute):
            return self.attribute(node, env, pre)
        if isinstance(node, ast.Subscript):
            if isinstance(node.slice, ast.Slice):
                fail(node, 'slice')
            base = self.expr(node.value, env, pre)
            if not (isinstance(base.ty, tuple) and base.ty[0] == 'list'):
                fail(node, f'indexing a {base.ty}')
            i = self.as_ty(node.slice, env, pre, NAT)
            t = self.temp()
            pre.append(('do', t, f'py_idx {paren(base.code)} {paren(i.code)}'))
            return Val(t, base.ty[1])
        if isinstance(node, ast.BinOp):
            return self.binop(node, env, pre)
        if isinstance(node, ast.UnaryOp):
            if isinstance(node.op, ast.Not):
                return Val(f'negb {paren(self.truth(node.operand, env, pre))}', BOOL)
            if isinstance(node.op, ast.USub):
                v = self.expr(node.operand, env, pre)
                if v.ty == LIT:
                    return Val(f'lneg {paren(v.code)}', LIT)
            fail(node, 'unary operator outside grammar')
        if isinstance(node, ast.BoolOp):
            return self.boolop(node, env, pre)
        if isinstance(node, ast.Compare):
            return self.compare(node, env, pre)
        if isinstance(node, ast.IfExp):
            return self.ifexp(node, env, pre)
        if isinstance(node, ast.List):
            if not node.elts:
                return Val('[]', TL(ANY))
            vals = [self.expr(e, env, pre) for e in node.elts]
            ty = vals[0].ty
            for v in vals[1:]:
                ty = unify(ty, v.ty, node)
            vals = [self.coerce(v, ty, env, pre, node) for v in vals]
            return Val('[' + '; '.join(v.code for v in vals) + ']', TL(ty))
        if isinstance(node, ast.Tuple):
            vals = [self.expr(e, env, pre) for e in node.elts]
            if not vals or any(v.ty != vals[0].ty for v in vals) or vals[0].ty not in (NAT, STR):
                fail(node, 'tuple outside grammar (only tuples of ints or of labels, read as sequences)')
            return Val('[' + '; '.join(v.code for v in vals) + ']', TL(vals[0].ty))
        if isinstance(node, ast.ListComp):
            g = self.genexp(node, env, pre)
            if g['pre']:
                body = seq(g['pre'], f'SOk {paren(g["code"])}')
                t = self.temp()
                pre.append(('do', t, f'smapM (fun {g["pat"]} =>\n{ind(body)}) {paren(g["items"])}'))
                return Val(t, TL(g['ty']))
            return Val(f'map (fun {g["pat"]} => {g["code"]}) {paren(g["items"])}', TL(g['ty']))
        if isinstance(node, ast.Call):
            return self.call(node, env, pre)
        fail(node, 'expression outside grammar')

    def attribute(self, node, env, pre):
        if is_self_attr(node):
            if node.attr == self.u.pool_attr:
                fail(node, 'the pool may only be asked for ids')
            ty = self.u.attr(node.attr, node)
            return Val(f'{self.u.getter(node.attr)} self', ty)
        base = self.expr(node.value, env, pre)
        if base.ty == FMODEL and node.attr in ('input_size', 'output_size'):
            return Val(f'fm_{node.attr} {paren(base.code)}', NAT)
        if base.ty == TT4 and node.attr == 'value':
            return Val(f'tt4_digits {paren(base.code)}', TL(DIGIT))
        if base.ty == CNF_TY and node.attr == 'clauses' and is_self_attr(node.value) \
                and node.value.attr == self.u.cnf_attr:
            return base
        fail(node, f'attribute .{node.attr} of a {base.ty}')

    def shift_count(self, node, env, pre):
        """a shift count: a - b is computed on naturals, a negative result is the ValueError of the shift"""
        if isinstance(node, ast.BinOp) and isinstance(node.op, ast.Sub):
            a = self.shift_count(node.left, env, pre)
            b = self.as_ty(node.right, env, pre, NAT)
            t = self.temp()
            pre.append(('do', t, f'py_shift_sub {paren(a.code)} {paren(b.code)}'))
            return Val(t, NAT)
        return self.as_ty(node, env, pre, NAT)

    def binop(self, node, env, pre):
        op = node.op
        if isinstance(op, ast.Mult):
            s = self.sign(node.left, env, pre)
            if s is not None:
                r = self.expr(node.right, env, pre)
                if r.ty != LIT:
                    fail(node, 'sign * something that is not a literal')
                return Val(f'lmul {s} {paren(r.code)}', LIT)
        if isinstance(op, (ast.RShift, ast.LShift)):
            a = self.as_ty(node.left, env, pre, NAT)
            b = self.shift_count(node.right, env, pre)
            fn = 'Nat.shiftr' if isinstance(op, ast.RShift) else 'Nat.shiftl'
            return Val(f'{fn} {paren(a.code)} {paren(b.code)}', NAT)
        if isinstance(op, (ast.FloorDiv, ast.Mod)):
            a = self.as_ty(node.left, env, pre, NAT)
            if not (isinstance(node.right, ast.Constant) and type(node.right.value) is int and node.right.value > 0):
                fail(node, 'division by something that is not a positive literal')
            fn = 'Nat.div' if isinstance(op, ast.FloorDiv) else 'Nat.modulo'
            return Val(f'{fn} {paren(a.code)} {node.right.value}', NAT)
        if isinstance(op, ast.Add):
            p0 = []
            l = self.expr(node.left, dict(env), p0)
            if l.ty == STR:
                l = self.expr(node.left, env, pre)
                r = self.as_ty(node.right, env, pre, STR)
                return Val(f'({paren(l.code)} ++ {paren(r.code)})%string', STR)
        if isinstance(op, (ast.Add, ast.Mult, ast.BitAnd)):
            a = self.as_ty(node.left, env, pre, NAT)
            b = self.as_ty(node.right, env, pre, NAT)
            if isinstance(op, ast.BitAnd):
                return Val(f'Nat.land {paren(a.code)} {paren(b.code)}', NAT)
            return Val(f'{paren(a.code)} {"+" if isinstance(op, ast.Add) else "*"} {paren(b.code)}', NAT)
        fail(node, 'binary operator outside grammar')

    def boolop(self, node, env, pre):
        is_and = isinstance(node.op, ast.And)
        first = self.truth(node.values[0], env, pre)
        acc = first
        narrowed = list(self.narrowed_by(node.values[0], env)) if is_and else []
        codes = [first]
        # operands after the first are evaluated only on some paths
        for i, v in enumerate(node.values[1:], 1):
            e2, pre2 = dict(env), []
            for n in narrowed:
                if loads(n, [v]):
                    self.narrow(n, e2, pre2, node)
            c = self.truth(v, e2, pre2)
            if pre2:
                # monadic right operand: everything up to here becomes one value, the rest is conditional
                rest_node = ast.BoolOp(op=node.op, values=node.values[i:]) if len(node.values) - i > 1 else v
                ast.copy_location(rest_node, node)
                e3, pre3 = dict(env), []
                for n in narrowed:
                    if loads(n, [rest_node]):
                        self.narrow(n, e3, pre3, node)
                rc = self.truth(rest_node, e3, pre3)
                body = seq(pre3, f'SOk {paren(rc)}')
                t = self.temp()
                left = ' && '.join(paren(x) for x in codes) if is_and else ' || '.join(paren(x) for x in codes)
                if is_and:
                    pre.append(('do', t, f'(if {left} then\n{ind(body)}\nelse SOk false)'))
                else:
                    pre.append(('do', t, f'(if {left} then SOk true else\n{ind(body)})'))
                return Val(t, BOOL)
            codes.append(c)
            if is_and:
                narrowed += [n for n in self.narrowed_by(v, env) if n not in narrowed]
        joiner = ' && ' if is_and else ' || '
        return Val(joiner.join(paren(x) for x in codes), BOOL)

    def is_dontcare(self, node):
        return isinstance(node, ast.Name) and node.id == 'DontCare' and \
            self.u.imports.get('DontCare') == ('cirbo.core.logic', 'DontCare')

    def compare(self, node, env, pre):
        operands = [node.left] + list(node.comparators)
        if len(node.ops) == 1:
            return Val(self.compare1(node.ops[0], operands[0], operands[1], env, pre, node), BOOL)
        # chained: a op b op c  ==  a op b and b op c, each operand evaluated once (pure operands only)
        vals = []
        for o in operands:
            p2 = []
            v = self.as_ty(o, env, p2, NAT)
            if p2:
                fail(node, 'chained comparison with an operand that can raise')
            vals.append(v)
        parts = []
        for op, a, b in zip(node.ops, vals, vals[1:]):
            parts.append(self.nat_cmp(op, a.code, b.code, node))
        return Val(' && '.join(paren(p) for p in parts), BOOL)

    def nat_cmp(self, op, a, b, node):
        a, b = paren(a), paren(b)
        if isinstance(op, ast.Eq):
            return f'{a} =? {b}'
        if isinstance(op, ast.NotEq):
            return f'negb ({a} =? {b})'
        if isinstance(op, ast.Lt):
            return f'{a} <? {b}'
        if isinstance(op, ast.LtE):
            return f'{a} <=? {b}'
        if isinstance(op, ast.Gt):
            return f'{b} <? {a}'
        if isinstance(op, ast.GtE):
            return f'{b} <=? {a}'
        fail(node, 'comparison operator outside grammar')

    def compare1(self, op, l, r, env, pre, node):
        if isinstance(op, (ast.Is, ast.IsNot)):
            if not (isinstance(r, ast.Constant) and r.value is None):
                fail(node, '`is` against something other than None')
            v = self.expr(l, env, pre)
            if not (isinstance(v.ty, tuple) and v.ty[0] == 'opt'):
                fail(node, '`is None` on a value that is not Optional')
            return f'{"is_none" if isinstance(op, ast.Is) else "is_some"} {paren(v.code)}'
        if isinstance(op, (ast.In, ast.NotIn)):
            a = self.expr(l, env, pre)
            b = self.expr(r, env, pre)
            if not (isinstance(b.ty, tuple) and b.ty[0] == 'list'):
                fail(node, '`in` on something that is not a list')
            if b.ty[1] == NAT and a.ty == TO(NAT):
                c = f'opt_mem_nat {paren(a.code)} {paren(b.code)}'        # None in l is False
            elif b.ty[1] == NAT:
                a = self.coerce(a, NAT, env, pre, node, l.id if isinstance(l, ast.Name) else None)
                c = f'mem_nat {paren(a.code)} {paren(b.code)}'
            elif b.ty[1] == LIT and a.ty == LIT:
                c = f'lit_in {paren(a.code)} {paren(b.code)}'
            elif b.ty[1] == BOOL and a.ty == ST:
                c = f'st_in_bools {paren(a.code)} {paren(b.code)}'
            else:
                fail(node, f'`in` between {a.ty} and {b.ty}')
            return c if isinstance(op, ast.In) else f'negb ({c})'
        if isinstance(op, (ast.Eq, ast.NotEq)) and (self.is_dontcare(l) or self.is_dontcare(r)):
            other = r if self.is_dontcare(l) else l
            v = self.expr(other, env, pre)
            if v.ty != TRI:
                fail(node, 'comparison of DontCare with something that is not a truth-table cell')
            c = f'tri_is_dc {paren(v.code)}'
            return c if isinstance(op, ast.Eq) else f'negb ({c})'
        a = self.as_ty(l, env, pre, NAT)
        b = self.as_ty(r, env, pre, NAT)
        return self.nat_cmp(op, a.code, b.code, node)

    def ifexp(self, node, env, pre):
        c = self.truth(node.test, env, pre)
        pa, a = self.scoped(node.body, env, self.narrowed_by(node.test, env))
        pb, b = self.scoped(node.orelse, env)
        ty = unify(a.ty, b.ty, node)
        a = self.coerce(a, ty, None, None, node)
        b = self.coerce(b, ty, None, None, node)
        if not pa and not pb:
            return Val(f'if {c} then {a.code} else {b.code}', ty)
        t = self.temp()
        x = seq(pa, f'SOk {paren(a.code)}')
        y = seq(pb, f'SOk {paren(b.code)}')
        pre.append(('do', t, f'(if {c} then\n{ind(x)}\nelse\n{ind(y)})'))
        return Val(t, ty)

    # ---- iterables, comprehensions, generators
    def iterable(self, node, env, pre):
        if isinstance(node, ast.Name) and node.id in env and env[node.id].gen is not None:
            fail(node, 'a generator may only be iterated by a generator expression / all()')
        v = self.expr(node, env, pre)
        if not (isinstance(v.ty, tuple) and v.ty[0] == 'list'):
            fail(node, f'iteration over a {v.ty}')
        if isinstance(node, ast.Name) and node.id in self.appended:
            fail(node, 'iteration over a list that is updated in place')
        return v.code, v.ty[1]

    def genexp(self, node, env, pre):
        """[elt for target in it] / (elt for ...): the iterable is evaluated now, the element per item"""
        if len(node.generators) != 1:
            fail(node, 'nested comprehension')
        g = node.generators[0]
        if g.ifs or g.is_async:
            fail(node, 'comprehension with a condition')
        if isinstance(g.iter, ast.Name) and g.iter.id in env and env[g.iter.id].gen is not None:
            inner = env[g.iter.id].gen             # a generator over a generator: compose, still lazy
            e2 = dict(inner['env'])
            pat, binds = self.target(g.target, inner['ty'])
            e2.update(binds)
            for k, v in env.items():              # names of the current scope (same values: consumed at once)
                e2.setdefault(k, v)
            pre2 = list(inner['pre'])
            pre2.append(('let', pat, inner['code']))
            v = self.expr(node.elt, e2, pre2)
            return {'items': inner['items'], 'pat': inner['pat'], 'pre': pre2, 'code': v.code, 'ty': v.ty, 'env': e2}
        items, ety = self.iterable(g.iter, env, pre)
        pat, binds = self.target(g.target, ety)
        e2 = dict(env)
        e2.update(binds)
        pre2 = []
        v = self.expr(node.elt, e2, pre2)
        return {'items': items, 'pat': pat, 'pre': pre2, 'code': v.code, 'ty': v.ty, 'env': e2}

    # ---- calls
    def call_args(self, c, env, pre):
        name = c.func.attr
        callee = self.u.methods[name]
        if name == '__init__':
            fail(c, 'call of __init__')
        self.u.signature(callee)
        given = {}
        if len(c.args) > callee.n_positional:
            fail(c, 'too many positional arguments')
        for (p, _), a in zip(callee.params, c.args):
            if isinstance(a, ast.Starred):
                fail(c, 'starred argument')
            given[p] = a
        for kw in c.keywords:
            if kw.arg is None or kw.arg in given or kw.arg not in dict(callee.params):
                fail(c, 'keyword argument')
            given[kw.arg] = kw.value
        vals = {}
        for p, ty in callee.params:               # evaluation in the order written: positional then keywords
            pass
        order = [p for (p, _), _a in zip(callee.params, c.args)] + [kw.arg for kw in c.keywords]
        for p in order:
            vals[p] = self.expr(given[p], env, pre)
        defaults = self.defaults_of(callee)
        args = []
        new_params = []
        for p, ty in callee.params:
            if p in vals:
                v = vals[p]
                if has_any(ty):
                    if has_any(v.ty):
                        fail(c, f'type of argument {p} cannot be determined')
                    want = v.ty
                    # List[int]: a list of ints or of literals
                    if not (isinstance(want, tuple) and want[0] == 'list' and want[1] in (NAT, LIT)):
                        fail(c, f'argument {p} of type {want}')
                    ty = want
                    if callee.text is not None or callee.in_progress:
                        fail(c, 'signature fixed after translation')
                v = self.coerce(v, ty, env, pre, c, given[p].id if isinstance(given[p], ast.Name) else None)
                args.append(v.code)
            elif p in defaults:
                v = self.coerce(defaults[p], ty, env, pre, c)
                args.append(v.code)
            else:
                fail(c, f'missing argument {p}')
            new_params.append((p, ty))
        callee.params = new_params
        self.u.translated(name, c)
        return callee, args

    def defaults_of(self, callee):
        a = callee.node.args
        out = {}
        pos = a.args[1:]
        for p, d in zip(pos[len(pos) - len(a.defaults):], a.defaults):
            out[p.arg] = d
        for p, d in zip(a.kwonlyargs, a.kw_defaults):
            if d is not None:
                out[p.arg] = d
        res = {}
        for k, d in out.items():
            if isinstance(d, ast.Constant) and (d.value is None or d.value is True or d.value is False):
                res[k] = self.expr(d, {}, [])
        return res

    def call(self, node, env, pre):
        f = node.func
        # self.<pool>.id(f'...')
        if isinstance(f, ast.Attribute) and f.attr == 'id' and is_self_attr(f.value) \
                and f.value.attr == self.u.pool_attr and self.u.pool_attr is not None:
            return self.pool_id(node, env, pre)
        if isinstance(f, ast.Attribute) and is_self_attr(f) and f.attr in self.u.methods:
            callee, args = self.call_args(node, env, pre)
            if callee.mutates:
                fail(node, 'a method that changes the object is called inside an expression')
            if callee.ret_ty is None:
                fail(node, 'value of a method that returns nothing')
            t = self.temp()
            pre.append(('do', t, f'{callee.coqname} self{"".join(" " + paren(a) for a in args)}'))
            return Val(t, callee.ret_ty)
        if isinstance(f, ast.Attribute) and isinstance(f.value, ast.Name) and f.value.id == 'itertools' \
                and 'itertools' in self.u.plain_imports and 'itertools' not in env:
            return self.itertools(node, env, pre)
        if isinstance(f, ast.Attribute) and f.attr == 'operator':
            g = self.as_ty(f.value, env, pre, GTYPE)
            if node.keywords:
                fail(node, 'keyword arguments to an operator')
            args = [self.as_ty(a, env, pre, BOOL) for a in node.args]
            t = self.temp()
            pre.append(('do', t, f'lift (operator_of {paren(g.code)} [{"; ".join("inj " + paren(a.code) for a in args)}])'))
            return Val(t, ST)
        if isinstance(f, ast.Attribute) and f.attr == 'get_model_truth_table' and not node.args and not node.keywords:
            b = self.expr(f.value, env, pre)
            if b.ty == FMODEL:
                return Val(f'fm_table {paren(b.code)}', TL(TL(TRI)))
        if self.is_new_circuit(node):
            return Val('empty_circuit', CIRC)
        if isinstance(f, ast.Name) and f.id == '_get_GateType_by_tt' and f.id not in env and f.id not in self.u.imports:
            # T3 checks that its body is `return _tt_to_gate_type[tuple(gate_tt)]` and emits the table
            self.u.check_t3()
            if len(node.args) != 1 or node.keywords:
                fail(node, 'call of _get_GateType_by_tt')
            v = self.as_ty(node.args[0], env, pre, TL(BOOL))
            t = self.temp()
            pre.append(('do', t, f'tt4_of_list {paren(v.code)}'))
            return Val(f'tt_to_gate_type {t}', GTYPE)
        if isinstance(f, ast.Name) and f.id not in env and f.id not in self.u.imports \
                and not any(isinstance(n, (ast.FunctionDef, ast.ClassDef)) and n.name == f.id for n in self.u.mod.body):
            return self.builtin(node, f.id, env, pre)
        fail(node, 'call outside grammar')

    def is_new_circuit(self, node):
        return isinstance(node, ast.Call) and isinstance(node.func, ast.Name) and node.func.id == 'Circuit' \
            and self.u.imports.get('Circuit') == ('cirbo.core.circuit', 'Circuit') and not node.args and not node.keywords

    def pool_id(self, node, env, pre):
        if len(node.args) != 1 or node.keywords or not isinstance(node.args[0], ast.JoinedStr):
            fail(node, 'pool id of something that is not an f-string')
        shape, fields = '', []
        for part in node.args[0].values:
            if isinstance(part, ast.Constant) and isinstance(part.value, str):
                shape += part.value
            elif isinstance(part, ast.FormattedValue) and part.conversion == -1 and part.format_spec is None:
                shape += '{}'
                fields.append(part.value)
            else:
                fail(node, 'f-string part outside grammar')
        if shape not in VAR_NAMES:
            fail(node, f'variable name {shape!r} is not one of the model')
        ctor, kinds = VAR_NAMES[shape]
        args = []
        for fld, kind in zip(fields, kinds):
            v = self.as_ty(fld, env, pre, NAT)          # an int formats as its decimal digits
            if kind == 'bit':
                t = self.temp()
                pre.append(('do', t, f'bit_of_nat {paren(v.code)}'))
                args.append(t)
            else:
                args.append(paren(v.code))
        return Val(f'pos ({ctor} {" ".join(args)})', LIT)

    def itertools(self, node, env, pre):
        fn = node.func.attr
        if fn == 'combinations' and len(node.args) == 2 and not node.keywords \
                and isinstance(node.args[1], ast.Constant) and node.args[1].value == 2:
            items, ety = self.iterable(node.args[0], env, pre)
            return Val(f'comb2 {paren(items)}', TL(TT(ety, ety)))
        if fn == 'product' and len(node.args) == 1 and len(node.keywords) == 1 and node.keywords[0].arg == 'repeat' \
                and isinstance(node.keywords[0].value, ast.Constant) and node.keywords[0].value.value in (2, 3):
            k = node.keywords[0].value.value
            items, ety = self.iterable(node.args[0], env, pre)
            return Val(f'py_product{k} {paren(items)}', TL(TT(*([ety] * k))))
        fail(node, 'itertools call outside grammar')

    def builtin(self, node, name, env, pre):
        if node.keywords:
            fail(node, 'keyword argument to a built-in')
        args = node.args
        if name == 'range' and len(args) in (1, 2):
            vs = [self.as_ty(a, env, pre, NAT) for a in args]
            if len(vs) == 1:
                return Val(f'seq 0 {paren(vs[0].code)}', TL(NAT))
            return Val(f'seq {paren(vs[0].code)} ({paren(vs[1].code)} - {paren(vs[0].code)})', TL(NAT))
        if name == 'len' and len(args) == 1:
            v = self.expr(args[0], env, pre)
            if not (isinstance(v.ty, tuple) and v.ty[0] == 'list'):
                fail(node, 'len of something that is not a list')
            return Val(f'length {paren(v.code)}', NAT)
        if name == 'int' and len(args) == 1:
            v = self.expr(args[0], env, pre)
            if v.ty in (NAT, DIGIT):
                return Val(v.code, NAT)
            if v.ty == BOOL:
                return Val(f'b2n {paren(v.code)}', NAT)
            fail(node, f'int() of a {v.ty}')
        if name == 'str' and len(args) == 1:
            v = self.expr(args[0], env, pre)
            if v.ty == STR:
                return v
            if v.ty == NAT:
                return Val(f'nat_str {paren(v.code)}', STR)
            if v.ty == TO(NAT):
                return Val(f'opt_nat_str {paren(v.code)}', STR)           # str(None) = 'None'
            fail(node, f'str() of a {v.ty}')
        if name == 'bool' and len(args) == 1:
            v = self.expr(args[0], env, pre)
            return Val(self.truth_of(v, env, pre, node), BOOL)
        if name == 'list' and len(args) == 1:
            v = self.expr(args[0], env, pre)
            if isinstance(v.ty, tuple) and v.ty[0] == 'list':
                if isinstance(args[0], ast.Name) and args[0].id in self.appended:
                    fail(node, 'copy of a list that is updated in place')
                return v
            fail(node, 'list() of something that is not a list')
        if name in ('min', 'max') and len(args) == 2:
            a = self.as_ty(args[0], env, pre, NAT)
            b = self.as_ty(args[1], env, pre, NAT)
            return Val(f'Nat.{name} {paren(a.code)} {paren(b.code)}', NAT)
        if name == 'all' and len(args) == 1:
            a = args[0]
            if isinstance(a, ast.GeneratorExp):
                g = self.genexp(a, env, pre)
            elif isinstance(a, ast.Name) and a.id in env and env[a.id].gen is not None:
                g = env[a.id].gen
            else:
                fail(node, 'all() of something that is not a generator')
            tv_pre = list(g['pre'])
            c = self.truth_of(Val(g['code'], g['ty']), g['env'], tv_pre, node)
            if not tv_pre:
                return Val(f'forallb (fun {g["pat"]} => {c}) {paren(g["items"])}', BOOL)
            t = self.temp()
            body = seq(tv_pre, f'SOk {paren(c)}')
            pre.append(('do', t, f'sallM (fun {g["pat"]} =>\n{ind(body)}) {paren(g["items"])}'))
            return Val(t, BOOL)
        fail(node, f'built-in {name} outside grammar')


class InitTr(FnTr):
    """__init__: the record of the attributes it assigns"""

    def translate(self):
        m, u = self.m, self.u
        a = m.node.args
        if a.vararg or a.kwarg or a.posonlyargs:
            fail(m.node, '*args / **kwargs')
        params = []
        env = {}
        for p in a.args[1:] + a.kwonlyargs:
            if p.arg == 'basis':
                continue                      # replaced by the resolved list `_basis` (idiom below)
            ty = u.ann(p.annotation, p.arg)
            params.append((p.arg, ty))
            env[p.arg] = Val('v_' + p.arg, ty)
        body = list(self.body)
        lets = []
        seen_basis = False
        forb_attr = None
        for st in body:
            if isinstance(st, ast.AnnAssign) and st.value is None and isinstance(st.target, ast.Name):
                continue
            if isinstance(st, ast.If):
                if ast.unparse(st) != BASIS_IDIOM or seen_basis:
                    fail(st, 'the only `if` of __init__ must be the resolution of the basis argument')
                seen_basis = True
                params.append(('_basis', TL(TT4)))
                env['_basis'] = Val('v__basis', TL(TT4))
                continue
            if not (isinstance(st, ast.Assign) and len(st.targets) == 1 and is_self_attr(st.targets[0])):
                fail(st, '__init__ may contain only `self.<attr> = <expr>`')
            name = st.targets[0].attr
            if any(name == n for n, _ in u.attrs) or name in (u.pool_attr,):
                fail(st, 'attribute assigned twice')
            v = st.value
            if isinstance(v, ast.Call) and isinstance(v.func, ast.Name) and not v.args and not v.keywords \
                    and v.func.id in ('IDPool', 'CNF'):
                if v.func.id == 'IDPool':
                    if u.pool_attr is not None:
                        fail(st, 'two pools')
                    u.pool_attr = name
                    continue
                if u.cnf_attr is not None:
                    fail(st, 'two clause lists')
                u.cnf_attr = name
                u.attrs.append((name, CNF_TY))
                lets.append((name, '[]'))
                continue
            src = ast.unparse(v)
            if src.startswith('list(set(Basis.FULL.value) - set(self.'):
                battr = src[len('list(set(Basis.FULL.value) - set(self.'):-2]
                if src != f'list(set(Basis.FULL.value) - set(self.{battr}))' or \
                        dict(u.attrs).get(battr) != TL(TT4) or forb_attr is not None:
                    fail(st, 'forbidden-operation idiom')
                forb_attr = name
                pname = name.lstrip('_')
                params.append((pname, TL(TT4)))
                env[pname] = Val('v_' + pname, TL(TT4))
                u.attrs.append((name, TL(TT4)))
                lets.append((name, 'v_' + pname))
                continue
            pre = []
            e2 = dict(env)
            e2['self'] = Val('self', 'finder')
            val = self.expr(v, e2, pre)
            if pre:
                fail(st, 'an attribute initialiser that can raise')
            if has_any(val.ty):
                fail(st, 'type of the attribute cannot be determined')
            u.attrs.append((name, val.ty))
            lets.append((name, val.code))
        if not seen_basis:
            fail(m.node, 'the resolution of the basis argument is missing')
        if u.pool_attr is None or u.cnf_attr is None:
            fail(m.node, '__init__ must create the IDPool and the CNF')
        m.params = params
        m.mutates = False
        fields = ';\n'.join(f'  {u.getter(n)} : {coq_ty(ty)}' for n, ty in u.attrs)
        out = ['(* the object: the attributes __init__ assigns, in order (the IDPool is not a field: ids are the',
               '   structured variables of Model/Search.v) *)',
               f'Record finder : Type := mkFinder {{\n{fields} }}.', '']
        for i, (n, ty) in enumerate(u.attrs):
            args = ' '.join('v' if j == i else f'({u.getter(k)} self)' for j, (k, _) in enumerate(u.attrs))
            out.append(f'Definition {u.setter(n)} (self : finder) (v : {coq_ty(ty)}) : finder :=\n  mkFinder {args}.')
        binders = ' '.join(f'(v_{p} : {coq_ty(ty)})' for p, ty in params)
        body = '\n'.join(f'let a_{n} := {c} in' for n, c in lets)
        body += '\nmkFinder ' + ' '.join(f'a_{n}' for n, _ in lets)
        out += ['', f'(* {CLASS}.__init__ ({", ".join(p for p, _ in params)}) *)',
                f'Definition {m.coqname} {binders} : finder :=\n{ind(body)}.', '']
        m.text = '\n'.join(out)

    def attribute(self, node, env, pre):
        # inside __init__ an attribute already assigned is the local a_<name>
        if is_self_attr(node):
            if node.attr not in dict(self.u.attrs):
                fail(node, 'attribute read before it is assigned')
            return Val(f'a_{node.attr}', dict(self.u.attrs)[node.attr])
        return super().attribute(node, env, pre)


def paren(code):
    code = code.strip()
    if code.startswith('(') and _balanced(code):
        return code
    if code.startswith('[') and code.endswith(']') and _balanced_sq(code):
        return code
    if all(ch.isalnum() or ch in "_'." for ch in code):
        return code
    return f'({code})'


def _balanced(code):
    depth = 0
    for i, ch in enumerate(code):
        if ch == '(':
            depth += 1
        elif ch == ')':
            depth -= 1
            if depth == 0 and i != len(code) - 1:
                return False
    return depth == 0


def _balanced_sq(code):
    depth = 0
    for i, ch in enumerate(code):
        if ch == '[':
            depth += 1
        elif ch == ']':
            depth -= 1
            if depth == 0 and i != len(code) - 1:
                return False
    return depth == 0


def paren_ty_s(rty):
    return f'({rty})' if ' ' in rty else rty


def generate():
    u = Unit()
    u.translated('__init__')
    pending = list(COVERED)
    while pending:
        # a method whose List[int] parameter is fixed by its first call waits for a caller
        ready = []
        for name in pending:
            m = u.methods[name]
            if name != '__init__':
                u.signature(m)
            if m.text is not None or not any(has_any(t) for _, t in m.params):
                ready.append(name)
        if not ready:
            raise TranslatorError(f'parameter types of {pending} are not determined by any translated call')
        for name in ready:
            u.translated(name)
        pending = [n for n in pending if n not in ready]
    for name in COVERED:
        if u.methods[name].text is None:
            raise TranslatorError(f'{name} was not translated')
    return HEADER + '\n' + '\n'.join(m.text for m in u.emitted)


def translate():
    return {OUT: write_if_changed(OUT, generate())}


if __name__ == '__main__':
    print(translate())
