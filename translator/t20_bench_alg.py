"""T20: the bench PRINTER and PARSER, statement by statement -> Generated/BenchAlgGen.v

T7 (translator/t7_bench.py) regenerates the operator-name dispatch TABLE of the parser, the keyword / cut constants
and Gate.format_gate.  T20 regenerates the ALGORITHMS around them:

  printer   Gate.format_gate, Circuit.format_circuit, Circuit.save_to_file            (gate.py, circuit.py)
  parser    Circuit.from_bench_string, Circuit.from_bench_file                         (circuit.py)
            and everything of the parser classes these reach through calls: BenchToCircuit.__init__ (with the
            __init__ chain of its bases), convert_to_circuit, AbstractParser.convert, _process_line,
            _process_input_gate, _process_output_gate, _process_operator_gate, _parse_name_gate,
            _parse_operator_gate, _eof, _add_gate, the dict `self._processings` and every `_process_<op>` handler
            stored in it                                                               (parser/bench.py, abstract.py)

ROOTS (the five methods above the line "and everything") is the only list of names the translator knows; the rest is
found by following the calls of the source.  Every function becomes `gen_<name>`; Proofs/BenchAlgGen.v proves each of
them equal to the hand model Model/Bench.v, so an edit of a translated body changes a generated definition and breaks
an equality lemma.  Anything outside the grammar raises TranslatorError (the check fails closed).

Values.  str -> string (8-bit characters); int -> Z; bool -> bool; list[str] / tuple[str, ...] / Iterable[str] ->
list string; tuple[A, B] -> A * B; a gate type -> gtype; a Gate object -> the pair (its label, the model gate) with the
invariant of T9 that a gate stored in `_gates` carries its dict key as label; `_gates.values()` -> the association
list `gates c`; an empty list / an exhausted generator that is only returned or re-yielded ("nothing") carries no
value.  The Python exception kinds are the constructors of Base.err.

Objects.  A parser object (class found through the local import in from_bench_string) is the value of the ONE field
its __init__ chain assigns `Circuit()`: the state `c : circuit`; the ONE field assigned a dict display is the constant
dispatch table (both names are free; neither may be assigned anywhere else).  A parser method that reads or writes the
state, or returns "nothing", is `gen_m (c : circuit) args : res circuit` (the new state); the others are
`gen_m args : res T`.  `self.m(..)` is resolved along the (single-inheritance) MRO of the instantiated class; an
@abc.abstractmethod that is reached is refused.  Circuit API on the state, with the meaning of the hand model
Model/Circuit.v (each regenerated from circuit.py by T9 and proved equal there; parameter names / order / defaults are
checked here): `_emplace_gate(label, gate_type, operands=())` -> emplace_gate_raw, `._outputs.append(x)` ->
set_outputs_raw c (outputs c ++ [x]), `.gates` (trivial property, checked) -> gates c,
`check_gates_exist(labels, circuit)` -> check_gates_exist.  `Circuit()` -> empty_circuit.

Files.  A parameter that is only used as `pathlib.Path(<param>)` denotes a file; `with <path>.open() as f` (no
arguments: text mode, universal newlines) makes the CONTENT of that file a parameter of the generated function and f
the list `py_text_file_lines content`; `with io.StringIO(s) as f` makes f the list `lines s`; `<path>.write_text(e)`
must be the last statement: the generated function returns the text e (what is written);
`if not <path>.parent.exists(): <path>.parent.mkdir(<constants>)` only acts on directories and is skipped.

Grammar.
  <stmt> ::= pass | <docstring> | logger.<level>(<inert>) (skipped) | from <module> import <parser class>
           | <x>[: T] = <expr> | <x>, <y> = <expr of a pair type>
           | return [] | return <expr> | return <e1>, <e2> | return <stateful call> | return self.<state field>
           | raise <builtin exception>(<inert>)
           | if <expr>: <stmts> [elif ...] [else: <stmts>]       at most one branch may fall through to what follows
           | for <x> in <list expr>: <stmts>                      foldM; no return / break / continue / else; a body that
                                                                  writes the state may not iterate over a view of it
           | for _ in <call of a generator method>: pass          runs the generator
           | yield from <stateful call returning nothing>         (the function is a generator yielding nothing)
           | <stateful call> | <check function>(args)
           | with io.StringIO(<str>) as <f>: <stmts> | with <path>.open() as <f>: <stmts>
           | try: <stmts that all end in return / raise> except <E1>: raise <E2>(<inert>)      last statement
  <stateful call> ::= self.<method>(args) | self.<table>[<str>](<a>, ..., [*<list>])
           | self.<state>._emplace_gate(..) | self.<state>._outputs.append(<str>) | <local parser>.<method>(args)
  <expr> ::= names, str / int / bool literals, module-level str constants, gate.<TYPE> / <TYPE> (gate.py), <t>.name,
           <gate>._label / .label / .gate_type / ._gate_type / .operands / ._operands, self._inputs / ._outputs /
           ._gates.values() (Circuit), f-strings over str values, <str>.join(<list> | <generator expression>),
           [<e> for <x> in <list> [if <c>]], s.find(<1 char>), s.strip(<chars>), s.upper(), s.startswith(<lit>),
           s.split(<1 char>), s[i], s[a:b], `<1 char> in s` / `not in`, == / != (str, int, gate type, list[str]),
           a + b (int), not / and / or (short circuit kept when a later operand can raise), (a, b), [a, ..., *l],
           (*l,), calls of translated methods.
  <inert> ::= constants, f-strings over local names, <const> * <const>   (message arguments: no effect, dropped)

Calls.  `f(a, b, *rest)` to `def f(self, p, q, *args)` binds statically (args = [..] ++ rest).  Functions stored in
the dispatch table are called as `h(out, *operands)`: they are emitted as `gen_h c out argv` and bind their remaining
parameters by a `match argv` (TypeError when the count does not fit) - the generated match is Python's binding rule.

Order of evaluation: sub-expressions that can raise are bound (`do t <- ...`) in Python's left-to-right order.
"""
import ast

from .common import TranslatorError, fail, guard_module, strip_docstring, write_if_changed
from .t7_bench import coq_string, coq_chars, gate_registry, GTYPES
from .t9_circuit_core import Unit as CoreUnit, ind
from .t15_passes import Sources

OUT = 'Generated/BenchAlgGen.v'
GATE_MOD = 'cirbo.core.circuit.gate'
CIRCUIT_MOD = 'cirbo.core.circuit.circuit'
VALIDATION_MOD = 'cirbo.core.circuit.validation'
ROOTS = [('Gate', 'format_gate'), ('Circuit', 'format_circuit'), ('Circuit', 'save_to_file'),
         ('Circuit', 'from_bench_string'), ('Circuit', 'from_bench_file')]
BUILTIN_EXC = {'ValueError': 'PyValueError', 'KeyError': 'PyKeyError', 'TypeError': 'PyTypeError',
               'IndexError': 'PyIndexError'}
LOG_LEVELS = {'debug', 'info', 'warning', 'error'}

HEADER = '''(* GENERATED by translator/t20_bench_alg.py from cirbo/core/circuit/gate.py (Gate.format_gate),
   cirbo/core/circuit/circuit.py (format_circuit, save_to_file, from_bench_string, from_bench_file),
   cirbo/core/parser/abstract.py and cirbo/core/parser/bench.py.  DO NOT EDIT.
   Proofs/BenchAlgGen.v proves every gen_<name> equal to the hand model Model/Bench.v.

   Conventions (see the header of the translator and Model/PyStr.v):
   - str = string (8-bit), int = Z, list[str] = list string; the string helpers are those of Model/Bench.v;
   - the state of a parser object is the circuit it builds (`c`); a method that uses it returns the new state;
   - a Gate object is its label together with the model gate; `_gates.values()` is the association list;
   - the Circuit API (_emplace_gate, _outputs.append, gates, check_gates_exist) is Model/Circuit.v;
   - functions stored in the dispatch table take (out, *argv) and bind argv by a match (TypeError otherwise). *)
Require Import Cirbo.Model.Base Cirbo.Model.Gate Cirbo.Model.Circuit Cirbo.Model.Bench Cirbo.Model.PyStr.
Require Import Cirbo.Generated.GateTypes.
Require Import Coq.ZArith.ZArith.
'''


class Restart(Exception):
    pass


def coq_ty(t):
    if isinstance(t, tuple):
        return '(' + ' * '.join(coq_ty(x) for x in t[1]) + ')'
    return {'str': 'string', 'int': 'Z', 'bool': 'bool', 'strs': 'list string', 'gtype': 'gtype',
            'circuit': 'circuit', 'unit': 'unit'}[t]


def atom(code):
    """parenthesise unless the code is a single token / already delimited"""
    c = code.strip()
    if c.startswith('(') and c.endswith(')') and balanced(c[1:-1]):
        return c
    if c.startswith('[') and c.endswith(']') and balanced(c[1:-1]):
        return c
    if c.startswith('"') and c.endswith('"') and '"' not in c[1:-1].replace('""', ''):
        return c
    if all(ch.isalnum() or ch in "_.'" for ch in c):
        return c
    return f'({c})'


def balanced(code):
    depth, instr, i = 0, False, 0
    while i < len(code):
        ch = code[i]
        if instr:
            if ch == '"':
                if i + 1 < len(code) and code[i + 1] == '"':
                    i += 1
                else:
                    instr = False
        elif ch == '"':
            instr = True
        elif ch in '([':
            depth += 1
        elif ch in ')]':
            depth -= 1
            if depth < 0:
                return False
        i += 1
    return depth == 0 and not instr


def coq_char(ch, node=None):
    if len(ch) != 1 or ord(ch) >= 128:
        fail(node, f'not a one-character ASCII literal: {ch!r}')
    return f'(ascii_of_nat {ord(ch)})'


class Val:
    def __init__(self, code, ty, label=None, gate=None, view=False):
        self.code, self.ty, self.label, self.gate, self.view = code, ty, label, gate, view


class Var:
    """a Python name in scope.  kind: local | self | pathparam | path | parser | cls | dead"""
    def __init__(self, kind, val=None, info=None):
        self.kind, self.val, self.info = kind, val, info


class Fn:
    def __init__(self, name, coqname):
        self.name, self.coqname = name, coqname
        self.params = []            # (coq name, coq type)
        self.stateful = False
        self.monadic = False
        self.ret = None
        self.generator = False
        self.convention = 'static'  # or 'argv'
        self.named = []             # python parameter names after self (static part first)
        self.vararg = None
        self.text = ''

    def result_ty(self):
        if self.stateful:
            if self.ret not in ('nothing', 'circuit'):
                raise TranslatorError(f'{self.name}: a method that uses the state may only return nothing / the state')
            base = 'circuit'
        else:
            base = coq_ty(self.ret)
        return f'res {base}' if self.monadic else base


# ---------------------------------------------------------------------------------------------- the unit
class BenchUnit:
    def __init__(self):
        self.src = Sources()
        self.core = CoreUnit()              # environment facts about circuit.py / gate.py (trivial getters, fields)
        for m in self.core.mods.values():
            guard_module(m)
        self.registry = gate_registry(self.src.mod(GATE_MOD)[0])      # type name -> printed name (duplicate keys)
        self.done = {}
        self.order = []
        self.in_progress = set()
        self.consts = {}                    # (module, name) -> coq name
        self.const_defs = []
        self.parser = None                  # set when a parser class is first instantiated
        self.check_api()

    # ---- the Circuit API used on the parser state
    def check_api(self):
        cm = self.core.circuit_methods
        m = cm.get('_emplace_gate')
        if m is None or m.decorator_list:
            raise TranslatorError('Circuit._emplace_gate: not a single plain method')
        a = m.args
        if [x.arg for x in a.args] != ['self', 'label', 'gate_type', 'operands'] or a.vararg or a.kwonlyargs \
                or a.posonlyargs or len(a.defaults) != 1 \
                or not (isinstance(a.defaults[0], ast.Tuple) and not a.defaults[0].elts):
            raise TranslatorError('Circuit._emplace_gate: signature must be (self, label, gate_type, operands=(), **kwargs)')
        f = self.core.funcs['validation'].get('check_gates_exist')
        if f is None or [x.arg for x in f.args.args] != ['gates', 'circuit'] or f.args.vararg or f.args.kwarg \
                or f.args.kwonlyargs or f.args.defaults:
            raise TranslatorError('validation.check_gates_exist: signature must be (gates, circuit)')
        ci = cm.get('__init__')
        if ci is None or [x.arg for x in ci.args.args] != ['self'] or ci.args.vararg or ci.args.kwarg or ci.args.kwonlyargs:
            raise TranslatorError('Circuit.__init__ must take no arguments (Circuit() is the empty circuit)')
        for st in strip_docstring(ci.body):
            val = st.value if isinstance(st, (ast.Assign, ast.AnnAssign)) else None
            empty = (isinstance(val, (ast.List, ast.Dict, ast.Tuple)) and not (getattr(val, 'elts', None) or getattr(val, 'keys', None))) \
                or (isinstance(val, ast.Call) and isinstance(val.func, ast.Name) and val.func.id in ('list', 'dict')
                    and not val.args and not val.keywords)
            if not empty:
                fail(st, 'Circuit.__init__ must create every field empty')

    # ---- classes
    def class_node(self, module, name):
        r = self.src.resolve(module, name)
        if r is None or r[0] != 'def':
            raise TranslatorError(f'{module}.{name}: not a class of the library')
        tree = self.src.mod(r[1])[0]
        for n in tree.body:
            if isinstance(n, ast.ClassDef) and n.name == r[2]:
                return r[1], n
        raise TranslatorError(f'{r[1]}.{r[2]}: not a class')

    def guard_parser_class(self, module, cls):
        """a parser class body: docstring and plain defs (each name once; decorators: abc.abstractmethod only);
        keywords: metaclass=abc.ABCMeta only"""
        for k in cls.keywords:
            if not (k.arg == 'metaclass' and ast.unparse(k.value) == 'abc.ABCMeta'):
                fail(cls, 'class keyword outside grammar')
        if cls.decorator_list:
            fail(cls, 'decorated parser class')
        seen = set()
        for n in strip_docstring(cls.body):
            if not isinstance(n, ast.FunctionDef):
                fail(n, 'a parser class body may only contain methods')
            if n.name in seen:
                fail(n, f'method {n.name} defined twice')
            seen.add(n.name)
            for d in n.decorator_list:
                if ast.unparse(d) != 'abc.abstractmethod':
                    fail(n, 'decorator outside grammar')
            if n.decorator_list and self.src.resolve(module, 'abc') != ('module', 'abc'):
                fail(n, '`abc` is not the module abc')

    def mro(self, module, name):
        out = []
        while True:
            mod, cls = self.class_node(module, name)
            self.guard_parser_class(mod, cls)
            out.append((mod, cls))
            if not cls.bases:
                return out
            if len(cls.bases) != 1 or not isinstance(cls.bases[0], ast.Name):
                fail(cls, 'single inheritance from a named class only')
            module, name = mod, cls.bases[0].id
            if len(out) > 8:
                raise TranslatorError('class hierarchy too deep')

    def set_parser(self, module, name, node):
        key = (module, name)
        if self.parser is not None and self.parser['key'] != key:
            fail(node, 'a second parser class')
        if self.parser is None:
            p = {'key': key, 'mro': self.mro(module, name), 'state': None, 'table': None, 'table_node': None,
                 'table_coq': None, 'new': None}
            self.parser = p
            self.parser_init(p, node)
        return self.parser

    def find_method(self, mname, node):
        """first definition along the MRO -> (module, class node, def)"""
        for mod, cls in self.parser['mro']:
            for n in cls.body:
                if isinstance(n, ast.FunctionDef) and n.name == mname:
                    if n.decorator_list:
                        fail(node, f'{mname} resolves to an abstract method of {cls.name}')
                    return mod, cls, n
        fail(node, f'parser method {mname} not found')

    def parser_init(self, p, node):
        """the __init__ chain, called without arguments: `super(..).__init__(*args, **kwargs)` first, then
        `self.<f>[: T] = Circuit()` (the state) / `self.<f>[: T] = {..}` (the dispatch table)"""
        mro = p['mro']
        fields, inits = [], []
        for mod, cls in mro:
            init = next((n for n in cls.body if isinstance(n, ast.FunctionDef) and n.name == '__init__'), None)
            if init is None:
                # inherited __init__: continue with the next class (object.__init__() at the end accepts no arguments)
                continue
            a = init.args
            if init.decorator_list or [x.arg for x in a.args] != ['self'] or a.vararg is None or a.kwarg is None \
                    or a.kwonlyargs or a.posonlyargs or a.defaults:
                fail(init, '__init__ of a parser class must be (self, *args, **kwargs)')
            body = strip_docstring(init.body)
            want1 = f'super({cls.name}, self).__init__(*{a.vararg.arg}, **{a.kwarg.arg})'
            want2 = f'super().__init__(*{a.vararg.arg}, **{a.kwarg.arg})'
            if not body or not isinstance(body[0], ast.Expr) or ast.unparse(body[0]) not in (want1, want2):
                fail(init, '__init__ of a parser class must start with super().__init__(*args, **kwargs)')
            own = []
            for st in body[1:]:
                if isinstance(st, ast.AnnAssign) and st.value is not None:
                    tgt, val = st.target, st.value
                elif isinstance(st, ast.Assign) and len(st.targets) == 1:
                    tgt, val = st.targets[0], st.value
                else:
                    fail(st, '__init__ statement outside grammar')
                if not (isinstance(tgt, ast.Attribute) and isinstance(tgt.value, ast.Name) and tgt.value.id == 'self'):
                    fail(st, '__init__ may only assign fields of self')
                own.append((tgt.attr, val, mod, init))
            inits.append(own)
        # every __init__ calls its base first: the assignments of the base-most class run first
        for own in reversed(inits):
            fields += own
        names = [f for f, _v, _m, _i in fields]
        if len(set(names)) != len(names):
            fail(node, 'a parser field is assigned twice in the __init__ chain')
        for f, val, mod, init in fields:
            if isinstance(val, ast.Dict):
                if p['table'] is not None:
                    fail(val, 'two dict fields in the parser')
                p['table'], p['table_node'], p['table_mod'] = f, val, mod
            elif isinstance(val, ast.Call) and isinstance(val.func, ast.Name) and not val.args and not val.keywords \
                    and self.src.resolve(mod, val.func.id) == ('def', CIRCUIT_MOD, 'Circuit'):
                if p['state'] is not None:
                    fail(val, 'two Circuit fields in the parser')
                p['state'] = f
            else:
                fail(val, 'a parser field must be `Circuit()` or a dict display')
        if p['state'] is None:
            fail(node, 'the parser has no field holding Circuit()')
        # no other store to / deletion of the fields anywhere in the classes; the table is only read by subscripting
        for mod, cls in mro:
            for n in ast.walk(cls):
                if isinstance(n, ast.Attribute) and n.attr in names and not isinstance(n.ctx, ast.Load):
                    inits = [i for _f, _v, _m, i in fields]
                    if not any(n in ast.walk(i) for i in inits):
                        fail(n, f'store to the parser field {n.attr} outside __init__')
                if isinstance(n, ast.Call) and isinstance(n.func, ast.Name) and n.func.id in ('setattr', 'delattr', 'vars'):
                    fail(n, 'reflection on the parser object')
                if isinstance(n, ast.Attribute) and n.attr == '__dict__':
                    fail(n, 'reflection on the parser object')

    # ---- translated functions
    def get(self, kind, module, cls, src, convention='static'):
        key = (module, cls.name if cls is not None else None, src.name)
        if key in self.done:
            fn = self.done[key]
            if fn.convention != convention:
                fail(src, f'{src.name} is both stored in the dispatch table and called directly')
            return fn
        if key in self.in_progress:
            fail(src, f'recursion through {src.name}')
        self.in_progress.add(key)
        fn = FnTr(self, kind, module, cls, src, 'gen_' + src.name, convention).translate()
        self.in_progress.discard(key)
        self.done[key] = fn
        self.order.append(fn.text)
        return fn

    def const(self, module, name, node):
        """module-level string constant -> gen_<name>"""
        r = self.src.resolve(module, name)
        if r is None or r[0] != 'def':
            return None
        b = self.src.bindings(r[1]).get(r[2])
        if b is None or b[0] != 'def' or not isinstance(b[1], (ast.Assign, ast.AnnAssign)):
            return None
        val = b[1].value
        if not (isinstance(val, ast.Constant) and isinstance(val.value, str)):
            return None
        key = (r[1], r[2])
        if key not in self.consts:
            self.consts[key] = 'gen_' + r[2]
            self.order.append(f'Definition gen_{r[2]} : string := {coq_string(val.value, node)}.\n')
        return self.consts[key], val.value

    def table(self, node):
        """emit the dispatch table (once): keys in display order, each value a method of the instantiated class"""
        p = self.parser
        if p['table'] is None:
            fail(node, 'the parser has no dispatch table')
        if p['table_coq'] is not None:
            return p['table_coq']
        d, mod = p['table_node'], p['table_mod']
        rows, seen = [], set()
        for k, v in zip(d.keys, d.values):
            if k is None:
                fail(d, 'dict unpacking in the dispatch table')
            if isinstance(k, ast.Attribute) and k.attr == 'name' and isinstance(k.value, ast.Attribute) \
                    and isinstance(k.value.value, ast.Name) and k.value.attr in GTYPES \
                    and self.src.resolve(mod, k.value.value.id) == ('module', GATE_MOD):
                kcode, kval = f'gname {k.value.attr}', self.registry[k.value.attr]
            elif isinstance(k, ast.Name) and self.const(mod, k.id, k) is not None:
                kcode, kval = self.const(mod, k.id, k)
            elif isinstance(k, ast.Constant) and isinstance(k.value, str):
                kcode, kval = coq_string(k.value, k), k.value
            else:
                fail(k, 'dispatch table key')
            if kval in seen:
                fail(k, f'duplicate dispatch table key {kval!r}')
            seen.add(kval)
            if not (isinstance(v, ast.Attribute) and isinstance(v.value, ast.Name) and v.value.id == 'self'):
                fail(v, 'a dispatch table value must be self.<method>')
            hmod, hcls, hsrc = self.find_method(v.attr, v)
            fn = self.get('parser', hmod, hcls, hsrc, convention='argv')
            if not fn.stateful or fn.ret != 'nothing':
                fail(v, 'a dispatch table value must be a method on the state that returns nothing')
            rows.append(f'   ({kcode}, {fn.coqname})')
        name = 'gen_' + p['table']
        self.order.append(f'(* self.{p["table"]}, in dict order *)\n'
                          f'Definition {name} : list (string * (circuit -> label -> list label -> res circuit)) :=\n  [\n'
                          + ';\n'.join(rows) + '\n  ].\n')
        p['table_coq'] = name
        return name

    def parser_new(self, node):
        p = self.parser
        if p['new'] is None:
            cname = p['key'][1]
            p['new'] = f'gen_{cname}_new'
            self.order.append(f'(* {cname}(): the __init__ chain assigns self.{p["state"]} = Circuit() *)\n'
                              f'Definition {p["new"]} : circuit := empty_circuit.\n')
        return p['new']


# ---------------------------------------------------------------------------------------------- one function
class FnTr:
    def __init__(self, unit, kind, module, cls, src, coqname, convention):
        self.u, self.kind, self.module, self.cls, self.src = unit, kind, module, cls, src
        self.fn = Fn(src.name, coqname)
        self.fn.convention = convention
        self.monadic = False
        self.stateful = False
        self.reads_file = set()
        self.tmp = 0
        self.wrote = False
        self.rets = []
        self.written = None

    # ------------------------------------------------------------ helpers
    def fresh(self, base='t'):
        self.tmp += 1
        return f'{base}{self.tmp}'

    def need_monad(self):
        if not self.monadic:
            self.monadic = True
            raise Restart()

    def touch_state(self, node, write=False):
        if self.kind != 'parser':
            fail(node, 'parser state outside a parser method')
        if write:
            self.wrote = True
        if not self.stateful:
            self.stateful = True
            raise Restart()

    def binds(self, pre, body):
        out = ''
        for pat, code in pre:
            out += f'do {pat} <- {code};\n'
        return out + body

    def ret_code(self, code):
        return f'Ok {atom(code)}' if self.monadic else code

    def module_of_name(self, name, env):
        """what a bare name that is not a local means at module level"""
        if name in env:
            return None
        return self.u.src.resolve(self.module, name)

    def is_module(self, node, env, dotted):
        return isinstance(node, ast.Name) and self.module_of_name(node.id, env) == ('module', dotted)

    def is_logger_call(self, node, env):
        if not (isinstance(node, ast.Call) and isinstance(node.func, ast.Attribute) and node.func.attr in LOG_LEVELS
                and isinstance(node.func.value, ast.Name) and node.func.value.id not in env):
            return False
        r = self.u.src.resolve(self.module, node.func.value.id)
        if r is None or r[0] != 'def':
            return False
        b = self.u.src.bindings(r[1]).get(r[2])
        if b is None or b[0] != 'def' or not isinstance(b[1], ast.Assign) \
                or ast.unparse(b[1].value) != 'logging.getLogger(__name__)' \
                or self.u.src.resolve(r[1], 'logging') != ('module', 'logging'):
            return False
        if node.keywords:
            fail(node, 'keyword argument of a logger call')
        for a in node.args:
            self.inert(a, env)
        return True

    def inert(self, node, env):
        """message arguments: evaluation has no effect and cannot raise"""
        if isinstance(node, ast.Constant) and isinstance(node.value, (str, int)):
            return
        if isinstance(node, ast.JoinedStr):
            for v in node.values:
                if isinstance(v, ast.Constant):
                    continue
                if isinstance(v, ast.FormattedValue) and v.conversion == -1 and v.format_spec is None \
                        and isinstance(v.value, ast.Name) and v.value.id in env \
                        and env[v.value.id].kind in ('local', 'pathparam'):
                    continue
                fail(v, 'f-string part of a message must be a local name')
            return
        if isinstance(node, ast.BinOp) and isinstance(node.op, ast.Mult) and isinstance(node.left, ast.Constant) \
                and isinstance(node.right, ast.Constant) and isinstance(node.left.value, str) \
                and type(node.right.value) is int:
            return
        fail(node, 'message argument outside grammar')

    # ------------------------------------------------------------ signature
    def ann_type(self, ann, node):
        if ann is None:
            fail(node, 'parameter without annotation')
        text = ast.unparse(ann)
        if text == 'str':
            return 'str'
        if text in ('tp.Iterable[str]', 'list[str]', 'tp.Sequence[str]', 'tuple[str, ...]'):
            if text.startswith('tp.') and self.u.src.resolve(self.module, 'tp') != ('module', 'typing'):
                fail(node, '`tp` is not typing')
            return 'strs'
        if text == 'gate.GateType' and self.u.src.resolve(self.module, 'gate') == ('module', GATE_MOD):
            return 'gtype'
        fail(node, f'parameter annotation outside grammar: {text}')

    def path_params(self):
        """parameters whose every use is `pathlib.Path(<param>)`"""
        a = self.src.args
        names = {x.arg for x in a.args[1:]} if self.kind != 'static' else {x.arg for x in a.args}
        uses, path_uses = {}, {}
        for n in ast.walk(self.src):
            if isinstance(n, ast.Name) and n.id in names:
                uses[n.id] = uses.get(n.id, 0) + 1
            if isinstance(n, ast.Call) and ast.unparse(n.func) == 'pathlib.Path' and len(n.args) == 1 and not n.keywords \
                    and isinstance(n.args[0], ast.Name) and n.args[0].id in names:
                path_uses[n.args[0].id] = path_uses.get(n.args[0].id, 0) + 1
        return {p for p in names if p in path_uses and uses.get(p) == path_uses[p]}

    def signature(self):
        f, a = self.src, self.src.args
        if a.kwonlyargs or a.kwarg or a.posonlyargs or a.defaults or a.kw_defaults:
            fail(f, 'signature outside grammar')
        decos = [ast.unparse(d) for d in f.decorator_list]
        env = {}
        params = list(a.args)
        if self.kind == 'static':
            if decos != ['staticmethod']:
                fail(f, 'expected a @staticmethod')
        else:
            if decos:
                fail(f, 'decorated method')
            if not params:
                fail(f, 'method without self')
            env[params[0].arg] = Var('self')
            params = params[1:]
        paths = self.path_params()
        self.fn.named = [p.arg for p in params]
        self.fn.vararg = a.vararg.arg if a.vararg else None
        coq_params = []
        if self.kind == 'gate':
            coq_params += [('l', 'label'), ('g', 'gate')]
        elif self.kind == 'circuit':
            coq_params += [('self', 'circuit')]
        elif self.kind == 'parser' and self.stateful:
            coq_params += [('c', 'circuit')]
        argv_names = []
        for i, p in enumerate(params):
            if p.arg in paths:
                env[p.arg] = Var('pathparam', info=f'v_{p.arg}_content')
                if p.arg in self.reads_file:
                    coq_params.append((f'v_{p.arg}_content', 'string'))
                continue
            ty = self.ann_type(p.annotation, p)
            env[p.arg] = Var('local', Val(f'v_{p.arg}', ty))
            if self.fn.convention == 'argv' and i >= 1:
                if ty != 'str':
                    fail(p, 'an operand parameter of a dispatch table method must be a str')
                argv_names.append(f'v_{p.arg}')
            else:
                coq_params.append((f'v_{p.arg}', coq_ty(ty)))
        if a.vararg:
            if self.ann_type(a.vararg.annotation, a.vararg) != 'str':
                fail(a.vararg, '*args must be annotated str')
            env[a.vararg.arg] = Var('local', Val(f'v_{a.vararg.arg}', 'strs'))
            if self.fn.convention != 'argv':
                coq_params.append((f'v_{a.vararg.arg}', 'list string'))
        if self.fn.convention == 'argv':
            if not self.stateful:
                coq_params.insert(0, ('c', 'circuit'))      # provisional: a table method must turn out stateful
            if not params:
                fail(f, 'a dispatch table method must take the output label')
            coq_params.append(('argv', 'list label'))
        self.fn.params = coq_params
        self.argv_names = argv_names
        return env

    # ------------------------------------------------------------ translate
    def translate(self):
        fn = self.fn
        for _ in range(8):
            self.tmp, self.rets, self.written, self.wrote = 0, [], None, False
            try:
                env = self.signature()
                body = strip_docstring(self.src.body)
                fn.generator = any(isinstance(n, (ast.Yield, ast.YieldFrom)) for n in ast.walk(self.src))
                for n in ast.walk(self.src):
                    if isinstance(n, (ast.Yield, ast.Await, ast.Global, ast.Nonlocal, ast.Lambda, ast.NamedExpr,
                                      ast.While, ast.AsyncFunctionDef, ast.ClassDef, ast.Delete, ast.AugAssign)):
                        fail(n, 'construct outside grammar')
                    if isinstance(n, ast.FunctionDef) and n is not self.src:
                        fail(n, 'nested def')
                # Python scoping: a name stored anywhere in the body is local everywhere in it (a use before the
                # assignment is UnboundLocalError, not the module-level meaning of the name)
                for nm in self.stored_names():
                    if nm not in env:
                        env[nm] = Var('dead')
                code = self.block(body, env, self.fall_off)
            except Restart:
                continue
            rets = set(self.rets)
            if len(rets) != 1:
                fail(self.src, f'return types differ / no return: {sorted(map(str, rets))}')
            fn.ret = rets.pop()
            if self.kind == 'parser' and not self.monadic:
                self.monadic = True         # parser methods are uniformly `res`
                continue
            break
        else:
            raise TranslatorError(f'{self.src.name}: translation does not stabilise')
        fn.monadic, fn.stateful = self.monadic, self.stateful
        if fn.convention == 'argv':
            names = self.argv_names
            if fn.vararg is not None:
                pat = ' :: '.join(names + [f'v_{fn.vararg}'])
            else:
                pat = '[' + '; '.join(names) + ']'
            if names or fn.vararg is None:
                code = f'match argv with\n| {pat} =>\n{ind(code)}\n| _ => Err PyTypeError\nend'
            else:
                code = f'let v_{fn.vararg} := argv in\n{code}'
        binders = ' '.join(f'({n} : {t})' for n, t in fn.params)
        where = f'{self.cls.name}.{self.src.name}' if self.cls is not None else self.src.name
        fn.text = (f'(* {where}  ({self.module}) *)\n'
                   f'Definition {fn.coqname}{" " + binders if binders else ""} : {fn.result_ty()} :=\n{ind(code)}.\n')
        return fn

    def stored_names(self):
        out, comp_nodes = [], set()
        for n in ast.walk(self.src):
            if isinstance(n, (ast.ListComp, ast.GeneratorExp, ast.SetComp, ast.DictComp)):
                for g in n.generators:
                    comp_nodes.update(id(x) for x in ast.walk(g.target))
        for n in ast.walk(self.src):
            if isinstance(n, ast.Name) and isinstance(n.ctx, ast.Store) and id(n) not in comp_nodes:
                out.append(n.id)
            elif isinstance(n, (ast.Import, ast.ImportFrom)):
                out += [(a.asname or a.name).split('.')[0] for a in n.names]
            elif isinstance(n, ast.ExceptHandler) and n.name:
                out.append(n.name)
        return sorted(set(out))

    def fall_off(self, env):
        """the end of the body is reached without a return"""
        if self.written is not None:
            self.rets.append('str')
            return self.ret_code(self.written)
        if self.fn.generator:
            self.rets.append('nothing')
            self.touch_or_nothing()
            return 'Ok c'
        fail(self.src, 'the function can end without a return')

    def touch_or_nothing(self):
        if self.kind != 'parser':
            fail(self.src, 'only parser methods may return nothing')
        self.need_monad()
        if not self.stateful:
            self.stateful = True
            raise Restart()

    # ------------------------------------------------------------ statements
    @staticmethod
    def terminates(stmts):
        if not stmts:
            return False
        s = stmts[-1]
        if isinstance(s, (ast.Return, ast.Raise)):
            return True
        if isinstance(s, ast.If):
            return FnTr.terminates(s.body) and FnTr.terminates(s.orelse)
        if isinstance(s, ast.With):
            return FnTr.terminates(s.body)
        if isinstance(s, ast.Try):
            return FnTr.terminates(s.body) and all(FnTr.terminates(h.body) for h in s.handlers)
        return False

    def block(self, stmts, env, tail):
        if not stmts:
            return tail(env)
        s, rest = stmts[0], stmts[1:]
        if self.written is not None:
            fail(s, 'statement after write_text')

        def k(env2):
            return self.block(rest, env2, tail)
        if isinstance(s, ast.Pass):
            return k(env)
        if isinstance(s, ast.Expr) and isinstance(s.value, ast.Constant) and isinstance(s.value.value, str):
            return k(env)
        if isinstance(s, ast.Expr) and self.is_logger_call(s.value, env):
            return k(env)
        if isinstance(s, ast.ImportFrom):
            return self.local_import(s, env, k)
        if isinstance(s, (ast.Assign, ast.AnnAssign)):
            return self.assign(s, env, k)
        if isinstance(s, ast.Return):
            if rest:
                fail(rest[0], 'statement after return')
            return self.return_(s, env)
        if isinstance(s, ast.Raise):
            if rest:
                fail(rest[0], 'statement after raise')
            return self.raise_(s, env)
        if isinstance(s, ast.If):
            return self.if_(s, env, k)
        if isinstance(s, ast.For):
            return self.for_(s, env, k)
        if isinstance(s, ast.With):
            return self.with_(s, env, k)
        if isinstance(s, ast.Try):
            if rest:
                fail(rest[0], 'statement after try')
            return self.try_(s, env)
        if isinstance(s, ast.Expr) and isinstance(s.value, ast.YieldFrom):
            sc = self.stateful_call(s.value.value, env)
            if sc is None or sc[2] != 'nothing':
                fail(s, '`yield from` of something that is not a call returning nothing')
            return self.state_step(sc, k, env)
        if isinstance(s, ast.Expr) and isinstance(s.value, ast.Call):
            return self.call_stmt(s.value, env, k, rest)
        fail(s, 'statement outside grammar')

    def state_step(self, sc, k, env):
        pre, code, _ret, pure = sc
        if pure:
            return self.binds(pre, f'let c := {code} in\n' + k(env))
        self.need_monad()
        nxt = k(env)
        if nxt == 'Ok c':
            return self.binds(pre, code)
        return self.binds(pre, f'do c <- {code};\n' + nxt)

    def local_import(self, s, env, k):
        if s.level or len(s.names) != 1 or s.names[0].asname:
            fail(s, 'local import outside grammar')
        name = s.names[0].name
        r = self.u.src.resolve(s.module, name)
        if r is None or r[0] != 'def':
            fail(s, 'local import of something that is not a class of the library')
        return k(self.bind_name(env, name, Var('cls', info=(r[1], r[2])), s))

    def bind_name(self, env, name, var, node):
        if name in env and env[name].kind not in ('local', 'dead'):
            fail(node, f'rebinding of {name}')
        env = dict(env)
        env[name] = var
        return env

    def assign(self, s, env, k):
        if isinstance(s, ast.Assign):
            if len(s.targets) != 1:
                fail(s, 'chained assignment')
            tgt = s.targets[0]
        else:
            tgt = s.target
            if s.value is None:
                fail(s, 'annotation without value')
        # objects that are not values: a pathlib.Path, a parser
        if isinstance(tgt, ast.Name) and isinstance(s.value, ast.Call):
            c = s.value
            if isinstance(c.func, ast.Attribute) and c.func.attr == 'Path' and self.is_module(c.func.value, env, 'pathlib') \
                    and len(c.args) == 1 and not c.keywords and isinstance(c.args[0], ast.Name) \
                    and c.args[0].id in env and env[c.args[0].id].kind == 'pathparam':
                return k(self.bind_name(env, tgt.id, Var('path', info=c.args[0].id), s))
            if isinstance(c.func, ast.Name) and c.func.id in env and env[c.func.id].kind == 'cls':
                if c.args or c.keywords:
                    fail(c, 'a parser is constructed without arguments')
                self.u.set_parser(*env[c.func.id].info, c)
                return k(self.bind_name(env, tgt.id, Var('parser', info=self.u.parser_new(c)), s))
        pre = []
        v = self.expr(s.value, env, pre)
        if isinstance(tgt, ast.Name):
            if v.ty not in ('str', 'int', 'bool', 'strs', 'gtype') and not isinstance(v.ty, tuple):
                fail(s, f'assignment of a value of type {v.ty}')
            env2 = self.bind_name(env, tgt.id, Var('local', Val(f'v_{tgt.id}', v.ty)), s)
            return self.binds(pre, f'let v_{tgt.id} := {v.code} in\n' + k(env2))
        if isinstance(tgt, ast.Tuple) and all(isinstance(e, ast.Name) for e in tgt.elts):
            if not isinstance(v.ty, tuple) or len(v.ty[1]) != len(tgt.elts):
                fail(s, 'unpacking of a value that is not a tuple of that length')
            env2 = env
            names = [e.id for e in tgt.elts]
            if len(set(names)) != len(names):
                fail(s, 'repeated name in an unpacking')
            for e, t in zip(tgt.elts, v.ty[1]):
                env2 = self.bind_name(env2, e.id, Var('local', Val(f'v_{e.id}', t)), s)
            pat = ', '.join(f'v_{n}' for n in names)
            return self.binds(pre, f"let '({pat}) := {v.code} in\n" + k(env2))
        fail(s, 'assignment target outside grammar')

    def return_(self, s, env):
        v = s.value
        if v is None:
            fail(s, 'bare return')
        if isinstance(v, ast.List) and not v.elts:
            self.rets.append('nothing')
            self.touch_or_nothing()
            return 'Ok c'
        sc = self.stateful_call(v, env)
        if sc is not None:
            pre, code, ret, pure = sc
            self.rets.append(ret)
            self.need_monad()
            if pure:
                return self.binds(pre, f'let c := {code} in\nOk c')
            return self.binds(pre, code)
        if self.kind == 'parser' and isinstance(v, ast.Attribute) and isinstance(v.value, ast.Name) \
                and v.value.id in env and env[v.value.id].kind == 'self' and v.attr == self.u.parser['state']:
            self.touch_state(v)
            self.need_monad()
            self.rets.append('circuit')
            return 'Ok c'
        pre = []
        val = self.expr(v, env, pre)
        if self.stateful:
            fail(s, 'a method that uses the state returns a value')
        if val.ty not in ('str', 'int', 'bool', 'strs', 'gtype') and not isinstance(val.ty, tuple):
            fail(s, f'return of a value of type {val.ty}')
        self.rets.append(val.ty)
        return self.binds(pre, self.ret_code(val.code))

    def exc_kind(self, node, env):
        if isinstance(node, ast.Call):
            if node.keywords:
                fail(node, 'keyword argument of an exception')
            for a in node.args:
                self.inert(a, env)
            node = node.func
        if not (isinstance(node, ast.Name) and node.id in BUILTIN_EXC and node.id not in env
                and self.u.src.bindings(self.module).get(node.id) is None):
            fail(node, 'exception class outside grammar')
        return BUILTIN_EXC[node.id]

    def raise_(self, s, env):
        if s.exc is None or s.cause is not None:
            fail(s, 'raise form outside grammar')
        kind = self.exc_kind(s.exc, env)
        self.need_monad()
        return f'Err {kind}'

    def if_(self, s, env, k):
        # file-system bookkeeping that does not touch contents
        if self.is_mkdir_guard(s, env):
            return k(env)
        pre = []
        c = self.expr(s.test, env, pre)
        if c.ty != 'bool':
            fail(s.test, 'condition is not a bool')
        falls = [0]

        def k1(env2):
            falls[0] += 1
            if falls[0] > 1:
                fail(s, 'more than one branch of an if falls through')
            return k(env2)
        then = self.block(s.body, env, k1)
        els = self.block(s.orelse, env, k1)
        return self.binds(pre, f'if {c.code} then\n{ind(then)}\nelse\n{els}')

    def is_mkdir_guard(self, s, env):
        def is_parent(n):
            return isinstance(n, ast.Attribute) and n.attr == 'parent' and isinstance(n.value, ast.Name) \
                and n.value.id in env and env[n.value.id].kind == 'path'
        t = s.test
        if not (isinstance(t, ast.UnaryOp) and isinstance(t.op, ast.Not) and isinstance(t.operand, ast.Call)
                and isinstance(t.operand.func, ast.Attribute) and t.operand.func.attr == 'exists'
                and is_parent(t.operand.func.value) and not t.operand.args and not t.operand.keywords):
            return False
        if s.orelse or len(s.body) != 1 or not isinstance(s.body[0], ast.Expr) or not isinstance(s.body[0].value, ast.Call):
            fail(s, 'directory guard outside grammar')
        c = s.body[0].value
        if not (isinstance(c.func, ast.Attribute) and c.func.attr == 'mkdir' and is_parent(c.func.value) and not c.args
                and all(isinstance(kw.value, ast.Constant) for kw in c.keywords)):
            fail(s, 'directory guard outside grammar')
        return True

    def for_(self, s, env, k):
        if s.orelse:
            fail(s, 'for-else')
        for n in ast.walk(s):
            if isinstance(n, (ast.Return, ast.Break, ast.Continue)):
                fail(n, 'return / break / continue in a loop')
        if not isinstance(s.target, ast.Name):
            fail(s, 'loop target outside grammar')
        # a generator method: `for _ in self.m(..): pass`
        sc = self.stateful_call(s.iter, env, generator_ok=True)
        if sc is not None:
            if sc[2] != 'nothing' or len(s.body) != 1 or not isinstance(s.body[0], ast.Pass):
                fail(s, 'a loop over a generator method must have the body `pass`')
            env2 = self.bind_name(env, s.target.id, Var('dead'), s)
            return self.state_step(sc, k, env2)
        pre = []
        it = self.expr(s.iter, env, pre)
        x = s.target.id
        if it.ty == 'strs':
            lam, var = f'v_{x}', Var('local', Val(f'v_{x}', 'str'))
        elif it.ty == 'gateobjs':
            lam, var = f'kv_{x}', Var('local', Val(None, 'gateobj', label=f'(fst kv_{x})', gate=f'(snd kv_{x})'))
        else:
            fail(s.iter, f'iteration over a value of type {it.ty}')
        benv = self.bind_name(env, x, var, s)
        # does the body write the state?  (dry run)
        snap = (self.tmp, list(self.rets), self.wrote)
        self.wrote = False
        self.block(s.body, benv, lambda e: 'Ok tt')
        writes = self.wrote
        self.tmp, self.rets, self.wrote = snap[0], snap[1], snap[2] or writes
        self.need_monad()
        # names assigned in the body do not survive it
        env2 = dict(env)
        for n in ast.walk(s):
            if isinstance(n, ast.Name) and isinstance(n.ctx, ast.Store):
                if n.id in env and env[n.id].kind != 'dead' and n.id != x:
                    fail(n, f'a loop body assigns the outer name {n.id}')
                env2[n.id] = Var('dead')
        if writes:
            if it.view:
                fail(s, 'a loop that writes the state iterates over a view of it')
            body = self.block(s.body, benv, lambda e: 'Ok c')
            nxt = k(env2)
            loop = f'foldM (fun c {lam} =>\n{ind(body)}) {atom(it.code)} c'
            if nxt == 'Ok c':
                return self.binds(pre, loop)
            return self.binds(pre, f'do c <- {loop};\n' + nxt)
        body = self.block(s.body, benv, lambda e: 'Ok tt')
        return self.binds(pre, f'do _ <- foldM (fun (_ : unit) {lam} =>\n{ind(body)}) {atom(it.code)} tt;\n' + k(env2))

    def with_(self, s, env, k):
        if len(s.items) != 1 or not isinstance(s.items[0].optional_vars, ast.Name):
            fail(s, 'with form outside grammar')
        ctx, name = s.items[0].context_expr, s.items[0].optional_vars.id
        if not isinstance(ctx, ast.Call) or ctx.keywords:
            fail(s, 'context manager outside grammar')
        pre = []
        if isinstance(ctx.func, ast.Attribute) and ctx.func.attr == 'StringIO' and self.is_module(ctx.func.value, env, 'io') \
                and len(ctx.args) == 1:
            v = self.expr(ctx.args[0], env, pre)
            if v.ty != 'str':
                fail(ctx, 'io.StringIO of a value that is not a str')
            stream = Val(f'(lines {atom(v.code)})', 'strs')
        elif isinstance(ctx.func, ast.Attribute) and ctx.func.attr == 'open' and isinstance(ctx.func.value, ast.Name) \
                and ctx.func.value.id in env and env[ctx.func.value.id].kind == 'path' and not ctx.args:
            param = env[ctx.func.value.id].info
            if param not in self.reads_file:
                self.reads_file.add(param)
                raise Restart()
            stream = Val(f'(py_text_file_lines v_{param}_content)', 'strs')
        else:
            fail(s, 'context manager outside grammar')
        if not self.terminates(s.body):
            fail(s, 'the body of a with must end in return / raise')
        env2 = self.bind_name(env, name, Var('local', stream), s)
        return self.binds(pre, self.block(s.body, env2, lambda e: fail(s, 'unreachable')))

    def try_(self, s, env):
        if s.orelse or s.finalbody or len(s.handlers) != 1:
            fail(s, 'try form outside grammar')
        h = s.handlers[0]
        if h.name is not None or h.type is None or len(h.body) != 1 or not isinstance(h.body[0], ast.Raise) \
                or h.body[0].exc is None or h.body[0].cause is not None:
            fail(s, 'except clause must be `except <E1>: raise <E2>(..)`')
        e1 = self.exc_kind(h.type, env)
        e2 = self.exc_kind(h.body[0].exc, env)
        if not self.terminates(s.body):
            fail(s, 'the body of a try must end in return / raise')
        self.need_monad()
        body = self.block(s.body, env, lambda e: fail(s, 'unreachable'))
        return f'py_reraise {e1} {e2} (\n{ind(body)})'

    def call_stmt(self, node, env, k, rest):
        # <path>.write_text(<str>)
        f = node.func
        if isinstance(f, ast.Attribute) and f.attr == 'write_text' and isinstance(f.value, ast.Name) \
                and f.value.id in env and env[f.value.id].kind == 'path':
            if len(node.args) != 1 or node.keywords or rest:
                fail(node, 'write_text(<text>) must be the last statement')
            pre = []
            v = self.expr(node.args[0], env, pre)
            if v.ty != 'str':
                fail(node, 'write_text of a value that is not a str')
            self.written = v.code
            return self.binds(pre, k(env))
        sc = self.stateful_call(node, env)
        if sc is not None:
            if sc[2] != 'nothing':
                fail(node, 'the result of a call is dropped')
            return self.state_step(sc, k, env)
        pre = []
        v = self.expr(node, env, pre, stmt=True)
        if v.ty != 'unit':
            fail(node, 'an expression statement must be a check')
        return self.binds(pre, k(env))

    # ------------------------------------------------------------ calls that act on the parser state
    def static_args(self, fn, node, env, pre, skip=0):
        """bind the arguments of a call to a statically called method: -> list of codes (named..., [vararg list])"""
        if node.keywords:
            fail(node, 'keyword arguments in a method call')
        plain, star = [], None
        for i, a in enumerate(node.args):
            if isinstance(a, ast.Starred):
                if i != len(node.args) - 1:
                    fail(a, 'a starred argument must come last')
                star = self.expr(a.value, env, pre)
                if star.ty != 'strs':
                    fail(a, 'a starred argument must be a list of str')
            else:
                plain.append(self.expr(a, env, pre))
        n = len(fn.named)
        if len(plain) < n or (len(plain) > n and fn.vararg is None) or (star is not None and fn.vararg is None):
            fail(node, f'the call does not bind the parameters of {fn.name} statically')
        codes = [atom(v.code) for v in plain[:n]]
        want = [t for _n, t in fn.params if _n.startswith('v_')]
        got = [coq_ty(v.ty) for v in plain[:n]]
        if got != [w for w in want[:n]]:
            fail(node, f'argument types {got} do not fit {fn.name}{want}')
        if fn.vararg is not None:
            extra = plain[n:]
            if any(v.ty != 'str' for v in extra):
                fail(node, 'extra positional arguments must be str')
            lst = '[' + '; '.join(v.code for v in extra) + ']'
            if star is None:
                codes.append(lst)
            elif extra:
                codes.append(f'({lst} ++ {atom(star.code)})%list')
            else:
                codes.append(atom(star.code))
        return codes

    def is_state(self, node, env):
        return (self.kind == 'parser' and self.u.parser is not None and isinstance(node, ast.Attribute)
                and isinstance(node.value, ast.Name)
                and node.value.id in env and env[node.value.id].kind == 'self' and node.attr == self.u.parser['state'])

    def stateful_call(self, node, env, generator_ok=False):
        """-> (pre, code, ret, pure) | None.  code : res circuit (pure: circuit)"""
        if not isinstance(node, ast.Call):
            return None
        f = node.func
        pre = []
        # self.m(args)
        if isinstance(f, ast.Attribute) and isinstance(f.value, ast.Name) and f.value.id in env \
                and env[f.value.id].kind == 'self' and self.kind == 'parser':
            mod, cls, src = self.u.find_method(f.attr, node)
            fn = self.u.get('parser', mod, cls, src)
            if not fn.stateful:
                return None
            if fn.generator and not generator_ok and not self.fn.generator:
                fail(node, 'a generator method may only be iterated or re-yielded')
            self.touch_state(node, write=True)
            codes = self.static_args(fn, node, env, pre)
            return pre, ' '.join([fn.coqname, 'c'] + codes), fn.ret, False
        # <local parser>.m(args)
        if isinstance(f, ast.Attribute) and isinstance(f.value, ast.Name) and f.value.id in env \
                and env[f.value.id].kind == 'parser':
            mod, cls, src = self.u.find_method(f.attr, node)
            fn = self.u.get('parser', mod, cls, src)
            if not fn.stateful or fn.ret != 'circuit':
                fail(node, 'a method called on a local parser must return the circuit')
            codes = self.static_args(fn, node, env, pre)
            return pre, ' '.join([fn.coqname, env[f.value.id].info] + codes), 'circuit', False
        if self.kind != 'parser' or self.u.parser is None:
            return None
        # self.<table>[K](a, *rest)
        if isinstance(f, ast.Subscript) and isinstance(f.value, ast.Attribute) and isinstance(f.value.value, ast.Name) \
                and f.value.value.id in env and env[f.value.value.id].kind == 'self' \
                and f.value.attr == self.u.parser['table']:
            self.touch_state(node, write=True)
            tbl = self.u.table(node)
            key = self.expr(f.slice, env, pre)
            if key.ty != 'str':
                fail(node, 'dispatch table key must be a str')
            if node.keywords or not node.args or isinstance(node.args[0], ast.Starred):
                fail(node, 'a dispatch table call must pass the output label first')
            out = self.expr(node.args[0], env, pre)
            if out.ty != 'str':
                fail(node, 'the output label must be a str')
            plain, star = [], None
            for i, a in enumerate(node.args[1:]):
                if isinstance(a, ast.Starred):
                    if i != len(node.args) - 2:
                        fail(a, 'a starred argument must come last')
                    star = self.expr(a.value, env, pre)
                    if star.ty != 'strs':
                        fail(a, 'a starred argument must be a list of str')
                else:
                    v = self.expr(a, env, pre)
                    if v.ty != 'str':
                        fail(a, 'operands must be str')
                    plain.append(v)
            if pre:
                fail(node, 'key / arguments of a dispatch table call must not be able to raise')
            lst = '[' + '; '.join(v.code for v in plain) + ']'
            argv = lst if star is None else (atom(star.code) if not plain else f'({lst} ++ {atom(star.code)})%list')
            h = self.fresh('h')
            return pre, f'(do {h} <- py_dict_getitem {tbl} {atom(key.code)}; {h} c {atom(out.code)} {argv})', 'nothing', False
        # self.<state>._emplace_gate(...)
        if isinstance(f, ast.Attribute) and f.attr == '_emplace_gate' and self.is_state(f.value, env):
            self.touch_state(node, write=True)
            names = ['label', 'gate_type', 'operands']
            vals = {}
            for n, a in zip(names, node.args):
                if isinstance(a, ast.Starred):
                    fail(a, 'starred argument of _emplace_gate')
                vals[n] = a
            if len(node.args) > 3:
                fail(node, 'too many arguments of _emplace_gate')
            for kw in node.keywords:
                if kw.arg not in names or kw.arg in vals:
                    fail(node, 'keyword of _emplace_gate')
                vals[kw.arg] = kw.value
            if 'label' not in vals or 'gate_type' not in vals:
                fail(node, '_emplace_gate needs label and gate_type')
            # Python evaluates positional arguments, then keywords, in source order
            order = list(node.args) + [kw.value for kw in node.keywords]
            codes = {}
            for a in order:
                n = next(nm for nm, vv in vals.items() if vv is a)
                codes[n] = self.expr(a, env, pre)
            if codes['label'].ty != 'str' or codes['gate_type'].ty != 'gtype' \
                    or ('operands' in codes and codes['operands'].ty != 'strs'):
                fail(node, 'argument types of _emplace_gate')
            ops = atom(codes['operands'].code) if 'operands' in codes else '[]'
            return pre, f'emplace_gate_raw c {atom(codes["label"].code)} {atom(codes["gate_type"].code)} {ops}', 'nothing', True
        # self.<state>._outputs.append(x)
        if isinstance(f, ast.Attribute) and f.attr == 'append' and isinstance(f.value, ast.Attribute) \
                and f.value.attr == '_outputs' and self.is_state(f.value.value, env):
            self.touch_state(node, write=True)
            if len(node.args) != 1 or node.keywords:
                fail(node, 'append takes one argument')
            v = self.expr(node.args[0], env, pre)
            if v.ty != 'str':
                fail(node, 'an output label must be a str')
            return pre, f'set_outputs_raw c (outputs c ++ [{v.code}])', 'nothing', True
        return None

    # ------------------------------------------------------------ expressions
    def expr(self, node, env, pre, stmt=False):
        if isinstance(node, ast.Constant):
            if isinstance(node.value, bool):
                return Val('true' if node.value else 'false', 'bool')
            if isinstance(node.value, str):
                return Val(coq_string(node.value, node), 'str')
            if type(node.value) is int:
                return Val(f'({node.value})%Z', 'int')
            fail(node, 'constant outside grammar')
        if isinstance(node, ast.Name):
            return self.name(node, env)
        if isinstance(node, ast.JoinedStr):
            parts = []
            for v in node.values:
                if isinstance(v, ast.Constant) and isinstance(v.value, str):
                    parts.append(coq_string(v.value, v))
                elif isinstance(v, ast.FormattedValue) and v.conversion == -1 and v.format_spec is None:
                    e = self.expr(v.value, env, pre)
                    if e.ty != 'str':
                        fail(v, 'an f-string may only format str values')
                    parts.append(atom(e.code))
                else:
                    fail(v, 'f-string part outside grammar')
            if not parts:
                return Val('""', 'str')
            if len(parts) == 1:
                return Val(parts[0], 'str')
            return Val('(' + ' ++ '.join(parts) + ')%string', 'str')
        if isinstance(node, ast.Attribute):
            return self.attribute(node, env, pre)
        if isinstance(node, ast.Subscript):
            return self.subscript(node, env, pre)
        if isinstance(node, ast.Compare):
            return self.compare(node, env, pre)
        if isinstance(node, ast.BoolOp):
            return self.boolop(node, env, pre)
        if isinstance(node, ast.UnaryOp) and isinstance(node.op, ast.Not):
            v = self.expr(node.operand, env, pre)
            if v.ty != 'bool':
                fail(node, '`not` of a value that is not a bool')
            return Val(f'negb {atom(v.code)}', 'bool')
        if isinstance(node, ast.UnaryOp) and isinstance(node.op, ast.USub) and isinstance(node.operand, ast.Constant) \
                and type(node.operand.value) is int:
            return Val(f'(-{node.operand.value})%Z', 'int')
        if isinstance(node, ast.BinOp) and isinstance(node.op, (ast.Add, ast.Sub)):
            a = self.expr(node.left, env, pre)
            b = self.expr(node.right, env, pre)
            if a.ty != 'int' or b.ty != 'int':
                fail(node, '+ / - on values that are not ints')
            op = '+' if isinstance(node.op, ast.Add) else '-'
            return Val(f'({atom(a.code)} {op} {atom(b.code)})%Z', 'int')
        if isinstance(node, (ast.Tuple, ast.List)):
            return self.display(node, env, pre)
        if isinstance(node, ast.ListComp):
            return self.comprehension(node, env, pre)
        if isinstance(node, ast.Call):
            return self.call(node, env, pre, stmt)
        fail(node, 'expression outside grammar')

    def name(self, node, env):
        if node.id in env:
            v = env[node.id]
            if v.kind == 'local':
                return v.val
            fail(node, f'{node.id} ({v.kind}) is not a value here')
        if self.module == GATE_MOD and node.id in GTYPES and self.u.src.resolve(self.module, node.id) == ('def', GATE_MOD, node.id):
            return Val(node.id, 'gtype')
        c = self.u.const(self.module, node.id, node)
        if c is not None:
            return Val(c[0], 'str')
        fail(node, f'unknown name {node.id}')

    def gateobj(self, node, env):
        """node denotes a Gate object -> (label code, gate code) | None"""
        if isinstance(node, ast.Name) and node.id in env:
            v = env[node.id]
            if v.kind == 'self' and self.kind == 'gate':
                return 'l', 'g'
            if v.kind == 'local' and v.val.ty == 'gateobj':
                return v.val.label, v.val.gate
        return None

    def attribute(self, node, env, pre):
        base = node.value
        # gate.<TYPE>
        if isinstance(base, ast.Name) and node.attr in GTYPES and self.is_module(base, env, GATE_MOD):
            return Val(node.attr, 'gtype')
        go = self.gateobj(base, env)
        if go is not None:
            if node.attr in ('_label', 'label'):
                return Val(go[0], 'str')
            if node.attr in ('_gate_type', 'gate_type'):
                return Val(f'(gtyp {go[1]})', 'gtype')
            if node.attr in ('_operands', 'operands'):
                return Val(f'(gops {go[1]})', 'strs')
            fail(node, 'attribute of a Gate outside grammar')
        if isinstance(base, ast.Name) and base.id in env and env[base.id].kind == 'self':
            if self.kind == 'circuit':
                if node.attr in ('_inputs', 'inputs'):
                    return Val('(inputs self)', 'strs')
                if node.attr in ('_outputs', 'outputs'):
                    return Val('(outputs self)', 'strs')
                if node.attr in ('_gates', 'gates'):
                    return Val('(gates self)', 'gatedict')
            if self.is_state(node, env):
                self.touch_state(node)
                return Val('c', 'circuit', view=True)
            fail(node, 'attribute of self outside grammar')
        if self.is_state(base, env) and node.attr == 'gates':
            self.touch_state(node)
            return Val('(gates c)', 'gatedict', view=True)
        if node.attr == 'name':
            v = self.expr(base, env, pre)
            if v.ty == 'gtype':
                return Val(f'(gname {atom(v.code)})', 'str')
        fail(node, 'attribute outside grammar')

    def subscript(self, node, env, pre):
        v = self.expr(node.value, env, pre)
        if v.ty != 'str':
            fail(node, 'subscript of a value that is not a str')
        sl = node.slice
        if isinstance(sl, ast.Slice):
            if sl.step is not None:
                fail(node, 'slice step')
            bounds = []
            for b in (sl.lower, sl.upper):
                if b is None:
                    bounds.append('None')
                else:
                    bv = self.expr(b, env, pre)
                    if bv.ty != 'int':
                        fail(node, 'slice bound is not an int')
                    bounds.append(f'(Some {atom(bv.code)})')
            return Val(f'(py_slice {atom(v.code)} {bounds[0]} {bounds[1]})', 'str')
        i = self.expr(sl, env, pre)
        if i.ty != 'int':
            fail(node, 'index is not an int')
        self.need_monad()
        t = self.fresh()
        pre.append((t, f'py_getitem {atom(v.code)} {atom(i.code)}'))
        return Val(t, 'str')

    def one_char(self, node):
        if not (isinstance(node, ast.Constant) and isinstance(node.value, str) and len(node.value) == 1):
            fail(node, 'a one-character literal is required here')
        return coq_char(node.value, node)

    def compare(self, node, env, pre):
        if len(node.ops) != 1:
            fail(node, 'chained comparison')
        op, l, r = node.ops[0], node.left, node.comparators[0]
        if isinstance(op, (ast.In, ast.NotIn)):
            ch = self.one_char(l)
            s = self.expr(r, env, pre)
            if s.ty != 'str':
                fail(node, '`in` on a value that is not a str')
            code = f'has_char {ch} {atom(s.code)}'
            return Val(code if isinstance(op, ast.In) else f'negb ({code})', 'bool')
        if not isinstance(op, (ast.Eq, ast.NotEq)):
            fail(node, 'comparison operator outside grammar')
        a = self.expr(l, env, pre)
        b = self.expr(r, env, pre)
        if a.ty != b.ty:
            fail(node, f'comparison of {a.ty} with {b.ty}')
        eqb = {'str': 'String.eqb {} {}', 'int': 'Z.eqb {} {}', 'gtype': 'gtype_beq {} {}',
               'strs': 'labels_eqb {} {}', 'bool': 'Bool.eqb {} {}'}.get(a.ty)
        if eqb is None:
            fail(node, f'== on values of type {a.ty}')
        code = eqb.format(atom(a.code), atom(b.code))
        return Val(code if isinstance(op, ast.Eq) else f'negb ({code})', 'bool')

    def boolop(self, node, env, pre):
        parts = []
        for v in node.values:
            p = []
            val = self.expr(v, env, p)
            if val.ty != 'bool':
                fail(v, 'operand of and / or is not a bool')
            parts.append((p, val))
        is_or = isinstance(node.op, ast.Or)
        pre.extend(parts[0][0])
        if all(not p for p, _ in parts[1:]):
            op = ' || ' if is_or else ' && '
            return Val('(' + op.join(atom(v.code) for _p, v in parts) + ')', 'bool')
        # a later operand can raise: keep the short circuit
        self.need_monad()
        code = self.binds(parts[-1][0], f'Ok {atom(parts[-1][1].code)}')
        for p, v in reversed(parts[1:-1]):
            inner = f'if {v.code} then Ok true else\n{code}' if is_or else f'if {v.code} then\n{ind(code)}\nelse Ok false'
            code = self.binds(p, inner)
        first = parts[0][1]
        code = f'if {first.code} then Ok true else\n{code}' if is_or else f'if {first.code} then\n{ind(code)}\nelse Ok false'
        t = self.fresh()
        pre.append((t, '(' + code + ')'))
        return Val(t, 'bool')

    def display(self, node, env, pre):
        elts = node.elts
        if isinstance(node, ast.Tuple) and not any(isinstance(e, ast.Starred) for e in elts) and len(elts) >= 2:
            vals = [self.expr(e, env, pre) for e in elts]
            return Val('(' + ', '.join(v.code for v in vals) + ')', ('tuple', tuple(v.ty for v in vals)))
        chunks, cur = [], []
        for e in elts:
            if isinstance(e, ast.Starred):
                if cur:
                    chunks.append('[' + '; '.join(cur) + ']')
                    cur = []
                v = self.expr(e.value, env, pre)
                if v.ty != 'strs':
                    fail(e, 'starred element is not a list of str')
                chunks.append(atom(v.code))
            else:
                v = self.expr(e, env, pre)
                if v.ty != 'str':
                    fail(e, 'list element is not a str')
                cur.append(v.code)
        if cur or not chunks:
            chunks.append('[' + '; '.join(cur) + ']')
        if len(chunks) == 1:
            return Val(chunks[0], 'strs')
        return Val('(' + ' ++ '.join(chunks) + ')%list', 'strs')

    def generator(self, node, env, pre):
        """[e for x in it if c] / (e for x in it if c) -> map f (filter p it)"""
        if len(node.generators) != 1:
            fail(node, 'nested comprehension')
        g = node.generators[0]
        if g.is_async or not isinstance(g.target, ast.Name):
            fail(node, 'comprehension target outside grammar')
        it = self.expr(g.iter, env, pre)
        x = g.target.id
        if it.ty == 'strs':
            lam, var = f'v_{x}', Var('local', Val(f'v_{x}', 'str'))
        elif it.ty == 'gateobjs':
            lam, var = f'kv_{x}', Var('local', Val(None, 'gateobj', label=f'(fst kv_{x})', gate=f'(snd kv_{x})'))
        else:
            fail(g.iter, f'iteration over a value of type {it.ty}')
        if x in env and env[x].kind not in ('local', 'dead'):
            fail(node, f'comprehension variable shadows {x}')
        benv = dict(env)
        benv[x] = var
        src = atom(it.code)
        for c in g.ifs:
            p = []
            cv = self.expr(c, benv, p)
            if p or cv.ty != 'bool':
                fail(c, 'comprehension condition must be a bool that cannot raise')
            src = f'(filter (fun {lam} => {cv.code}) {src})'
        p = []
        ev = self.expr(node.elt, benv, p)
        if p or ev.ty != 'str':
            fail(node.elt, 'comprehension element must be a str that cannot raise')
        return Val(f'(map (fun {lam} => {ev.code}) {src})', 'strs')

    def comprehension(self, node, env, pre):
        return self.generator(node, env, pre)

    def call(self, node, env, pre, stmt=False):
        f = node.func
        if isinstance(f, ast.Attribute):
            # <dict>.values()
            if f.attr == 'values' and not node.args and not node.keywords:
                d = self.expr(f.value, env, pre)
                if d.ty == 'gatedict':
                    return Val(d.code, 'gateobjs', view=d.view)
                fail(node, '.values() of a value that is not the gate map')
            # <gate object>.format_gate()
            go = self.gateobj(f.value, env)
            if go is not None:
                if node.args or node.keywords:
                    fail(node, 'arguments of a Gate method')
                cls = self.u.core.classes['Gate']
                src = self.u.core.methods_of('Gate').get(f.attr)
                if src is None:
                    fail(node, f'Gate.{f.attr}: not a single plain method')
                fn = self.u.get('gate', GATE_MOD, cls, src)
                if fn.monadic:
                    self.need_monad()
                    t = self.fresh()
                    pre.append((t, f'{fn.coqname} {go[0]} {go[1]}'))
                    return Val(t, fn.ret)
                return Val(f'({fn.coqname} {go[0]} {go[1]})', fn.ret)
            # self.<method>(args)
            if isinstance(f.value, ast.Name) and f.value.id in env and env[f.value.id].kind == 'self':
                if self.kind == 'circuit':
                    if node.args or node.keywords:
                        fail(node, 'arguments of a Circuit method call')
                    src = self.u.core.circuit_methods.get(f.attr)
                    if src is None:
                        fail(node, f'Circuit.{f.attr}: not a single plain method')
                    fn = self.u.get('circuit', CIRCUIT_MOD, self.u.core.classes['Circuit'], src)
                    if fn.monadic or fn.params != [('self', 'circuit')]:
                        fail(node, 'call of a Circuit method outside grammar')
                    return Val(f'({fn.coqname} self)', fn.ret)
                if self.kind == 'parser':
                    mod, cls, src = self.u.find_method(f.attr, node)
                    fn = self.u.get('parser', mod, cls, src)
                    if fn.stateful:
                        fail(node, 'a call that acts on the state is used as a value')
                    codes = self.static_args(fn, node, env, pre)
                    self.need_monad()
                    t = self.fresh()
                    pre.append((t, ' '.join([fn.coqname] + codes)))
                    return Val(t, fn.ret)
            # str methods
            if isinstance(f.value, ast.Constant) and isinstance(f.value.value, str) and f.attr == 'join':
                if len(node.args) != 1 or node.keywords:
                    fail(node, 'join takes one argument')
                a = node.args[0]
                l = self.generator(a, env, pre) if isinstance(a, ast.GeneratorExp) else self.expr(a, env, pre)
                if l.ty != 'strs':
                    fail(node, 'join of a value that is not a list of str')
                return Val(f'(String.concat {coq_string(f.value.value, f.value)} {atom(l.code)})', 'str')
            if f.attr in ('find', 'strip', 'upper', 'startswith', 'split'):
                if node.keywords:
                    fail(node, 'keyword argument of a str method')
                s = self.expr(f.value, env, pre)
                if s.ty != 'str':
                    fail(node, f'.{f.attr} of a value that is not a str')
                if f.attr == 'upper':
                    if node.args:
                        fail(node, 'upper takes no argument')
                    return Val(f'(upper {atom(s.code)})', 'str')
                if len(node.args) != 1:
                    fail(node, f'.{f.attr} takes exactly one argument here')
                a = node.args[0]
                if f.attr == 'find':
                    return Val(f'(py_find_char {self.one_char(a)} {atom(s.code)})', 'int')
                if f.attr == 'split':
                    return Val(f'(split_char {self.one_char(a)} {atom(s.code)})', 'strs')
                if not (isinstance(a, ast.Constant) and isinstance(a.value, str) and a.value):
                    fail(a, 'a non-empty string literal is required here')
                if f.attr == 'strip':
                    if any(ord(ch) >= 128 for ch in a.value):
                        fail(a, 'non-ASCII strip set')
                    return Val(f'(strip {coq_chars(a.value)} {atom(s.code)})', 'str')
                return Val(f'(startswith {coq_string(a.value, a)} {atom(s.code)})', 'bool')
        # check_gates_exist(labels, circuit)
        # (validation.py is read through T9's unit: its `if tp.TYPE_CHECKING:` imports are outside Sources.bindings)
        if isinstance(f, ast.Name) and f.id not in env \
                and self.u.src.bindings(self.module).get(f.id) == ('import', VALIDATION_MOD, 'check_gates_exist'):
            if len(node.args) != 2 or node.keywords or any(isinstance(a, ast.Starred) for a in node.args):
                fail(node, 'check_gates_exist(labels, circuit)')
            a = self.expr(node.args[0], env, pre)
            b = self.expr(node.args[1], env, pre)
            if a.ty != 'strs' or b.ty != 'circuit':
                fail(node, 'argument types of check_gates_exist')
            self.need_monad()
            pre.append(('_', f'check_gates_exist {atom(a.code)} {atom(b.code)}'))
            return Val('tt', 'unit')
        fail(node, 'call outside grammar')


# ---------------------------------------------------------------------------------------------- driver
def generate():
    u = BenchUnit()
    for cname, mname in ROOTS:
        cls = u.core.classes[cname]
        src = u.core.methods_of(cname).get(mname)
        if src is None:
            raise TranslatorError(f'{cname}.{mname}: not a single plain definition')
        if cname == 'Gate':
            u.get('gate', GATE_MOD, cls, src)
        else:
            static = any(ast.unparse(d) == 'staticmethod' for d in src.decorator_list)
            u.get('static' if static else 'circuit', CIRCUIT_MOD, cls, src)
    if u.parser is None or u.parser['table_coq'] is None:
        raise TranslatorError('the translation did not reach the parser / its dispatch table')
    return HEADER + '\n' + '\n'.join(u.order)


def translate():
    return {OUT: write_if_changed(OUT, generate())}


if __name__ == '__main__':
    print(translate())
