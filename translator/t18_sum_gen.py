"""T18: the generator ALGORITHMS of property C07 -> Generated/ArithGen07.v

  cirbo/synthesis/generation/arithmetics/summation.py
      _add_sum_n_bits_aig, _add_sum_n_bits, add_sum_n_bits (the dispatcher), add_sum_n_bits_easy,
      add_sum_two_numbers, add_sum_two_numbers_with_shift, add_sum_pow2_m1,
      add_sum_n_weighted_bits_naive, add_sum_n_weighted_bits
      and the wrappers generate_sum_n_bits, generate_sum_weighted_bits_efficient, generate_sum_weighted_bits_naive
  cirbo/synthesis/generation/helpers.py   the members of the enum GenerationBasis (-> gen_GenerationBasis)

This is translator T14 (translator/t14_arith_gen.py: builder programs of Model/Builder.v, Python ints as Z, lists with
Python indexing, left-to-right evaluation into temporaries, the ownership discipline for in-place mutation) extended
by subclassing with what summation.py needs in addition.  Every function `f` becomes `gen_f`, derived statement by
statement; Proofs/ArithGen07*.v proves each extensionally equal to the hand model of Model/ArithSum{2,N,W}.v.
Anything outside the grammar raises TranslatorError.

What is NOT re-derived here (in addition to the list in T14's header):
  add_sum2 add_sum3 add_stockmeyer_block add_mdfa add_simplified_mdfa add_sum2_aig add_sum3_aig
                                                  -> Generated/ArithCells.v (T4); only their signatures are read
  reverse_if_big_endian                           -> gen_reverse_if_big_endian of Generated/ArithGen09.v (T14)
  sortedcontainers.SortedList                     -> the Coq list of its elements in order, with the operations of the
                                                     hand model: SortedList(it) = sl_of_list, .add = sl_add
                                                     (Model/ArithSumW.v), and l[0] / len / .discard of the prelude
  itertools.zip_longest( *ls), filter(None, x), min, max, list.pop, l[a:b:-1], str.upper (ASCII: `upper` of
  Model/ArithSumN.v)                              -> Model/PyPrimsSum.v (fixed prelude)
  the value of a `basis` parameter                -> basis_arg of Model/ArithSumN.v (BEnum member | BStr string)

Grammar added to T14's (see its docstring for the rest):
  parameters   tp.Union[str, GenerationBasis] (basis_arg), tp.Iterable[tuple[int, gate.Label]], tp.Iterable[int];
               an unannotated parameter takes its type from UNANNOTATED below (a declared typing assumption)
  <stmt> ::= <n1>, ..., <nk> = <e1>, ..., <ek>            parallel assignment (all right-hand sides first)
           | <n1>, <n2>[, <n3>] = <tuple or list value>   (`_` discards; a list goes through py_unpack2 / py_unpack3)
           | <name>[<int expr>] = <expr>                  any element type (lists of lists)
           | <name>.pop() | <sorted list>.add(<e>) | <sorted list>.discard(<e>) | <name>.append(<e>)  (owned lists)
           | <name> = "<string literal>"
           | assert <cond>                                 PyAssertionError
           | break | continue                              inside `while`
           | while <cond>: <stmts>                         <cond>: one comparison of ints whose operands may index
                                                           lists (IndexError), or pure comparisons joined by and / or
           | if isinstance(<basis param>, str): ...        a match that narrows the parameter (str / enum member)
  <expr> ::= (e1, ..., ek) tuples of ints / labels, t[<k>] on a tuple, l[a:b:-1], [] (element type inferred from the
             first append / add), [e for ...] with an element that may raise (mapP), a ** b with a literal base and
             an exponent that is the variable of a `range` loop with non-negative literal bounds, min(a, b),
             max(a, b), max(<list of ints>), SortedList(), SortedList(<list>), GenerationBasis.<MEMBER>,
             GenerationBasis(<str>.upper()), <basis> == GenerationBasis.<MEMBER>, zip_longest( *<list of lists>),
             list(filter(None, <x>)), calls with `circuit=circuit` as a keyword.

`while` loops and their FUEL (Python has none; a loop that runs out of it is Err OutOfFuel, and the equality proofs
against the hand model - whose loops are structural recursions or carry the same fuel - validate the choice):
  a loop that is not nested in another `while`:  S (total length of the list parameters at function entry)
  a nested loop:                                  S (total length, at loop entry, of the lists its condition mentions)
A loop with a pure condition and without break / continue is py_while (PyPrims.v); otherwise py_while_c
(PyPrimsSum.v: the condition is a program, the body returns LNext / LBreak).

The wrappers (SumWrapTr): `circuit = Circuit.bare_circuit(n)`, then ordinary statements (where `circuit.inputs` may be
read: no builder program changes the inputs), `circuit.set_outputs(<labels>)`, `return circuit`; everything between
the creation and set_outputs is ONE builder program run on the new circuit with uuid counter k0.
"""
import ast

from .common import TranslatorError, fail, parse, strip_docstring, write_if_changed, guard_module
from . import t4_arith
from . import t14_arith_gen as t14
from .t14_arith_gen import (FnTr, Unit, Sig, Var, Env, E, TList, TTup, TOpt, LABEL, INT, BOOL, STRC, STATE, UNIT,
                            LABELS, is_list, is_tuple, is_opt, has_list, tuple_term, tuple_pat, paren, indent,
                            assigned, contains, assigned_deep, MODULES)

OUT = 'Generated/ArithGen07.v'
HELPERS = MODULES['helpers'][0]

FUNCS = ['_add_sum_n_bits_aig', '_add_sum_n_bits', 'add_sum_n_bits', 'add_sum_n_bits_easy',
         'add_sum_two_numbers', 'add_sum_two_numbers_with_shift', 'add_sum_pow2_m1',
         'add_sum_n_weighted_bits_naive', 'add_sum_n_weighted_bits']
WRAPPERS = ['generate_sum_n_bits', 'generate_sum_weighted_bits_efficient', 'generate_sum_weighted_bits_naive']
CELLS = ['add_sum2', 'add_sum3', 'add_stockmeyer_block', 'add_mdfa', 'add_simplified_mdfa', 'add_sum2_aig',
         'add_sum3_aig']

BASISARG, GENBASIS, STR = 'basisarg', 'genbasis', 'str'
WEIGHTED = TList(TTup([INT, LABEL]))
# types of the parameters the source leaves without annotation
UNANNOTATED = {
    ('add_sum_two_numbers_with_shift', 'shift'): INT,
    ('add_sum_n_weighted_bits', 'circuit'): STATE,
    ('add_sum_n_weighted_bits', 'input_labels_with_pow'): WEIGHTED,
}
RESERVED = t14.RESERVED | {
    'XAIG', 'AIG', 'BEnum', 'BStr', 'upper', 'sl_add', 'sl_of_list', 'LNext', 'LBreak', 'mapP', 'S', 'O',
    'gen_basis', 'basis_arg', 'string', 'removelast', 'nth_error', 'flat_map', 'fold_left', 'witem', 'wpair',
} | set(CELLS)


def TSList(t):
    return ('slist', t)


def is_slist(t):
    return isinstance(t, tuple) and t[0] == 'slist'


def is_tyvar(t):
    return isinstance(t, tuple) and t[0] == '?'


def has_tyvar(t):
    if is_tyvar(t):
        return True
    if isinstance(t, tuple) and t[0] in ('list', 'slist', 'opt'):
        return has_tyvar(t[1])
    if is_tuple(t):
        return any(has_tyvar(x) for x in t[1])
    return False


def subst(t, hints):
    if is_tyvar(t):
        return hints.get(t, t)
    if isinstance(t, tuple) and t[0] in ('list', 'slist', 'opt'):
        return (t[0], subst(t[1], hints))
    if is_tuple(t):
        return TTup([subst(x, hints) for x in t[1]])
    return t


class Retry(Exception):
    """the element type of an empty list was learned: translate the function again with this knowledge"""


def coq_ty(t, top=True):
    if t == GENBASIS:
        return 'gen_basis'
    if t == BASISARG:
        return 'basis_arg'
    if t == STR:
        return 'string'
    if has_tyvar(t):
        raise TranslatorError(f'the element type of an empty list could not be inferred ({t!r})')
    if is_slist(t) or is_list(t):
        s = 'list ' + coq_ty(t[1], False)
    elif is_opt(t):
        s = 'option ' + coq_ty(t[1], False)
    elif is_tuple(t):
        s = ' * '.join(coq_ty(x, False) for x in t[1])
    else:
        return t14.coq_ty(t, top)
    return s if top else '(' + s + ')'


def listy(t):
    return is_list(t) or is_slist(t)


def has_listy(t):
    return is_slist(t) or has_list(t)


def scalar(t):
    return t in (INT, LABEL)


def ltb_of(t, node):
    if t == INT:
        return 'Z.ltb'
    if t == LABEL:
        return 'String.ltb'
    if is_tuple(t) and len(t[1]) >= 2 and all(scalar(x) for x in t[1]):
        head = TTup(t[1][:-1]) if len(t[1]) > 2 else t[1][0]
        return f'(py_lex_ltb {ltb_of(head, node)} {eqb_of(head, node)} {ltb_of(t[1][-1], node)})'
    fail(node, f'no Python order for values of type {t!r}')


def eqb_of(t, node):
    if t == INT:
        return 'Z.eqb'
    if t == LABEL:
        return 'String.eqb'
    if is_tuple(t) and len(t[1]) >= 2 and all(scalar(x) for x in t[1]):
        head = TTup(t[1][:-1]) if len(t[1]) > 2 else t[1][0]
        return f'(py_pair_eqb {eqb_of(head, node)} {eqb_of(t[1][-1], node)})'
    fail(node, f'no Python equality for values of type {t!r}')


def proj(term, k, n):
    """component k of an n-tuple (n-tuples are left-nested pairs)"""
    if n == 1:
        return term
    if k == n - 1:
        return f'(snd {term})'
    return proj(f'(fst {term})', k, n - 1)


def neg_one(node):
    return isinstance(node, ast.UnaryOp) and isinstance(node.op, ast.USub) and isinstance(node.operand, ast.Constant) \
        and node.operand.value == 1


# ------------------------------------------------------------------ one function
class SumFnTr(FnTr):
    def __init__(self, unit, mod, fdef):
        super().__init__(unit, mod, fdef)
        for n in self.locals:
            if n.endswith('_py') and n[:-3] in RESERVED:
                fail(fdef, f'identifier {n!r} collides with the generated vocabulary')
        self.hints = {}
        self.reset()

    def reset(self):
        self.ntmp = 0
        self.ret = None
        self.ret_fresh = True
        self.while_depth = 0
        self.loops = []          # innermost last: the closure that emits `Ret (LNext/LBreak state)`
        self.nonneg = set()      # variables of `range` loops with non-negative literal bounds

    @staticmethod
    def cn(name):
        if name == '_':
            return '_'
        return name + '_py' if name in RESERVED else name

    # -- signature
    def ann_type(self, ann, default):
        if ann is not None:
            src = ast.unparse(ann)
            if src == 'tp.Union[str, GenerationBasis]':
                self.need_typing(ann)
                self.need_basis(ann)
                return BASISARG
            if src == 'tp.Iterable[tuple[int, gate.Label]]':
                self.need_typing(ann)
                self.need_core('gate', ann)
                return WEIGHTED
            if src == 'tp.Iterable[int]':
                self.need_typing(ann)
                return TList(INT)
        return super().ann_type(ann, default)

    def need_basis(self, node):
        if self.mod.imports.get('GenerationBasis') != (HELPERS, 'GenerationBasis'):
            fail(node, f'GenerationBasis must be imported from {HELPERS}')
        self.unit.basis_members()

    def signature(self):
        a = self.f.args
        if a.vararg or a.kwarg or a.posonlyargs:
            fail(self.f, '*args / **kwargs / positional-only parameters')
        pos_defaults = [None] * (len(a.args) - len(a.defaults)) + list(a.defaults)
        entries = [(p, d, False) for p, d in zip(a.args, pos_defaults)] + \
                  [(p, d, True) for p, d in zip(a.kwonlyargs, a.kw_defaults)]
        params, has_state = [], False
        for i, (p, d, kwo) in enumerate(entries):
            if p.annotation is None and (self.f.name, p.arg) in UNANNOTATED:
                ty = UNANNOTATED[(self.f.name, p.arg)]
            else:
                ty = self.ann_type(p.annotation, d)
            if ty == STATE:
                if i != 0 or p.arg != 'circuit':
                    fail(p, 'the Circuit must be the first parameter and be called `circuit`')
                has_state = True
                continue
            params.append((p.arg, ty, d, kwo))
        return params, has_state

    # -- type variables of empty lists
    def tyvar(self, node):
        v = ('?', node.lineno, node.col_offset)
        return self.hints.get(v, v)

    def learn(self, var_ty, elem_ty, node):
        """var_ty is a list whose element type is a type variable: record what it is and start over"""
        if has_tyvar(elem_ty):
            fail(node, 'cannot infer the element type of an empty list from this statement')
        self.hints[var_ty[1]] = elem_ty
        raise Retry()

    # -- expressions
    def val(self, node, env, binds, want=None):
        e = self.ex(node, env)
        binds.extend(e.binds)
        e.binds = []
        if want is not None and e.ty != want:
            c = self.coerce(e, want)
            if c is None:
                fail(node, f'expected a value of type {want}, got {e.ty}')
            return c
        return e

    @staticmethod
    def coerce(e, want):
        if e.ty == want:
            return e
        if want == LABEL and e.ty == STRC:
            return E([], f'"{e.term}"%string', LABEL)
        if want == BASISARG and e.ty == GENBASIS:
            return E([], f'(BEnum {e.term})', BASISARG)
        if want == BASISARG and e.ty == STRC:
            return E([], f'(BStr "{e.term}")', BASISARG)
        if want == BASISARG and e.ty == STR:
            return E([], f'(BStr {e.term})', BASISARG)
        if is_list(want) and is_list(e.ty) and is_tyvar(e.ty[1]):
            return E([], e.term, want, e.fresh, e.name)      # an empty list literal used at a known type
        return None

    def ex(self, node, env):
        if isinstance(node, ast.List) and not node.elts:
            return E([], '[]', TList(self.tyvar(node)), True)
        if isinstance(node, ast.List):
            e = super().ex(node, env)
            for x in node.elts:          # a list variable that becomes an element may no longer be mutated in place
                if isinstance(x, ast.Name) and x.id in env.vars and has_list(env.vars[x.id].ty):
                    env.vars[x.id].owned = False
            return e
        if isinstance(node, ast.Tuple):
            binds, terms, tys = [], [], []
            for x in node.elts:
                e = self.val(x, env, binds)
                if e.ty == STRC:
                    e = self.coerce(e, LABEL)
                if not scalar(e.ty):
                    fail(node, 'a tuple may only hold ints and labels')
                terms.append(e.term)
                tys.append(e.ty)
            if len(terms) < 2:
                fail(node, 'tuple with fewer than two components')
            return E(binds, '(' + ', '.join(terms) + ')', TTup(tys))
        if isinstance(node, ast.Attribute) and isinstance(node.value, ast.Name) and node.value.id == 'GenerationBasis' \
                and 'GenerationBasis' not in env.vars and 'GenerationBasis' not in self.locals_bound:
            self.need_basis(node)
            if node.attr not in self.unit.basis_members():
                fail(node, 'unknown member of GenerationBasis')
            return E([], node.attr, GENBASIS)
        if isinstance(node, ast.ListComp):
            return self.ex_listcomp(node, env)
        if isinstance(node, ast.BinOp) and isinstance(node.op, ast.Pow):
            if not (isinstance(node.left, ast.Constant) and type(node.left.value) is int and node.left.value >= 0
                    and isinstance(node.right, ast.Name) and node.right.id in self.nonneg
                    and node.right.id in env.vars and env.vars[node.right.id].ty == INT):
                fail(node, '** needs a non-negative literal base and the variable of a non-negative range loop as exponent')
            return E([], f'({node.left.value} ^ {env.vars[node.right.id].coq})', INT)
        if isinstance(node, ast.BoolOp):
            # operands may raise (they index lists): only accepted where a monadic condition is (st_while)
            return self.ex_boolop(node, env)
        return super().ex(node, env)

    def ex_boolop(self, node, env):
        es = [self.ex(v, env) for v in node.values]
        for e in es:
            if e.ty != BOOL:
                fail(node, 'and / or of values that are not bools')
        if not any(e.binds for e in es):
            op = ' || ' if isinstance(node.op, ast.Or) else ' && '
            t = es[-1].term
            for x in reversed(es[:-1]):
                t = f'({x.term}{op}{t})'
            return E([], t, BOOL)
        fail(node, 'and / or whose operands may raise')

    def ex_listcomp(self, node, env):
        if len(node.generators) != 1 or node.generators[0].ifs or node.generators[0].is_async:
            fail(node, 'comprehension outside the grammar')
        g = node.generators[0]
        binds, it, ety = self.iterable(g.iter, env)
        env2 = env.copy()
        pat = self.bind_pattern(g.target, ety, env2)
        body = self.ex(node.elt, env2)
        if body.ty == STRC:
            body = self.coerce(body, LABEL)
        if not body.binds:
            return E(binds, f'(map (fun {pat} => {body.term}) {it})', TList(body.ty), True)
        t = self.tmp()
        inner = ' '.join(body.binds + [f'Ret {body.term}'])
        binds = binds + [f'bdo {t} <- mapP (fun {pat} => {inner}) {it};']
        return E(binds, t, TList(body.ty), True)

    def ex_subscript(self, node, env):
        base = self.ex(node.value, env)
        sl = node.slice
        if is_tuple(base.ty):
            if not (isinstance(sl, ast.Constant) and type(sl.value) is int and 0 <= sl.value < len(base.ty[1])):
                fail(node, 'a tuple is indexed by a literal within its size')
            return E(base.binds, proj(base.term, sl.value, len(base.ty[1])), base.ty[1][sl.value])
        if not listy(base.ty):
            fail(node, 'subscript of a value that is not a list / tuple')
        if has_tyvar(base.ty):
            fail(node, 'subscript of a list whose element type is not known yet')
        if isinstance(sl, ast.Slice):
            if is_slist(base.ty):
                fail(node, 'slice of a SortedList')
            if sl.step is not None:
                if not neg_one(sl.step):
                    fail(node, 'only the step -1 is accepted in a slice')
                if sl.lower is None and sl.upper is None:
                    return E(base.binds, f'(rev {base.term})', base.ty, True)
                return E(base.binds, f'(py_slice_down {base.term} {self.int_opt(sl.lower, env)} '
                                     f'{self.int_opt(sl.upper, env)})', base.ty, True)
            return E(base.binds, f'(py_slice {base.term} {self.int_opt(sl.lower, env)} {self.int_opt(sl.upper, env)})',
                     base.ty, True)
        binds = list(base.binds)
        idx = self.val(sl, env, binds, INT)
        t = self.tmp()
        return E(binds + [f'bdo {t} <- py_nth {base.term} {idx.term};'], t, base.ty[1])

    def ex_compare(self, node, env):
        if len(node.ops) != 1:
            fail(node, 'chained comparison')
        op = node.ops[0]
        binds = []
        a = self.val(node.left, env, binds)
        b = self.val(node.comparators[0], env, binds)
        if a.ty == INT and b.ty == INT:
            table = {ast.Lt: '({} <? {})', ast.Gt: '({} >? {})', ast.LtE: '({} <=? {})', ast.GtE: '({} >=? {})',
                     ast.Eq: '({} =? {})', ast.NotEq: '(negb ({} =? {}))'}
            if type(op) not in table:
                fail(node, 'comparison outside the grammar')
            return E(binds, table[type(op)].format(a.term, b.term), BOOL)
        if a.ty == GENBASIS and b.ty == GENBASIS and isinstance(op, (ast.Eq, ast.NotEq)):
            t = f'(gen_basis_eqb {a.term} {b.term})'
            return E(binds, t if isinstance(op, ast.Eq) else f'(negb {t})', BOOL)
        if binds:
            fail(node, 'comparison outside the grammar')
        return super().ex_compare(node, env)

    def origin(self, name, node, env):
        if name in env.vars or name in env.dead or name in self.locals_bound:
            fail(node, f'{name!r} is a local variable')
        return self.mod.resolve(name, node)

    def ex_call(self, node, env):
        f = node.func
        if isinstance(f, ast.Name):
            name = f.id
            if name in ('min', 'max') and name not in env.vars:
                self.builtin(name, node, env)
                if node.keywords:
                    fail(node, f'{name} with keyword arguments')
                binds = []
                if len(node.args) == 2:
                    a = self.val(node.args[0], env, binds, INT)
                    b = self.val(node.args[1], env, binds, INT)
                    return E(binds, f'(Z.{name} {a.term} {b.term})', INT)
                if len(node.args) == 1 and name == 'max':
                    x = self.val(node.args[0], env, binds, TList(INT))
                    t = self.tmp()
                    return E(binds + [f'bdo {t} <- py_max {x.term};'], t, INT)
                fail(node, f'{name} outside the grammar')
            if name == 'list' and len(node.args) == 1 and not node.keywords and isinstance(node.args[0], ast.Call) \
                    and isinstance(node.args[0].func, ast.Name) and node.args[0].func.id == 'filter':
                self.builtin('list', node, env)
                self.builtin('filter', node, env)
                c = node.args[0]
                if len(c.args) != 2 or c.keywords or not (isinstance(c.args[0], ast.Constant) and c.args[0].value is None):
                    fail(node, 'list(filter(None, x)) expected')
                binds = []
                x = self.val(c.args[1], env, binds, TList(TOpt(LABEL)))
                return E(binds, f'(py_filter_none {x.term})', LABELS, True)
            if name == 'list' and len(node.args) == 1 and not node.keywords:
                self.builtin('list', node, env)
                binds = []
                x = self.val(node.args[0], env, binds)
                if not is_list(x.ty):
                    fail(node, 'list() of a value that is not a list')
                return E(binds, x.term, x.ty, True)
            if name == 'zip_longest':
                if self.origin(name, node, env) != ('itertools', 'zip_longest'):
                    fail(node, 'zip_longest must be itertools.zip_longest')
                if len(node.args) != 1 or node.keywords or not isinstance(node.args[0], ast.Starred):
                    fail(node, 'zip_longest( *<list of lists>) expected')
                binds = []
                x = self.val(node.args[0].value, env, binds)
                if not (is_list(x.ty) and is_list(x.ty[1])) or has_tyvar(x.ty):
                    fail(node, 'zip_longest( *x): x must be a list of lists')
                return E(binds, f'(py_zip_longest {x.term})', TList(TList(TOpt(x.ty[1][1]))), True)
            if name == 'SortedList':
                if self.origin(name, node, env) != ('sortedcontainers', 'SortedList'):
                    fail(node, 'SortedList must be sortedcontainers.SortedList')
                if node.keywords or len(node.args) > 1:
                    fail(node, 'SortedList() / SortedList(<list>) expected')
                if not node.args:
                    return E([], '[]', TSList(self.tyvar(node)), True)
                binds = []
                x = self.val(node.args[0], env, binds)
                if not is_list(x.ty) or has_tyvar(x.ty):
                    fail(node, 'SortedList of a value that is not a list')
                return E(binds, f'(sl_of_list {ltb_of(x.ty[1], node)} {x.term})', TSList(x.ty[1]), True)
            if name == 'GenerationBasis':
                if name in env.vars or name in self.locals_bound:
                    fail(node, 'GenerationBasis is shadowed')
                self.need_basis(node)
                a = node.args[0] if len(node.args) == 1 and not node.keywords else None
                if not (isinstance(a, ast.Call) and isinstance(a.func, ast.Attribute) and a.func.attr == 'upper'
                        and not a.args and not a.keywords):
                    fail(node, 'GenerationBasis(<str>.upper()) expected')
                binds = []
                sv = self.val(a.func.value, env, binds, STR)
                t = self.tmp()
                return E(binds + [f'bdo {t} <- gen_GenerationBasis (upper {sv.term});'], t, GENBASIS)
            if name == 'len' and len(node.args) == 1 and not node.keywords:
                self.builtin(name, node, env)
                binds = []
                x = self.val(node.args[0], env, binds)
                if not listy(x.ty):
                    fail(node, 'len of a value that is not a list')
                return E(binds, f'(py_len {x.term})', INT)
        return super().ex_call(node, env)

    def call_sig(self, sig, node, env):
        # `circuit=circuit` as a keyword
        if sig.has_state and not node.args:
            kws = [k for k in node.keywords if k.arg == 'circuit']
            if len(kws) == 1:
                node = ast.copy_location(ast.Call(func=node.func, args=[kws[0].value],
                                                  keywords=[k for k in node.keywords if k.arg != 'circuit']), node)
        return super().call_sig(sig, node, env)

    def arg_term(self, p, a, env, binds, sig):
        pty = p[1]
        e = self.val(a, env, binds)
        if e.name is not None and has_list(e.ty) and not sig.returns_fresh and e.name in env.vars:
            env.vars[e.name].owned = False
        c = self.coerce(e, pty)
        if c is None:
            if is_list(pty) and is_slist(e.ty):
                fail(a, 'a SortedList passed where a list is expected')
            fail(a, f'argument of type {e.ty} where {pty} is expected')
        return c.term

    def iterable(self, node, env):
        if isinstance(node, ast.Call) and isinstance(node.func, ast.Name) and node.func.id == 'range':
            return super().iterable(node, env)
        if isinstance(node, ast.Call) and isinstance(node.func, ast.Name) and node.func.id in ('zip', 'enumerate'):
            fail(node, 'zip / enumerate are not used by summation.py')
        binds = []
        e = self.val(node, env, binds)
        if not is_list(e.ty) or has_tyvar(e.ty):
            fail(node, 'iteration over a value that is not a list')
        return binds, e.term, e.ty[1]

    # -- statements
    def block(self, stmts, env, k):
        if stmts:
            s, rest = stmts[0], stmts[1:]
            if isinstance(s, ast.Assert):
                if s.msg is not None:
                    fail(s, 'assert with a message')
                cond = self.pure(s.test, env, BOOL).term
                return [f'if {cond} then'] + indent(paren(self.block(rest, env, k))) + ['else', '  (Fail PyAssertionError)']
            if isinstance(s, (ast.Break, ast.Continue)):
                if rest:
                    fail(rest[0], 'statement after break / continue')
                if not self.loops:
                    fail(s, 'break / continue outside a while loop')
                return self.loops[-1](env, 'LBreak' if isinstance(s, ast.Break) else 'LNext')
        return super().block(stmts, env, k)

    def exc_name(self, s):
        exc = s.exc
        if isinstance(exc, ast.Call) and isinstance(exc.func, ast.Name) and exc.func.id == 'BadBasisError' \
                and s.cause is None:
            if self.mod.resolve('BadBasisError', s) != (MODULES['exc'][0], 'BadBasisError'):
                fail(s, 'BadBasisError must come from the exceptions module of the package')
            for a in list(exc.args) + [k.value for k in exc.keywords]:
                for sub in ast.walk(a):
                    if isinstance(sub, (ast.Call, ast.Subscript)):
                        fail(s, 'the exception message may only use names')
            return 'GenerationError'          # the convention of harness/arithcorr.err_name
        return super().exc_name(s)

    def declare(self, name, ty, owned, env, node):
        if name == '_':
            return
        super().declare(name, ty, owned, env, node)

    def bind_var(self, t, e, env, binds):
        name = t.id
        owned = e.fresh
        if e.name is not None and has_listy(e.ty):
            if e.name == name:
                return          # x = x
            src = env.vars[e.name]
            owned = src.owned
            del env.vars[e.name]
            env.dead[e.name] = f'its list was moved to {name!r} (line {t.lineno})'
        binds.append(f'let {self.cn(name)} := {e.term} in')
        self.declare(name, e.ty, owned and has_listy(e.ty), env, t)

    def move_out(self, e, env, why):
        """a list-valued bare variable was stored somewhere else: it may no longer be mutated in place"""
        if e.name is not None and has_list(e.ty) and e.name in env.vars:
            env.vars[e.name].owned = False

    def st_assign(self, s, env):
        if isinstance(s, ast.Assign) and len(s.targets) == 1:
            t, value = s.targets[0], s.value
            if isinstance(t, ast.Name) and isinstance(value, ast.Constant) and isinstance(value.value, str):
                e = self.ex(value, env)
                binds = []
                self.bind_var(t, self.coerce(e, LABEL), env, binds)
                return binds
            if isinstance(t, (ast.Tuple, ast.List)) and all(isinstance(x, ast.Name) for x in t.elts):
                if any(x.id == 'circuit' for x in t.elts):
                    fail(s, 'the circuit is rebound')
                ids = [x.id for x in t.elts if x.id != '_']
                if len(set(ids)) != len(ids):
                    fail(s, 'the same name twice in an unpacking')
                if isinstance(value, ast.Tuple):
                    return self.st_parallel(s, t, value, env)
                return self.st_unpack(s, t, value, env)
            if isinstance(t, ast.Subscript):
                binds = []
                e = self.val(value, env, binds)
                self.store_any(t, e, env, binds)
                return binds
        return super().st_assign(s, env)

    def st_parallel(self, s, t, value, env):
        if len(value.elts) != len(t.elts):
            fail(s, 'parallel assignment of different sizes')
        binds, es = [], []
        for x in value.elts:
            e = self.val(x, env, binds)
            if e.ty == STRC:
                e = self.coerce(e, LABEL)
            es.append(e)
        # ownership of the moved lists
        moved = {}
        for e in es:
            if e.name is not None and has_list(e.ty):
                if e.name in moved:
                    fail(s, f'the list {e.name!r} is assigned to two variables')
                moved[e.name] = env.vars[e.name].owned
        owned = [(moved[e.name] if e.name in moved else e.fresh) and has_list(e.ty) for e in es]
        targets = [x.id for x in t.elts]
        for n in moved:
            if n not in targets:
                del env.vars[n]
                env.dead[n] = f'its list was moved (line {s.lineno})'
        pats = [self.cn(n) for n in targets]
        binds.append(f"let '({', '.join(pats)}) := ({', '.join(e.term for e in es)}) in")
        for n, e, o in zip(targets, es, owned):
            self.declare(n, e.ty, o, env, s)
        return binds

    def st_unpack(self, s, t, value, env):
        n = len(t.elts)
        binds = []
        e = self.val(value, env, binds)
        pats = [self.cn(x.id) for x in t.elts]
        if is_tuple(e.ty) and len(e.ty[1]) == n:
            tys = list(e.ty[1])
            binds.append(f"let '({', '.join(pats)}) := {e.term} in")
        elif is_list(e.ty) and n in (2, 3) and not has_tyvar(e.ty):
            tys = [e.ty[1]] * n
            binds.append(f"bdo ({', '.join(pats)}) <- py_unpack{n} {e.term};")
        else:
            fail(s, 'unpacking of a value that is neither a tuple of that size nor a list (of 2 or 3)')
        for x, ty in zip(t.elts, tys):
            if has_list(ty):
                fail(s, 'unpacking of lists')
            self.declare(x.id, ty, False, env, x)
        return binds

    def store_any(self, t, e, env, binds):
        if not isinstance(t.value, ast.Name) or isinstance(t.slice, ast.Slice):
            fail(t, 'item assignment outside the grammar')
        v = self.owned_list(t.value.id, t, env)
        if is_slist(v.ty):
            fail(t, 'item assignment into a SortedList')
        if is_tyvar(v.ty[1]):
            if e.ty == STRC:
                e = self.coerce(e, LABEL)
            self.learn(v.ty, e.ty, t)
        c = self.coerce(e, v.ty[1])
        if c is None:
            fail(t, f'a value of type {e.ty} stored into a list of {v.ty[1]}')
        self.move_out(e, env, 'stored into a list')
        idx = self.pure(t.slice, env, INT)
        binds.append(f'bdo {v.coq} <- py_set {v.coq} {idx.term} {c.term};')

    def owned_list(self, name, node, env):
        v = env.vars.get(name)
        if v is None:
            if name in env.dead:
                fail(node, f'{name!r} is used after {env.dead[name]}')
            fail(node, f'{name!r} is not bound')
        if not listy(v.ty) or not v.owned:
            fail(node, f'in-place mutation of {name!r}, which this function does not own '
                       '(a parameter, a callee result that may alias an argument, ...)')
        return v

    def st_expr(self, s, env):
        c = s.value
        if isinstance(c, ast.Call) and isinstance(c.func, ast.Attribute) and isinstance(c.func.value, ast.Name) \
                and c.func.value.id != 'circuit' and c.func.attr in ('append', 'pop', 'add', 'discard'):
            recv, m = c.func.value.id, c.func.attr
            if c.keywords:
                fail(s, 'keyword arguments')
            v = self.owned_list(recv, s, env)
            binds = []
            if m == 'pop':
                if c.args or is_slist(v.ty):
                    fail(s, '<list>.pop() expected')
                return [f'bdo {v.coq} <- py_pop {v.coq};']
            if len(c.args) != 1:
                fail(s, f'.{m}(x) expected')
            if (m == 'append') != is_list(v.ty):
                fail(s, f'.{m} on a value of the wrong kind')
            e = self.val(c.args[0], env, binds)
            if e.ty == STRC:
                e = self.coerce(e, LABEL)
            if is_tyvar(v.ty[1]):
                self.learn(v.ty, e.ty, s)
            e2 = self.coerce(e, v.ty[1])
            if e2 is None:
                fail(s, f'a value of type {e.ty} put into a list of {v.ty[1]}')
            self.move_out(e, env, 'put into a list')
            if m == 'append':
                return binds + [f'let {v.coq} := {v.coq} ++ [{e2.term}] in']
            if m == 'add':
                return binds + [f'let {v.coq} := sl_add {ltb_of(v.ty[1], s)} {e2.term} {v.coq} in']
            return binds + [f'let {v.coq} := py_sl_discard {eqb_of(v.ty[1], s)} {e2.term} {v.coq} in']
        return super().st_expr(s, env)

    def narrowing(self, s, env, env_t, env_e):
        t = s.test
        if isinstance(t, ast.Call) and isinstance(t.func, ast.Name) and t.func.id == 'isinstance':
            self.builtin('isinstance', t, env)
            if t.keywords or len(t.args) != 2 or not isinstance(t.args[0], ast.Name) \
                    or not (isinstance(t.args[1], ast.Name) and t.args[1].id == 'str'):
                fail(s, 'isinstance(<basis parameter>, str) expected')
            self.builtin('str', t, env)
            pname = t.args[0].id
            v = env.vars.get(pname)
            if v is None or v.ty != BASISARG:
                fail(s, f'isinstance test of {pname!r}, which is not a str-or-GenerationBasis parameter')
            env_t.vars[pname] = Var(STR, False, v.coq)
            env_e.vars[pname] = Var(GENBASIS, False, v.coq)
            vc = v.coq

            def emit(tl, el):
                return [f'match {vc} with', f'| BStr {vc} =>'] + indent(tl) + [f'| BEnum {vc} =>'] + indent(el) + ['end']
            return emit, pname
        return super().narrowing(s, env, env_t, env_e)

    # -- while
    def fuel_entry(self):
        ps = [self.cn(n) for n, ty, _d, _k in self.params if is_list(ty)]
        if not ps:
            fail(self.f, 'a while loop in a function without list parameters: no fuel')
        return 'S (' + ' + '.join(f'length {p}' for p in ps) + ')'

    def st_while(self, s, env):
        if s.orelse or contains(s.body, (ast.Return,)):
            fail(s, 'while loop with else / return')
        if self.while_depth == 0:
            fuel = "fuel'0"
            self.uses_fuel = True
        else:
            names = []
            for sub in ast.walk(s.test):
                if isinstance(sub, ast.Name) and sub.id in env.vars and listy(env.vars[sub.id].ty) and sub.id not in names:
                    names.append(sub.id)
            if not names:
                fail(s, 'the condition of a nested while loop mentions no list: no fuel')
            fuel = '(S (' + ' + '.join(f'length {env.vars[n].coq}' for n in names) + '))%nat'
        C = self.carried(s.body, env, s)
        before = {n: Var(env.vars[n].ty, env.vars[n].owned, env.vars[n].coq) for n in C}
        before_all = {n: Var(v.ty, v.owned, v.coq) for n, v in env.vars.items()}
        env_b = env.copy()
        cond = self.ex(s.test, env_b)
        if cond.ty != BOOL:
            fail(s, 'the condition of a while loop must be a bool')
        monadic = bool(cond.binds) or contains(s.body, (ast.Break, ast.Continue))

        def finish(env_f, ctor):
            for n in C:
                v = env_f.vars.get(n)
                if v is None:
                    fail(s, f'{n!r} is not bound at the end of the loop body')
                if v.ty != before[n].ty:
                    if is_list(before[n].ty) and is_tyvar(before[n].ty[1]) and listy(v.ty):
                        self.learn(before[n].ty, v.ty[1], s)
                    fail(s, f'the type of {n!r} changes in the loop body')
                if v.owned != before[n].owned:
                    fail(s, f'the ownership of the list {n!r} changes in the loop body')
            for n in env_f.dead:
                if n in before_all:
                    fail(s, f'{n!r} is moved inside a loop')
            for n, v in env_f.vars.items():
                if n in before_all and n not in C and before_all[n].owned and not v.owned:
                    fail(s, f'the ownership of the list {n!r} changes in the loop body')
            st = tuple_term([env_f.vars[n].coq for n in C])
            return [f'Ret ({ctor} {st})' if ctor else f'Ret {st}']

        self.while_depth += 1
        self.loops.append(finish)
        try:
            body = self.block(list(s.body), env_b, lambda env_f: finish(env_f, 'LNext' if monadic else None))
        finally:
            self.loops.pop()
            self.while_depth -= 1
        st_pat = tuple_pat([self.cn(n) for n in C])
        st_term = tuple_term([env.vars[n].coq for n in C])
        out = f'bdo {tuple_pat([self.cn(n) for n in C], False)} <- '
        if monadic:
            ctext = ' '.join(cond.binds + [f'Ret {cond.term}'])
            lines = [out + f'py_while_c {fuel} (fun {st_pat} => {ctext}) (fun {st_pat} =>']
        else:
            lines = [out + f'py_while {fuel} (fun {st_pat} => {cond.term}) (fun {st_pat} =>']
        lines += indent(body, 4)
        lines[-1] += f') {st_term};'
        return lines

    def st_for(self, s, env):
        it = s.iter
        if isinstance(s.target, ast.Name) and isinstance(it, ast.Call) and isinstance(it.func, ast.Name) \
                and it.func.id == 'range' and all(
                    (isinstance(a, ast.Constant) and type(a.value) is int and a.value >= 0) or neg_one(a) for a in it.args) \
                and all(isinstance(a, ast.Constant) for a in it.args[:2]):
            added = s.target.id not in self.nonneg
            self.nonneg.add(s.target.id)
            try:
                return super().st_for(s, env)
            finally:
                if added:
                    self.nonneg.discard(s.target.id)
        return super().st_for(s, env)

    # -- the function
    def translate(self):
        for _ in range(64):
            self.reset()
            try:
                return self.translate_once()
            except Retry:
                continue
        fail(self.f, 'type inference of the empty lists does not terminate')

    def prologue(self, params, env):
        self.params = params
        self.locals_bound = set(assigned_deep(self.f.body)) | {p[0] for p in params}
        self.uses_fuel = False
        for name, ty, _d, _k in params:
            if name in t14.BUILTINS:
                fail(self.f, f'the built-in {name!r} is a parameter')
            env.vars[name] = Var(ty, False, self.cn(name))
        return ' '.join(f'({self.cn(n)} : {coq_ty(t)})' for n, t, _d, _k in params)

    def translate_once(self):
        params, has_state = self.signature()
        env = Env()
        if has_state:
            env.vars['circuit'] = Var(STATE, False, 'circuit')
        ps = self.prologue(params, env)
        body = list(strip_docstring(self.f.body))
        lines = self.block(body, env, self.fall_off)
        if self.ret is None:
            fail(self.f, 'no return type')
        if self.uses_fuel:
            lines = [f"let fuel'0 := ({self.fuel_entry()})%nat in"] + lines
        sig = Sig('gen_' + self.f.name, params, self.ret, has_state, self.ret_fresh)
        head = f'Definition gen_{self.f.name} {ps} : prog ({coq_ty(self.ret)}) :='
        return sig, '\n'.join([head] + indent(lines)) + '.'

    def st_return(self, s, env):
        lines = super().st_return(s, env)
        if has_tyvar(self.ret):
            fail(s, 'the element type of the returned list is not known')
        return lines


# ------------------------------------------------------------------ the generate_* wrappers
class SumWrapTr(SumFnTr):
    """def generate_f(params) -> Circuit:
           <pure statements>                        x = <expr that cannot raise>
           circuit = Circuit.bare_circuit(<int>)
           <statements of the grammar of SumFnTr>    one builder program; `circuit.inputs` may be read
           circuit.set_outputs(<labels>)
           return circuit
       -> gen_generate_f (fresh : N -> label) (k0 : N) params : res circuit"""

    def ex(self, node, env):
        if isinstance(node, ast.Attribute) and isinstance(node.value, ast.Name) and node.value.id == 'circuit' \
                and node.attr == 'inputs' and getattr(self, 'in_program', False) and 'circuit' in env.vars \
                and env.vars['circuit'].ty == STATE:
            # read only: passed to callees that never mutate a parameter, indexed, copied
            return E([], '(inputs circuit)', LABELS, False, None)
        return super().ex(node, env)

    def translate_wrapper(self):
        self.reset()
        for _ in range(64):
            self.reset()
            try:
                return self.wrapper_once()
            except Retry:
                continue
        fail(self.f, 'type inference of the empty lists does not terminate')

    def wrapper_once(self):
        params, has_state = self.signature()
        if has_state:
            fail(self.f, 'a wrapper creates its circuit')
        for bad in ('fresh', 'k0', 'run_r', 'run_st', 'outs'):
            if bad in self.locals:
                fail(self.f, f'identifier {bad!r} collides with the generated vocabulary')
        env = Env()
        ps = self.prologue(params, env)
        body = list(strip_docstring(self.f.body))
        k = None
        for i, st in enumerate(body):
            if isinstance(st, ast.Assign) and len(st.targets) == 1 and isinstance(st.targets[0], ast.Name) \
                    and st.targets[0].id == 'circuit':
                k = i
                break
        if k is None:
            fail(self.f, '`circuit = Circuit.bare_circuit(n)` not found')
        if 'circuit' in {n.id for st in body[:k] for n in ast.walk(st) if isinstance(n, ast.Name)}:
            fail(self.f, 'the circuit is used before its creation')
        lines = []
        for st in body[:k]:
            if not (isinstance(st, ast.Assign) and len(st.targets) == 1 and isinstance(st.targets[0], ast.Name)):
                fail(st, 'statement outside the wrapper grammar')
            e = self.pure(st.value, env)
            if e.ty == STRC:
                fail(st, 'string constant assigned to a variable')
            binds = []
            self.bind_var(st.targets[0], e, env, binds)
            lines += binds
        self.unit.check_circuit_methods()
        self.need_core('Circuit', body[k])
        v = body[k].value
        if not (isinstance(v, ast.Call) and ast.unparse(v.func) == 'Circuit.bare_circuit' and len(v.args) == 1
                and not v.keywords):
            fail(body[k], 'creation of the circuit outside the grammar')
        lines.append(f'do circuit <- py_bare_circuit {self.pure(v.args[0], env, INT).term};')
        env.vars['circuit'] = Var(STATE, False, 'circuit')
        rest = body[k + 1:]
        if len(rest) < 2 or ast.unparse(rest[-1]) != 'return circuit':
            fail(self.f, '`return circuit` expected as the last statement')
        so = rest[-2]
        if not (isinstance(so, ast.Expr) and isinstance(so.value, ast.Call)
                and ast.unparse(so.value.func) == 'circuit.set_outputs' and len(so.value.args) == 1
                and not so.value.keywords):
            fail(so, '`circuit.set_outputs(<labels>)` expected before the return')
        prog_stmts = rest[:-2]
        for st in prog_stmts:
            for sub in ast.walk(st):
                if isinstance(sub, ast.Name) and sub.id == 'circuit' and isinstance(sub.ctx, ast.Store):
                    fail(st, 'the circuit is rebound')
        self.in_program = True

        def k_out(env_f):
            binds = []
            o = self.val(so.value.args[0], env_f, binds, LABELS)
            return binds + [f'Ret {o.term}']
        plines = self.block(list(prog_stmts), env, k_out)
        self.in_program = False
        if self.uses_fuel:
            fail(self.f, 'a while loop in a wrapper')
        plines = paren(plines)
        plines[0] = 'do run_r <- run fresh ' + plines[0]
        plines[-1] += ' (mkB circuit k0);'
        lines += plines
        lines.append("let '(outs, run_st) := run_r in")
        lines.append('let circuit := bc run_st in')
        lines.append('do circuit <- set_outputs circuit outs;')
        lines.append('Ok circuit')
        head = f'Definition gen_{self.f.name} (fresh : N -> label) (k0 : N) {ps} : res circuit :='
        return '\n'.join([head] + indent(lines)) + '.'


# ------------------------------------------------------------------ the unit
class SumUnit(Unit):
    def basis_members(self):
        """the members of helpers.GenerationBasis: NAME = "NAME" (the hand model's gen_basis has exactly XAIG | AIG)"""
        if getattr(self, '_basis', None) is None:
            m = self.mod('helpers')
            if m.imports.get('enum') != ('enum', None):
                raise TranslatorError(f'{m.path}: `import enum` expected')
            cls = m.classes.get('GenerationBasis')
            if cls is None or cls.decorator_list or cls.keywords or [ast.unparse(b) for b in cls.bases] != ['enum.Enum']:
                raise TranslatorError(f'{m.path}: class GenerationBasis(enum.Enum) expected')
            members = []
            for st in strip_docstring(cls.body):
                if isinstance(st, ast.Assign) and len(st.targets) == 1 and isinstance(st.targets[0], ast.Name) \
                        and isinstance(st.value, ast.Constant) and isinstance(st.value.value, str) \
                        and st.value.value.isascii() and st.value.value.isprintable() and '"' not in st.value.value:
                    members.append((st.targets[0].id, st.value.value))
                else:
                    fail(st, f'{m.path}: GenerationBasis: only `NAME = "<string>"` members are accepted')
            if sorted(n for n, _ in members) != ['AIG', 'XAIG'] or len({v for _, v in members}) != len(members):
                raise TranslatorError(f'{m.path}: GenerationBasis must have exactly the members XAIG and AIG '
                                      '(gen_basis of Model/ArithSumN.v), with distinct values')
            self._basis = members
        return [n for n, _ in self._basis]

    def basis_text(self):
        self.basis_members()
        lines = ['(* cirbo/synthesis/generation/helpers.py: GenerationBasis(<str>)  (ValueError for any other string) *)',
                 'Definition gen_GenerationBasis (s : string) : prog (gen_basis) :=']
        for n, v in self._basis:
            lines.append(f'  if String.eqb s "{v}" then Ret {n} else')
        lines.append('  Fail PyValueError.')
        return '\n'.join(lines)

    def cell_sig(self, name):
        f = self.mod('sum').funcs.get(name)
        if f is None:
            raise TranslatorError(f'summation.py: {name} not found')
        tr = SumFnTr(self, self.mod('sum'), f)
        params, has_state = tr.signature()
        if not has_state or [(p[0], p[1]) for p in params] != [('input_labels', LABELS)]:
            fail(f, f'{name}(circuit, input_labels) expected')
        self.sigs[('sum', name)] = Sig(name, params, LABELS, True, True)

    def run(self):
        t4_arith.translate_utils()
        t4_arith.translate_cells()          # the bodies of the cells (Generated/ArithCells.v)
        for name in CELLS:
            self.cell_sig(name)
        # reverse_if_big_endian: the definition T14 emits into Generated/ArithGen09.v
        mu = self.mod('utils')
        sig, _text = FnTr(self, mu, mu.funcs['reverse_if_big_endian']).translate()
        self.sigs[('utils', 'reverse_if_big_endian')] = sig
        m = self.mod('sum')
        out = [HEADER, self.basis_text(), '']
        for name in FUNCS:
            f = m.funcs.get(name)
            if f is None:
                raise TranslatorError(f'{m.path}: {name} not found')
            sig, text = SumFnTr(self, m, f).translate()
            self.sigs[('sum', name)] = sig
            out += [f'(* {m.path}: {name} *)', text, '']
        for name in WRAPPERS:
            f = m.funcs.get(name)
            if f is None:
                raise TranslatorError(f'{m.path}: {name} not found')
            out += [f'(* {m.path}: {name} *)', SumWrapTr(self, m, f).translate_wrapper(), '']
        return '\n'.join(out)


HEADER = '''(* GENERATED by translator/t18_sum_gen.py from cirbo/synthesis/generation/arithmetics/summation.py and
   cirbo/synthesis/generation/helpers.py.  DO NOT EDIT.
   Proofs/ArithGen07*.v proves every gen_<name> extensionally equal to the hand model (Model/ArithSum{2,N,W}.v).

   Conventions: those of Generated/ArithGen09.v (translator T14), plus: a `while` loop is py_while / py_while_c on the
   fuel named in the header of the translator (fuel'0 = S (total length of the list parameters at function entry) for
   a loop that is not nested in another `while`); a tuple is a (left-nested) pair; a SortedList is the list of its
   elements in order with sl_of_list / sl_add of the hand model Model/ArithSumW.v; `basis` is a basis_arg of
   Model/ArithSumN.v (isinstance(basis, str) is the match on it); the cells add_sum2 ... add_mdfa are those of
   Generated/ArithCells.v (T4); reverse_if_big_endian is gen_reverse_if_big_endian of Generated/ArithGen09.v (T14);
   the remaining Python built-ins are Model/PyPrims.v and Model/PyPrimsSum.v. *)
Require Import Cirbo.Model.Base Cirbo.Model.Gate Cirbo.Model.Circuit Cirbo.Model.Builder Cirbo.Model.PyPrims.
Require Import Cirbo.Generated.ArithTables Cirbo.Generated.ArithCells Cirbo.Generated.ArithGen09.
Require Import Cirbo.Model.ArithSumN Cirbo.Model.ArithSumW Cirbo.Model.PyPrimsSum.
From Coq Require Import ZArith Ascii.
Open Scope Z_scope.
'''


def generate():
    return SumUnit().run()


def translate():
    return {OUT: write_if_changed(OUT, generate())}


if __name__ == '__main__':
    print(translate())
